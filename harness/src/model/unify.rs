//! Textbook first-order unification over rational trees (union-find, classes are merged before
//! their arguments are descended into, so cyclic constraint sets terminate), with an acyclicity
//! check at the end.  The principal solution sets every remaining variable to unit.  Types are
//! kept as a DAG of classes so that exponentially large types stay small.
//!
//! Typing rules (one fresh pair (src, tgt) per node, sub-expressions are monomorphic):
//!   iden: src = tgt                      unit: tgt = 1
//!   injl t: src = src_t, tgt = tgt_t + X      injr t: tgt = X + tgt_t
//!   take t: src = src_t * X, tgt = tgt_t      drop t: src = X * src_t, tgt = tgt_t
//!   comp s t: src = src_s, tgt_s = src_t, tgt = tgt_t
//!   pair s t: src = src_s = src_t, tgt = tgt_s * tgt_t
//!   case s t: src = (A + B) * C, src_s = A * C, src_t = B * C, tgt = tgt_s = tgt_t
//!   assertl s h: src = (A + B) * C, src_s = A * C, tgt = tgt_s      assertr h t: symmetric
//!   disconnect s t: src_s = 2^256 * A, tgt_s = B * C, src_t = C, tgt_t = D, src = A, tgt = B * D
//!   disconnect s (no branch): as above with C, D unconstrained
//!   witness, fail: unconstrained        word n: src = 1, tgt = 2^(2^n)       jet: its table types

use super::layout::{RTy, RTyKind};
use crate::gen::prog::{Ir, Prog};
use std::collections::HashMap;
use std::sync::Arc;

#[derive(Clone, Copy, Debug, PartialEq, Eq)]
enum Term {
    Var,
    Unit,
    Sum(usize, usize),
    Prod(usize, usize),
}

pub struct Unifier {
    parent: Vec<usize>,
    term: Vec<Term>,
    /// complete types already imported, by structural hash
    imported: HashMap<u64, usize>,
}

#[derive(Debug, Clone, PartialEq, Eq)]
pub enum Verdict {
    WellTyped,
    /// two different type constructors were required to be equal
    Clash,
    /// the constraints only have an infinite (cyclic) solution
    Infinite,
}

impl Default for Unifier {
    fn default() -> Self {
        Self::new()
    }
}

impl Unifier {
    pub fn new() -> Self {
        Unifier { parent: vec![], term: vec![], imported: HashMap::new() }
    }
    fn mk(&mut self, t: Term) -> usize {
        self.parent.push(self.parent.len());
        self.term.push(t);
        self.parent.len() - 1
    }
    pub fn var(&mut self) -> usize {
        self.mk(Term::Var)
    }
    pub fn unit(&mut self) -> usize {
        self.mk(Term::Unit)
    }
    pub fn sum(&mut self, a: usize, b: usize) -> usize {
        self.mk(Term::Sum(a, b))
    }
    pub fn prod(&mut self, a: usize, b: usize) -> usize {
        self.mk(Term::Prod(a, b))
    }
    /// Import a complete type (shared sub-types are imported once).
    pub fn import(&mut self, ty: &Arc<RTy>) -> usize {
        if let Some(i) = self.imported.get(&ty.hash) {
            return *i;
        }
        let i = match &ty.kind {
            RTyKind::Unit => self.unit(),
            RTyKind::Sum(a, b) => {
                let (x, y) = (self.import(a), self.import(b));
                self.sum(x, y)
            }
            RTyKind::Prod(a, b) => {
                let (x, y) = (self.import(a), self.import(b));
                self.prod(x, y)
            }
        };
        self.imported.insert(ty.hash, i);
        i
    }
    pub fn find(&mut self, mut x: usize) -> usize {
        while self.parent[x] != x {
            self.parent[x] = self.parent[self.parent[x]];
            x = self.parent[x];
        }
        x
    }
    /// Unify two terms.  Err(()) on a constructor clash.
    pub fn unify(&mut self, a: usize, b: usize) -> Result<(), ()> {
        let mut work = vec![(a, b)];
        while let Some((a, b)) = work.pop() {
            let (ra, rb) = (self.find(a), self.find(b));
            if ra == rb {
                continue;
            }
            match (self.term[ra], self.term[rb]) {
                (Term::Var, _) => self.parent[ra] = rb,
                (_, Term::Var) => self.parent[rb] = ra,
                (Term::Unit, Term::Unit) => self.parent[ra] = rb,
                (Term::Sum(a1, a2), Term::Sum(b1, b2)) | (Term::Prod(a1, a2), Term::Prod(b1, b2)) => {
                    self.parent[ra] = rb; // merge first, then descend
                    work.push((a1, b1));
                    work.push((a2, b2));
                }
                _ => return Err(()),
            }
        }
        Ok(())
    }
    /// Is some class reachable from `roots` part of a cycle?
    pub fn has_cycle(&mut self, roots: &[usize]) -> bool {
        // iterative three-colour DFS over class representatives
        let n = self.parent.len();
        let mut colour = vec![0u8; n];
        for r in roots {
            let r = self.find(*r);
            if colour[r] != 0 {
                continue;
            }
            let mut stack: Vec<(usize, usize)> = vec![(r, 0)];
            colour[r] = 1;
            while let Some((x, k)) = stack.pop() {
                let kids: Vec<usize> = match self.term[x] {
                    Term::Sum(a, b) | Term::Prod(a, b) => vec![a, b],
                    _ => vec![],
                };
                if k < kids.len() {
                    stack.push((x, k + 1));
                    let c = self.find(kids[k]);
                    match colour[c] {
                        0 => {
                            colour[c] = 1;
                            stack.push((c, 0));
                        }
                        1 => return true,
                        _ => {}
                    }
                } else {
                    colour[x] = 2;
                }
            }
        }
        false
    }
    /// The type denoted by a class once the constraint set is known to be finite: variables
    /// become unit.  Memoised per class, so shared structure stays shared.
    pub fn resolve(&mut self, x: usize, memo: &mut HashMap<usize, Arc<RTy>>) -> Arc<RTy> {
        let r = self.find(x);
        if let Some(t) = memo.get(&r) {
            return t.clone();
        }
        let t = match self.term[r] {
            Term::Var | Term::Unit => RTy::unit(),
            Term::Sum(a, b) => {
                let (x, y) = (self.resolve(a, memo), self.resolve(b, memo));
                RTy::sum(x, y)
            }
            Term::Prod(a, b) => {
                let (x, y) = (self.resolve(a, memo), self.resolve(b, memo));
                RTy::prod(x, y)
            }
        };
        memo.insert(r, t.clone());
        t
    }
}

pub struct Inference {
    pub verdict: Verdict,
    /// principal arrows (free variables := unit) per node id, when well-typed
    pub arrows: HashMap<usize, (Arc<RTy>, Arc<RTy>)>,
    /// largest expanded size (number of tree nodes, saturating) of any node's type
    pub max_type_size: usize,
}

/// Infer the types of the nodes reachable from the root.  `program`: root : 1 -> 1.
pub fn infer(prog: &Prog, program: bool) -> Inference {
    let mut u = Unifier::new();
    let reach = prog.reachable();
    let mut src: HashMap<usize, usize> = HashMap::new();
    let mut tgt: HashMap<usize, usize> = HashMap::new();
    for i in &reach {
        let s = u.var();
        let t = u.var();
        src.insert(*i, s);
        tgt.insert(*i, t);
    }
    let mut roots: Vec<usize> = vec![];
    let mut clash = false;
    macro_rules! eq {
        ($a:expr, $b:expr) => {
            if u.unify($a, $b).is_err() {
                clash = true;
            }
        };
    }
    for i in &reach {
        let (s, t) = (src[i], tgt[i]);
        roots.push(s);
        roots.push(t);
        match &prog.nodes[*i] {
            Ir::Iden => eq!(s, t),
            Ir::Unit => {
                let one = u.unit();
                eq!(t, one);
            }
            Ir::InjL(c) => {
                eq!(s, src[c]);
                let x = u.var();
                let sum = u.sum(tgt[c], x);
                eq!(t, sum);
            }
            Ir::InjR(c) => {
                eq!(s, src[c]);
                let x = u.var();
                let sum = u.sum(x, tgt[c]);
                eq!(t, sum);
            }
            Ir::Take(c) => {
                let x = u.var();
                let p = u.prod(src[c], x);
                eq!(s, p);
                eq!(t, tgt[c]);
            }
            Ir::Drop(c) => {
                let x = u.var();
                let p = u.prod(x, src[c]);
                eq!(s, p);
                eq!(t, tgt[c]);
            }
            Ir::Comp(a, b) => {
                eq!(s, src[a]);
                eq!(tgt[a], src[b]);
                eq!(t, tgt[b]);
            }
            Ir::Pair(a, b) => {
                eq!(s, src[a]);
                eq!(s, src[b]);
                let p = u.prod(tgt[a], tgt[b]);
                eq!(t, p);
            }
            Ir::Case(a, b) => {
                let (x, y, z) = (u.var(), u.var(), u.var());
                let sum = u.sum(x, y);
                let p = u.prod(sum, z);
                eq!(s, p);
                let pa = u.prod(x, z);
                eq!(src[a], pa);
                let pb = u.prod(y, z);
                eq!(src[b], pb);
                eq!(t, tgt[a]);
                eq!(t, tgt[b]);
            }
            Ir::AssertL(a, _) => {
                let (x, y, z) = (u.var(), u.var(), u.var());
                let sum = u.sum(x, y);
                let p = u.prod(sum, z);
                eq!(s, p);
                let pa = u.prod(x, z);
                eq!(src[a], pa);
                eq!(t, tgt[a]);
            }
            Ir::AssertR(_, b) => {
                let (x, y, z) = (u.var(), u.var(), u.var());
                let sum = u.sum(x, y);
                let p = u.prod(sum, z);
                eq!(s, p);
                let pb = u.prod(y, z);
                eq!(src[b], pb);
                eq!(t, tgt[b]);
            }
            Ir::Disconnect(a, b) => {
                let (av, bv) = (u.var(), u.var());
                let (cv, dv) = match b {
                    Some(b) => (src[b], tgt[b]),
                    None => (u.var(), u.var()),
                };
                let w256 = u.import(&RTy::word(8));
                let ps = u.prod(w256, av);
                eq!(src[a], ps);
                let pt = u.prod(bv, cv);
                eq!(tgt[a], pt);
                eq!(s, av);
                let out = u.prod(bv, dv);
                eq!(t, out);
            }
            Ir::Witness | Ir::Fail(_) => {}
            Ir::Word(n, _) => {
                let one = u.unit();
                eq!(s, one);
                let w = u.import(&RTy::word(*n));
                eq!(t, w);
            }
            Ir::Jet(j) => {
                let (js, jt) = (u.import(&j.source()), u.import(&j.target()));
                eq!(s, js);
                eq!(t, jt);
            }
        }
        if clash {
            break;
        }
    }
    if !clash && program {
        let one = u.unit();
        eq!(src[&prog.root], one);
        let one = u.unit();
        eq!(tgt[&prog.root], one);
    }
    if clash {
        return Inference { verdict: Verdict::Clash, arrows: HashMap::new(), max_type_size: 0 };
    }
    if u.has_cycle(&roots) {
        return Inference { verdict: Verdict::Infinite, arrows: HashMap::new(), max_type_size: 0 };
    }
    let mut memo = HashMap::new();
    let mut arrows = HashMap::new();
    let mut max_type_size = 0;
    for i in &reach {
        let a = u.resolve(src[i], &mut memo);
        let b = u.resolve(tgt[i], &mut memo);
        max_type_size = max_type_size.max(a.size).max(b.size);
        arrows.insert(*i, (a, b));
    }
    Inference { verdict: Verdict::WellTyped, arrows, max_type_size }
}
