//! C14 helper: textual extraction and comparison of foreign declarations.
//!
//! Rust side: every `extern "C" { .. }` block, every `#[no_mangle] extern "C" fn` definition and
//! every `type X = unsafe extern "C" fn(..)` alias below `/repo/simplicity-sys/src`.
//! C side: prototypes / definitions / function-pointer typedefs / file-scope variables of the same
//! symbols below `/repo/simplicity-sys/depend` (`*.h`, `*.c`, `*.inc`), including the functions
//! produced by function-like macros that define a function (`WRAP_` of `depend/wrapper.h`), which
//! are expanded textually (parameter substitution and `##` pasting).
//!
//! Plain string processing; no part of the crate under test is called.  Everything that is not
//! recognised with confidence is reported as "unknown", never as a mismatch.

use std::collections::{BTreeMap, BTreeSet};
use std::path::{Path, PathBuf};

pub const RUST_ROOT: &str = "/repo/simplicity-sys/src";
pub const C_ROOT: &str = "/repo/simplicity-sys/depend";

#[derive(Clone, Copy, Debug, PartialEq, Eq, PartialOrd, Ord)]
pub enum Kind {
    /// `fn` inside an `extern "C" { }` block
    Import,
    /// `#[no_mangle] extern "C" fn` defined in Rust and declared in a C header
    Export,
    /// `type X = unsafe extern "C" fn(..) -> ..` bound to a C function-pointer typedef
    Callback,
}

impl Kind {
    pub fn name(self) -> &'static str {
        match self {
            Kind::Import => "import",
            Kind::Export => "export",
            Kind::Callback => "callback type",
        }
    }
}

#[derive(Clone, Debug)]
pub struct RustFn {
    /// link name (`#[link_name]`, or the Rust name), for callbacks the C typedef name (or "" if unmapped)
    pub symbol: String,
    pub rust_name: String,
    pub file: String,
    pub kind: Kind,
    pub param_names: Vec<String>,
    pub params: Vec<String>,
    /// "" = no return value
    pub ret: String,
    /// reasons for which the declaration could not be parsed with confidence (variadic, generics ..)
    pub problems: Vec<String>,
    pub text: String,
}

#[derive(Clone, Debug)]
pub struct RustStatic {
    pub symbol: String,
    pub rust_name: String,
    pub file: String,
    pub ty: String,
}

#[derive(Clone, Debug)]
pub struct CFn {
    pub symbol: String,
    pub file: String,
    /// "prototype" | "definition" | "typedef" | "definition (expansion of MACRO)"
    pub origin: String,
    pub ret: String,
    pub params: Vec<String>,
    pub text: String,
}

#[derive(Clone, Debug)]
pub struct CVar {
    pub symbol: String,
    pub file: String,
    pub ty: String,
    pub is_array: bool,
    pub text: String,
}

#[derive(Default)]
pub struct Tables {
    /// sorted by (symbol, file, rust name)
    pub fns: Vec<RustFn>,
    /// sorted by (symbol, file)
    pub statics: Vec<RustStatic>,
    pub c_fns: BTreeMap<String, Vec<CFn>>,
    pub c_vars: BTreeMap<String, Vec<CVar>>,
    pub rust_files: usize,
    pub c_files: usize,
    /// items inside extern blocks that were neither `fn` nor `static`
    pub rust_unparsed_items: Vec<String>,
    pub macros_expanded: usize,
}

/// Rust alias of a callback type -> C typedef name (deserialize.h / typeInference.h).
pub const CALLBACK_TYPEDEFS: &[(&str, &str)] = &[
    ("CCallbackDecodeJet", "rustsimplicity_0_7_callback_decodeJet"),
    ("CCallbackMallocBoundVars", "rustsimplicity_0_7_callback_mallocBoundVars"),
];

// ------------------------------------------------------------------------------------------
// lexical helpers

fn is_ident_start(b: u8) -> bool {
    b.is_ascii_alphabetic() || b == b'_'
}

fn is_ident(b: u8) -> bool {
    b.is_ascii_alphanumeric() || b == b'_'
}

/// Replace comments by spaces (newlines are kept, so offsets and lines stay put).  String
/// literals are kept verbatim; `c_chars` additionally skips over C character literals (in Rust a
/// `'` may start a lifetime, so it is not treated specially there).
pub fn strip_comments(src: &[u8], nested: bool, c_chars: bool) -> Vec<u8> {
    let mut out = src.to_vec();
    let n = src.len();
    let mut i = 0;
    while i < n {
        let b = src[i];
        if b == b'/' && i + 1 < n && src[i + 1] == b'/' {
            while i < n && src[i] != b'\n' {
                out[i] = b' ';
                i += 1;
            }
        } else if b == b'/' && i + 1 < n && src[i + 1] == b'*' {
            let mut depth = 1;
            out[i] = b' ';
            out[i + 1] = b' ';
            i += 2;
            while i < n && depth > 0 {
                if src[i] == b'*' && i + 1 < n && src[i + 1] == b'/' {
                    depth -= 1;
                    out[i] = b' ';
                    out[i + 1] = b' ';
                    i += 2;
                } else if nested && src[i] == b'/' && i + 1 < n && src[i + 1] == b'*' {
                    depth += 1;
                    out[i] = b' ';
                    out[i + 1] = b' ';
                    i += 2;
                } else {
                    if src[i] != b'\n' {
                        out[i] = b' ';
                    }
                    i += 1;
                }
            }
        } else if b == b'"' || (c_chars && b == b'\'') {
            let q = b;
            i += 1;
            while i < n && src[i] != q {
                if src[i] == b'\\' {
                    i += 1;
                }
                if src[i.min(n - 1)] == b'\n' && q == b'\'' {
                    break; // not a character literal after all
                }
                i += 1;
            }
            i += 1;
        } else {
            i += 1;
        }
    }
    out
}

fn skip_ws(t: &[u8], mut i: usize) -> usize {
    while i < t.len() && t[i].is_ascii_whitespace() {
        i += 1;
    }
    i
}

/// Index of the bracket matching the opening bracket at `open` (any of `([{`), skipping strings.
fn matching(t: &[u8], open: usize) -> Option<usize> {
    let mut depth = 0usize;
    let mut i = open;
    while i < t.len() {
        match t[i] {
            b'(' | b'[' | b'{' => depth += 1,
            b')' | b']' | b'}' => {
                depth = depth.checked_sub(1)?;
                if depth == 0 {
                    return Some(i);
                }
            }
            b'"' => {
                i += 1;
                while i < t.len() && t[i] != b'"' {
                    if t[i] == b'\\' {
                        i += 1;
                    }
                    i += 1;
                }
            }
            _ => {}
        }
        i += 1;
    }
    None
}

/// Split at commas that are not nested in `() [] {} <>`.
fn split_top(s: &str, sep: u8) -> Vec<String> {
    let b = s.as_bytes();
    let mut depth = 0i32;
    let mut parts = vec![];
    let mut start = 0;
    let mut i = 0;
    while i < b.len() {
        match b[i] {
            b'(' | b'[' | b'{' | b'<' => depth += 1,
            b')' | b']' | b'}' => depth -= 1,
            b'>' if i == 0 || b[i - 1] != b'-' => depth -= 1,
            c if c == sep && depth == 0 => {
                parts.push(s[start..i].to_string());
                start = i + 1;
            }
            _ => {}
        }
        i += 1;
    }
    parts.push(s[start..].to_string());
    parts
}

fn squeeze(s: &str) -> String {
    s.split_whitespace().collect::<Vec<_>>().join(" ")
}

fn text_of(t: &[u8]) -> String {
    String::from_utf8_lossy(t).into_owned()
}

fn walk(dir: &Path, exts: &[&str], out: &mut Vec<PathBuf>) -> std::io::Result<()> {
    let mut entries: Vec<PathBuf> = std::fs::read_dir(dir)?.filter_map(|e| e.ok().map(|e| e.path())).collect();
    entries.sort();
    for p in entries {
        if p.is_dir() {
            walk(&p, exts, out)?;
        } else if let Some(ext) = p.extension().and_then(|e| e.to_str()) {
            if exts.contains(&ext) {
                out.push(p);
            }
        }
    }
    Ok(())
}

// ------------------------------------------------------------------------------------------
// Rust side

/// `name: type, ...` or (for callback types) `type, ...`
fn parse_rust_params(list: &str, named: bool, problems: &mut Vec<String>) -> (Vec<String>, Vec<String>) {
    let mut names = vec![];
    let mut tys = vec![];
    for p in split_top(list, b',') {
        let p = squeeze(&p);
        if p.is_empty() {
            continue;
        }
        if p == "..." {
            problems.push("variadic".into());
            continue;
        }
        if named {
            match p.find(':') {
                Some(k) if !p[..k].contains('<') && p.as_bytes().get(k + 1) != Some(&b':') => {
                    names.push(p[..k].trim().trim_start_matches("mut ").to_string());
                    tys.push(p[k + 1..].trim().to_string());
                }
                _ => {
                    problems.push(format!("parameter `{}` not of the form name: type", p));
                    names.push(String::new());
                    tys.push(p);
                }
            }
        } else {
            names.push(String::new());
            tys.push(p);
        }
    }
    (names, tys)
}

/// Parses `NAME(params) [-> ret]` starting at `at` (the position of NAME); returns
/// (name, params text, ret text, position after the signature).
fn parse_rust_sig(t: &[u8], at: usize) -> Option<(String, String, String, usize)> {
    let mut e = at;
    while e < t.len() && is_ident(t[e]) {
        e += 1;
    }
    let name = text_of(&t[at..e]);
    let open = skip_ws(t, e);
    if open >= t.len() || t[open] != b'(' {
        return None;
    }
    let close = matching(t, open)?;
    let params = text_of(&t[open + 1..close]);
    let mut k = skip_ws(t, close + 1);
    let mut ret = String::new();
    if k + 1 < t.len() && t[k] == b'-' && t[k + 1] == b'>' {
        let s = k + 2;
        k = s;
        while k < t.len() && t[k] != b';' && t[k] != b'{' {
            k += 1;
        }
        ret = squeeze(&text_of(&t[s..k]));
        if let Some(w) = ret.find(" where ") {
            ret.truncate(w);
        }
    }
    Some((name, params, ret, k))
}

fn strip_vis(mut s: &str) -> &str {
    loop {
        s = s.trim_start();
        if let Some(r) = s.strip_prefix("pub") {
            let r2 = r.trim_start();
            if r2.starts_with('(') {
                if let Some(c) = r2.find(')') {
                    s = &r2[c + 1..];
                    continue;
                }
            }
            if r.starts_with(char::is_whitespace) {
                s = r;
                continue;
            }
        }
        if let Some(r) = s.strip_prefix("unsafe ").or_else(|| s.strip_prefix("safe ")) {
            s = r;
            continue;
        }
        return s;
    }
}

fn parse_extern_block(body: &str, file: &str, tables: &mut Tables) {
    for item in split_top(body, b';') {
        let mut rest = item.trim();
        if rest.is_empty() {
            continue;
        }
        let mut link_name: Option<String> = None;
        // attributes
        while rest.starts_with('#') {
            let Some(open) = rest.find('[') else { break };
            let Some(close) = matching(rest.as_bytes(), open) else { break };
            let attr = squeeze(&rest[open + 1..close]);
            if let Some(v) = attr.strip_prefix("link_name") {
                let v = v.trim_start().trim_start_matches('=').trim();
                link_name = Some(v.trim_matches('"').to_string());
            }
            rest = rest[close + 1..].trim_start();
        }
        let rest = strip_vis(rest);
        if let Some(r) = rest.strip_prefix("fn ") {
            let r = r.trim_start();
            let bytes = r.as_bytes();
            let mut problems = vec![];
            match parse_rust_sig(bytes, 0) {
                Some((name, params, ret, _)) => {
                    let (param_names, params) = parse_rust_params(&params, true, &mut problems);
                    tables.fns.push(RustFn {
                        symbol: link_name.clone().unwrap_or_else(|| name.clone()),
                        rust_name: name,
                        file: file.to_string(),
                        kind: Kind::Import,
                        param_names,
                        params,
                        ret,
                        problems,
                        text: squeeze(rest),
                    });
                }
                None => {
                    // generics or something else we do not understand
                    let name: String = r.chars().take_while(|c| c.is_alphanumeric() || *c == '_').collect();
                    tables.fns.push(RustFn {
                        symbol: link_name.clone().unwrap_or_else(|| name.clone()),
                        rust_name: name,
                        file: file.to_string(),
                        kind: Kind::Import,
                        param_names: vec![],
                        params: vec![],
                        ret: String::new(),
                        problems: vec!["signature not understood".into()],
                        text: squeeze(rest),
                    });
                }
            }
        } else if let Some(r) = rest.strip_prefix("static ") {
            let r = r.trim_start().trim_start_matches("mut ").trim_start();
            if let Some(k) = r.find(':') {
                let name = r[..k].trim().to_string();
                tables.statics.push(RustStatic { symbol: link_name.unwrap_or_else(|| name.clone()), rust_name: name, file: file.to_string(), ty: squeeze(&r[k + 1..]) });
            } else {
                tables.rust_unparsed_items.push(format!("{}: {}", file, squeeze(rest)));
            }
        } else {
            tables.rust_unparsed_items.push(format!("{}: {}", file, squeeze(rest)));
        }
    }
}

fn parse_rust_file(path: &Path, tables: &mut Tables) -> Result<(), String> {
    let raw = std::fs::read(path).map_err(|e| format!("{}: {}", path.display(), e))?;
    let t = strip_comments(&raw, true, false);
    let file = path.strip_prefix("/repo").unwrap_or(path).display().to_string();
    let mut i = 0;
    while i + 6 <= t.len() {
        if &t[i..i + 6] == b"extern" && (i == 0 || !is_ident(t[i - 1])) && !is_ident(*t.get(i + 6).unwrap_or(&b' ')) {
            let k = skip_ws(&t, i + 6);
            if t[k..].starts_with(b"\"C\"") {
                let k = skip_ws(&t, k + 3);
                if k < t.len() && t[k] == b'{' {
                    let close = matching(&t, k).ok_or_else(|| format!("{}: unbalanced extern block", file))?;
                    parse_extern_block(&text_of(&t[k + 1..close]), &file, tables);
                    i = close + 1;
                    continue;
                } else if t[k..].starts_with(b"fn") && !is_ident(*t.get(k + 2).unwrap_or(&b' ')) {
                    let after_fn = skip_ws(&t, k + 2);
                    // what precedes, back to the previous item boundary
                    let mut s = i;
                    while s > 0 && !matches!(t[s - 1], b';' | b'}' | b'{') {
                        s -= 1;
                    }
                    let before = squeeze(&text_of(&t[s..i]));
                    if after_fn < t.len() && t[after_fn] == b'(' {
                        // function pointer type; interesting if it is `type NAME = ..`
                        let words: Vec<&str> = before.split_whitespace().collect();
                        if let Some(p) = words.iter().position(|w| *w == "type") {
                            if words.get(p + 2) == Some(&"=") || words.get(p + 1).map(|w| w.ends_with('=')).unwrap_or(false) {
                                let alias = words[p + 1].trim_end_matches('=').to_string();
                                if let Some(close) = matching(&t, after_fn) {
                                    // fake a name so that parse_rust_sig can be reused
                                    let mut sig = b"f".to_vec();
                                    sig.extend_from_slice(&t[after_fn..]);
                                    let mut problems = vec![];
                                    if let Some((_, params, ret, _)) = parse_rust_sig(&sig, 0) {
                                        let (param_names, params) = parse_rust_params(&params, false, &mut problems);
                                        let symbol = CALLBACK_TYPEDEFS.iter().find(|(a, _)| *a == alias).map(|(_, c)| c.to_string()).unwrap_or_default();
                                        tables.fns.push(RustFn {
                                            symbol,
                                            rust_name: alias,
                                            file: file.clone(),
                                            kind: Kind::Callback,
                                            param_names,
                                            params,
                                            ret,
                                            problems,
                                            text: squeeze(&text_of(&t[s..(close + 40).min(t.len())]).split(';').next().unwrap_or("").to_string()),
                                        });
                                    }
                                    i = close + 1;
                                    continue;
                                }
                            }
                        }
                    } else if after_fn < t.len() && is_ident_start(t[after_fn]) {
                        // `extern "C" fn name(..)` definition: exported iff #[no_mangle]
                        if before.contains("no_mangle") {
                            let mut problems = vec![];
                            if let Some((name, params, ret, _)) = parse_rust_sig(&t, after_fn) {
                                let (param_names, params) = parse_rust_params(&params, true, &mut problems);
                                tables.fns.push(RustFn {
                                    symbol: name.clone(),
                                    rust_name: name.clone(),
                                    file: file.clone(),
                                    kind: Kind::Export,
                                    param_names: param_names.clone(),
                                    params: params.clone(),
                                    ret: ret.clone(),
                                    problems,
                                    text: format!(
                                        "#[no_mangle] extern \"C\" fn {}({}){}",
                                        name,
                                        param_names.iter().zip(&params).map(|(n, t)| format!("{}: {}", n, t)).collect::<Vec<_>>().join(", "),
                                        if ret.is_empty() { String::new() } else { format!(" -> {}", ret) }
                                    ),
                                });
                            }
                        }
                    }
                }
            }
        }
        i += 1;
    }
    Ok(())
}

// ------------------------------------------------------------------------------------------
// C side

#[derive(Clone, Debug)]
struct Macro {
    name: String,
    params: Vec<String>,
    body: String,
}

/// Blank out preprocessor lines (with their continuation lines); collect function-like macros.
fn c_preprocess(t: &[u8], macros: &mut Vec<Macro>) -> Vec<u8> {
    let mut out = t.to_vec();
    let mut i = 0;
    let n = t.len();
    while i < n {
        // start of a line
        let line_start = i;
        let first = skip_ws_no_nl(t, i);
        if first < n && t[first] == b'#' {
            // logical line: up to a newline that is not preceded by a backslash
            let mut j = first;
            let mut logical = Vec::new();
            while j < n {
                if t[j] == b'\\' && j + 1 < n && t[j + 1] == b'\n' {
                    logical.push(b' ');
                    j += 2;
                    continue;
                }
                if t[j] == b'\\' && j + 2 < n && t[j + 1] == b'\r' && t[j + 2] == b'\n' {
                    logical.push(b' ');
                    j += 3;
                    continue;
                }
                if t[j] == b'\n' {
                    break;
                }
                logical.push(t[j]);
                j += 1;
            }
            for k in line_start..j {
                if out[k] != b'\n' {
                    out[k] = b' ';
                }
            }
            let l = text_of(&logical);
            let l = l.trim_start_matches('#').trim_start();
            if let Some(r) = l.strip_prefix("define") {
                let r = r.trim_start();
                let name: String = r.chars().take_while(|c| c.is_alphanumeric() || *c == '_').collect();
                let after = &r[name.len()..];
                if !name.is_empty() && after.starts_with('(') {
                    if let Some(close) = after.find(')') {
                        let params: Vec<String> = after[1..close].split(',').map(|p| p.trim().to_string()).filter(|p| !p.is_empty()).collect();
                        macros.push(Macro { name, params, body: after[close + 1..].trim().to_string() });
                    }
                }
            }
            i = j + 1;
        } else {
            while i < n && t[i] != b'\n' {
                i += 1;
            }
            i += 1;
        }
    }
    out
}

fn skip_ws_no_nl(t: &[u8], mut i: usize) -> usize {
    while i < t.len() && (t[i] == b' ' || t[i] == b'\t' || t[i] == b'\r') {
        i += 1;
    }
    i
}

fn replace_ident(s: &str, ident: &str, with: &str) -> String {
    let b = s.as_bytes();
    let mut out = String::new();
    let mut i = 0;
    while i < b.len() {
        if is_ident_start(b[i]) && (i == 0 || !is_ident(b[i - 1])) {
            let mut e = i;
            while e < b.len() && is_ident(b[e]) {
                e += 1;
            }
            if &s[i..e] == ident {
                out.push_str(with);
            } else {
                out.push_str(&s[i..e]);
            }
            i = e;
        } else {
            out.push(b[i] as char);
            i += 1;
        }
    }
    out
}

fn expand_macro(m: &Macro, args: &[String]) -> String {
    let mut body = m.body.clone();
    for (p, a) in m.params.iter().zip(args) {
        body = replace_ident(&body, p, a.trim());
    }
    // token pasting
    let mut out = String::new();
    let parts: Vec<&str> = body.split("##").collect();
    for (k, part) in parts.iter().enumerate() {
        let mut p: &str = part;
        if k > 0 {
            p = p.trim_start();
        }
        if k + 1 < parts.len() {
            p = p.trim_end();
        }
        out.push_str(p);
    }
    out
}

const NOT_A_TYPE: &[&str] = &["return", "else", "do", "goto", "case", "sizeof", "typedef", "if", "while", "for", "switch", "default", "break", "continue"];

/// The text before position `s` that could be a declaration's type: goes back over identifier
/// characters, white space and `*`; accepted only if what precedes it ends a previous item.
fn type_text_before(t: &[u8], s: usize) -> Option<String> {
    let mut i = s;
    while i > 0 && (is_ident(t[i - 1]) || t[i - 1].is_ascii_whitespace() || t[i - 1] == b'*') {
        i -= 1;
    }
    if i > 0 && !matches!(t[i - 1], b';' | b'}') {
        return None;
    }
    let ty = squeeze(&text_of(&t[i..s]));
    if ty.is_empty() || !ty.bytes().any(is_ident_start) {
        return None;
    }
    if ty.split(|c: char| !(c.is_alphanumeric() || c == '_')).any(|w| NOT_A_TYPE.contains(&w)) {
        return None;
    }
    Some(ty)
}

struct Wanted<'a> {
    fns: &'a BTreeSet<String>,
    vars: &'a BTreeSet<String>,
    macros: &'a BTreeMap<String, Macro>,
}

fn c_params(list: &str) -> Vec<String> {
    let parts: Vec<String> = split_top(list, b',').into_iter().map(|p| squeeze(&p)).collect();
    if parts.len() == 1 && (parts[0].is_empty() || parts[0] == "void") {
        return vec![];
    }
    parts
}

/// Scan comment- and preprocessor-free C text for headers of wanted functions, wanted file-scope
/// variables, function-pointer typedefs, and (if `expand`) invocations of defining macros.
fn scan_c(t: &[u8], file: &str, origin_suffix: &str, w: &Wanted, expand: bool, tables: &mut Tables) {
    let n = t.len();
    let mut i = 0;
    while i < n {
        if !(is_ident_start(t[i]) && (i == 0 || !is_ident(t[i - 1]))) {
            // skip string / char literals so that their contents are not taken for code
            if t[i] == b'"' || t[i] == b'\'' {
                let q = t[i];
                i += 1;
                while i < n && t[i] != q && t[i] != b'\n' {
                    if t[i] == b'\\' {
                        i += 1;
                    }
                    i += 1;
                }
            }
            i += 1;
            continue;
        }
        let s = i;
        let mut e = i;
        while e < n && is_ident(t[e]) {
            e += 1;
        }
        i = e;
        let id = std::str::from_utf8(&t[s..e]).unwrap_or("");
        if id == "typedef" {
            // typedef RET (*NAME)(PARAMS);
            let mut k = e;
            let mut depth = 0i32;
            while k < n {
                match t[k] {
                    b'(' | b'{' | b'[' => depth += 1,
                    b')' | b'}' | b']' => depth -= 1,
                    b';' if depth <= 0 => break,
                    _ => {}
                }
                k += 1;
            }
            let stmt = text_of(&t[e..k.min(n)]);
            if !stmt.contains('{') {
                if let Some(p) = stmt.find("(*") {
                    let ret = squeeze(&stmt[..p]);
                    let after = stmt[p + 2..].trim_start();
                    let name: String = after.chars().take_while(|c| c.is_alphanumeric() || *c == '_').collect();
                    let rest = after[name.len()..].trim_start();
                    if let Some(rest) = rest.strip_prefix(')') {
                        let rest = rest.trim_start();
                        if rest.starts_with('(') {
                            if let Some(close) = matching(rest.as_bytes(), 0) {
                                if rest[close + 1..].trim().is_empty() && !name.is_empty() && w.fns.contains(&name) {
                                    tables.c_fns.entry(name.clone()).or_default().push(CFn {
                                        symbol: name,
                                        file: file.to_string(),
                                        origin: format!("typedef{}", origin_suffix),
                                        ret,
                                        params: c_params(&rest[1..close]),
                                        text: format!("typedef {}", squeeze(&stmt)),
                                    });
                                }
                            }
                        }
                    }
                }
            }
            continue;
        }
        if w.fns.contains(id) {
            let open = skip_ws(t, e);
            if open < n && t[open] == b'(' {
                if let (Some(close), Some(ret)) = (matching(t, open), type_text_before(t, s)) {
                    let m = skip_ws(t, close + 1);
                    if m < n && (t[m] == b';' || t[m] == b'{') {
                        let origin = if t[m] == b';' { "prototype" } else { "definition" };
                        let params = c_params(&text_of(&t[open + 1..close]));
                        tables.c_fns.entry(id.to_string()).or_default().push(CFn {
                            symbol: id.to_string(),
                            file: file.to_string(),
                            origin: format!("{}{}", origin, origin_suffix),
                            text: format!("{} {}({})", ret, id, params.join(", ")),
                            ret,
                            params,
                        });
                    }
                }
            }
        }
        if w.vars.contains(id) {
            let k = skip_ws(t, e);
            if k < n && matches!(t[k], b'=' | b'[' | b';') && !(t[k] == b'=' && k + 1 < n && t[k + 1] == b'=') {
                if let Some(ty) = type_text_before(t, s) {
                    let is_array = t[k] == b'[';
                    tables.c_vars.entry(id.to_string()).or_default().push(CVar {
                        symbol: id.to_string(),
                        file: file.to_string(),
                        text: format!("{} {}{}", ty, id, if is_array { "[]" } else { "" }),
                        ty,
                        is_array,
                    });
                }
            }
        }
        if expand {
            if let Some(m) = w.macros.get(id) {
                let open = skip_ws(t, e);
                // only invocations that start an item (file scope or statement position)
                let mut p = s;
                while p > 0 && t[p - 1].is_ascii_whitespace() {
                    p -= 1;
                }
                let starts_item = p == 0 || matches!(t[p - 1], b';' | b'}' | b')');
                if starts_item && open < n && t[open] == b'(' {
                    if let Some(close) = matching(t, open) {
                        let args = split_top(&text_of(&t[open + 1..close]), b',');
                        if args.len() == m.params.len() {
                            let expansion = expand_macro(m, &args);
                            tables.macros_expanded += 1;
                            scan_c(expansion.as_bytes(), file, &format!(" (expansion of {}({}))", m.name, squeeze(&args.join(","))), w, false, tables);
                        }
                        i = close + 1;
                    }
                }
            }
        }
    }
}

// ------------------------------------------------------------------------------------------

pub fn load() -> Result<Tables, String> {
    let mut tables = Tables::default();
    let mut rust_files = vec![];
    walk(Path::new(RUST_ROOT), &["rs"], &mut rust_files).map_err(|e| format!("{}: {}", RUST_ROOT, e))?;
    tables.rust_files = rust_files.len();
    for f in &rust_files {
        parse_rust_file(f, &mut tables)?;
    }
    tables.fns.sort_by(|a, b| (&a.symbol, &a.file, &a.rust_name, a.kind).cmp(&(&b.symbol, &b.file, &b.rust_name, b.kind)));
    tables.statics.sort_by(|a, b| (&a.symbol, &a.file).cmp(&(&b.symbol, &b.file)));

    let wanted_fns: BTreeSet<String> = tables.fns.iter().filter(|f| !f.symbol.is_empty()).map(|f| f.symbol.clone()).collect();
    let wanted_vars: BTreeSet<String> = tables.statics.iter().map(|s| s.symbol.clone()).collect();

    let mut c_files = vec![];
    walk(Path::new(C_ROOT), &["h", "c", "inc"], &mut c_files).map_err(|e| format!("{}: {}", C_ROOT, e))?;
    tables.c_files = c_files.len();
    // pass 1: strip, collect macros
    let mut texts: Vec<(String, Vec<u8>)> = vec![];
    let mut macros: Vec<Macro> = vec![];
    for f in &c_files {
        let raw = std::fs::read(f).map_err(|e| format!("{}: {}", f.display(), e))?;
        let stripped = strip_comments(&raw, false, true);
        let body = c_preprocess(&stripped, &mut macros);
        texts.push((f.strip_prefix("/repo").unwrap_or(f).display().to_string(), body));
    }
    // macros that define a function: the body has the shape `.. name(..) { .. }`
    let mut defining: BTreeMap<String, Macro> = BTreeMap::new();
    let mut ambiguous: BTreeSet<String> = BTreeSet::new();
    for m in macros {
        if m.body.contains('{') && m.body.contains('(') && m.body.contains("##") {
            if let Some(prev) = defining.get(&m.name) {
                if prev.body != m.body {
                    ambiguous.insert(m.name.clone());
                }
            }
            defining.insert(m.name.clone(), m);
        }
    }
    for a in ambiguous {
        defining.remove(&a);
    }
    let w = Wanted { fns: &wanted_fns, vars: &wanted_vars, macros: &defining };
    for (file, body) in &texts {
        scan_c(body, file, "", &w, true, &mut tables);
    }
    Ok(tables)
}

// ------------------------------------------------------------------------------------------
// type classification and comparison

/// Sizes (bytes) of the C integer types on the build target, read from the constants that
/// `depend/wrapper.c` exports, and of the Rust aliases (`size_of`).
#[derive(Clone, Copy, Debug)]
pub struct Widths {
    pub c_uchar: usize,
    pub c_int: usize,
    pub c_uint: usize,
    pub c_size_t: usize,
    pub c_fast8: usize,
    pub c_fast16: usize,
    pub c_fast32: usize,
    pub c_fast64: usize,
    pub c_least32: usize,
    pub c_ubounded: usize,
    pub c_uword: usize,
    pub c_simplicity_err: usize,
    pub r_usize: usize,
    pub r_uword: usize,
    pub r_fast8: usize,
    pub r_fast16: usize,
    pub r_fast32: usize,
    pub r_fast64: usize,
    pub r_simplicity_err: usize,
}

#[derive(Clone, Debug, PartialEq, Eq)]
pub enum Class {
    Void,
    Bool,
    Int { bytes: usize, signed: bool, platform_dependent: bool },
    /// canonical (C) struct name
    Struct(&'static str),
    FnPtr(&'static str),
    Unknown,
}

/// A type reduced to base name, pointer depth and constness of the innermost pointee.
#[derive(Clone, Debug, PartialEq, Eq)]
pub struct Ty {
    pub base: String,
    pub ptr: u8,
    pub pointee_const: bool,
    pub array: bool,
    pub ok: bool,
}

/// Rust struct name -> C struct name.
const STRUCTS: &[(&str, &str)] = &[
    ("CFrameItem", "frameItem"),
    ("CTxEnv", "txEnv"),
    ("CElementsTxEnv", "txEnv"),
    ("CTransaction", "elementsTransaction"),
    ("CTapEnv", "elementsTapEnv"),
    ("CRawTapEnv", "rawElementsTapEnv"),
    ("CRawTransaction", "rawElementsTransaction"),
    ("CRawBuffer", "rawElementsBuffer"),
    ("CRawOutput", "rawElementsOutput"),
    ("CRawInput", "rawElementsInput"),
    ("CBitstream", "bitstream"),
    ("CBitstring", "bitstring"),
    ("CDagNode", "dag_node"),
    ("CType", "type"),
    ("CAnalyses", "analyses"),
    ("CCombinatorCounters", "combinator_counters"),
    ("CSha256Midstate", "sha256_midstate"),
    ("CUnificationVar", "unification_var"),
];

pub fn parse_rust_type(text: &str) -> Ty {
    let mut s = text.trim();
    let mut ty = Ty { base: String::new(), ptr: 0, pointee_const: false, array: false, ok: true };
    loop {
        if let Some(r) = s.strip_prefix("*mut ") {
            ty.ptr += 1;
            ty.pointee_const = false;
            s = r.trim_start();
        } else if let Some(r) = s.strip_prefix("*const ") {
            ty.ptr += 1;
            ty.pointee_const = true;
            s = r.trim_start();
        } else if let Some(r) = s.strip_prefix('&') {
            let mut r = r.trim_start();
            if r.starts_with('\'') {
                r = r.trim_start_matches(|c: char| c == '\'' || c.is_alphanumeric() || c == '_').trim_start();
            }
            ty.ptr += 1;
            if let Some(r2) = r.strip_prefix("mut ") {
                ty.pointee_const = false;
                r = r2;
            } else {
                ty.pointee_const = true;
            }
            s = r.trim_start();
        } else {
            break;
        }
    }
    if s.starts_with('[') && s.ends_with(']') {
        let inner = &s[1..s.len() - 1];
        let elem = inner.split(';').next().unwrap_or("").trim();
        ty.array = true;
        s = elem;
    }
    let base = s.rsplit("::").next().unwrap_or(s).trim();
    if base.is_empty() || !base.chars().all(|c| c.is_alphanumeric() || c == '_') {
        ty.ok = false;
    }
    ty.base = base.to_string();
    ty
}

const C_BUILTIN_WORDS: &[&str] = &["unsigned", "signed", "long", "short", "int", "char", "double", "float"];
const C_DROPPED: &[&str] = &["extern", "static", "inline", "struct", "enum", "union", "volatile", "restrict", "register"];

/// `allow_name`: the declarator may end in a parameter name.
pub fn parse_c_type(text: &str, allow_name: bool) -> Ty {
    let mut ty = Ty { base: String::new(), ptr: 0, pointee_const: false, array: false, ok: true };
    let mut before: Vec<String> = vec![];
    let mut after: Vec<String> = vec![];
    let b = text.as_bytes();
    let mut i = 0;
    while i < b.len() {
        let c = b[i];
        if c.is_ascii_whitespace() {
            i += 1;
        } else if c == b'*' {
            ty.ptr += 1;
            after.clear();
            i += 1;
        } else if is_ident_start(c) {
            let mut e = i;
            while e < b.len() && is_ident(b[e]) {
                e += 1;
            }
            let word = &text[i..e];
            i = e;
            if C_DROPPED.contains(&word) {
                continue;
            }
            if word == "const" {
                if ty.ptr == 0 {
                    ty.pointee_const = true; // meaningful only if a `*` follows
                }
                continue;
            }
            if ty.ptr == 0 {
                before.push(word.to_string());
            } else {
                after.push(word.to_string());
            }
        } else {
            ty.ok = false; // arrays, function pointers, ...
            return ty;
        }
    }
    let mut words = before;
    let mut base: Vec<String> = vec![];
    while !words.is_empty() && C_BUILTIN_WORDS.contains(&words[0].as_str()) {
        base.push(words.remove(0));
    }
    if base.is_empty() {
        if words.is_empty() {
            ty.ok = false;
            return ty;
        }
        base.push(words.remove(0));
    }
    // what is left is the name
    let name_words = if ty.ptr == 0 { words.len() } else { words.len() + after.len() };
    if ty.ptr > 0 && !words.is_empty() {
        ty.ok = false; // `T name *`?
    }
    if name_words > (allow_name as usize) {
        ty.ok = false;
    }
    if ty.ptr == 0 {
        ty.pointee_const = false; // top-level const of a by-value parameter is irrelevant
    }
    ty.base = base.join(" ");
    ty
}

pub fn rust_class(base: &str, w: &Widths) -> Class {
    let int = |bytes, signed| Class::Int { bytes, signed, platform_dependent: false };
    let pint = |bytes, signed| Class::Int { bytes, signed, platform_dependent: true };
    match base {
        "c_void" => Class::Void,
        "bool" => Class::Bool,
        "u8" | "c_uchar" => int(1, false),
        "i8" => int(1, true),
        "u16" => int(2, false),
        "i16" => int(2, true),
        "u32" | "c_uint" | "ubounded" | "c_uint_least32_t" => int(4, false),
        "i32" | "c_int" => int(4, true),
        "u64" => int(8, false),
        "i64" => int(8, true),
        "usize" | "c_size_t" => int(w.r_usize, false),
        "isize" => int(w.r_usize, true),
        "UWORD" => pint(w.r_uword, false),
        "c_uint_fast8_t" => pint(w.r_fast8, false),
        "c_uint_fast16_t" => pint(w.r_fast16, false),
        "c_uint_fast32_t" => pint(w.r_fast32, false),
        "c_uint_fast64_t" => pint(w.r_fast64, false),
        "SimplicityErr" => int(w.r_simplicity_err, true),
        _ => {
            if let Some((_, c)) = STRUCTS.iter().find(|(r, _)| *r == base) {
                return Class::Struct(c);
            }
            if let Some((_, c)) = CALLBACK_TYPEDEFS.iter().find(|(r, _)| *r == base) {
                return Class::FnPtr(c);
            }
            Class::Unknown
        }
    }
}

pub fn c_class(base: &str, w: &Widths) -> Class {
    let int = |bytes, signed| Class::Int { bytes, signed, platform_dependent: false };
    let pint = |bytes, signed| Class::Int { bytes, signed, platform_dependent: true };
    match base {
        "void" => Class::Void,
        "bool" | "_Bool" => Class::Bool,
        // `typedef unsigned char flags_type;` (simplicity/eval.h)
        "unsigned char" | "flags_type" => int(w.c_uchar, false),
        "uint8_t" => int(1, false),
        "int8_t" | "signed char" => int(1, true),
        "uint16_t" => int(2, false),
        "int16_t" => int(2, true),
        "uint32_t" => int(4, false),
        "int32_t" => int(4, true),
        "uint64_t" => int(8, false),
        "int64_t" => int(8, true),
        "int" | "signed int" | "signed" => int(w.c_int, true),
        "unsigned int" | "unsigned" => int(w.c_uint, false),
        "size_t" => int(w.c_size_t, false),
        "uint_fast8_t" => pint(w.c_fast8, false),
        "int_fast8_t" => pint(w.c_fast8, true),
        "uint_fast16_t" => pint(w.c_fast16, false),
        "int_fast16_t" => pint(w.c_fast16, true),
        "uint_fast32_t" => pint(w.c_fast32, false),
        "int_fast32_t" => pint(w.c_fast32, true),
        "uint_fast64_t" => pint(w.c_fast64, false),
        "int_fast64_t" => pint(w.c_fast64, true),
        "uint_least32_t" => int(w.c_least32, false),
        "ubounded" => int(w.c_ubounded, false),
        "UWORD" => pint(w.c_uword, false),
        "simplicity_err" => int(w.c_simplicity_err, true),
        _ => {
            if let Some((_, c)) = STRUCTS.iter().find(|(_, c)| *c == base) {
                return Class::Struct(c);
            }
            if let Some((_, c)) = CALLBACK_TYPEDEFS.iter().find(|(_, c)| *c == base) {
                return Class::FnPtr(c);
            }
            Class::Unknown
        }
    }
}

#[derive(Clone, Debug, PartialEq, Eq)]
pub enum Verdict {
    /// compatible; notes name weaker observations (constness, void wildcard, signedness, ...)
    Compatible(Vec<&'static str>),
    /// a type is not in the table or the declarator was not understood
    Unknown(String),
    Mismatch(String),
}

pub const NOTE_VOID: &str = "untyped (void / u8) pointer on one side";
pub const NOTE_RUST_CONST_C_MUT: &str = "Rust *const / & where C takes a non-const pointer";
pub const NOTE_RUST_MUT_C_CONST: &str = "Rust *mut / &mut where C takes a const pointer";
pub const NOTE_SIGN: &str = "signedness differs";
pub const NOTE_PLATFORM: &str = "C type of platform-dependent width has the Rust type's width on this target";
pub const NOTE_ENUM_INT: &str = "simplicity_err declared as a plain integer";

pub fn compare(rust_text: &str, c_text: &str, c_allow_name: bool, w: &Widths) -> Verdict {
    let r = if rust_text.is_empty() { Ty { base: "()".into(), ptr: 0, pointee_const: false, array: false, ok: true } } else { parse_rust_type(rust_text) };
    let c = parse_c_type(c_text, c_allow_name);
    if !r.ok {
        return Verdict::Unknown(format!("Rust type `{}` not understood", rust_text));
    }
    if !c.ok {
        return Verdict::Unknown(format!("C declarator `{}` not understood", c_text));
    }
    let rc = if r.base == "()" { Class::Void } else { rust_class(&r.base, w) };
    let cc = c_class(&c.base, w);
    if rc == Class::Unknown {
        return Verdict::Unknown(format!("Rust type `{}` not in table", r.base));
    }
    if cc == Class::Unknown {
        return Verdict::Unknown(format!("C type `{}` not in table", c.base));
    }
    let mut notes = vec![];
    if (r.ptr == 0) != (c.ptr == 0) {
        return Verdict::Mismatch(format!("pointer on one side only: Rust `{}`, C `{}`", rust_text, c_text));
    }
    if r.ptr > 0 {
        // `*mut u8` is the crate's rendering of `void*` in the allocator interface
        let r_untyped = rc == Class::Void || (r.ptr == 1 && cc == Class::Void && matches!(rc, Class::Int { bytes: 1, .. }));
        let c_untyped = cc == Class::Void;
        if r_untyped || c_untyped {
            if !(rc == Class::Void && cc == Class::Void && r.ptr == c.ptr) {
                notes.push(NOTE_VOID);
            }
        } else if r.ptr != c.ptr {
            return Verdict::Mismatch(format!("pointer depth differs: Rust `{}`, C `{}`", rust_text, c_text));
        } else if let Some(m) = value_mismatch(&rc, &cc, &mut notes) {
            return Verdict::Mismatch(format!("different pointee: Rust `{}`, C `{}` ({})", rust_text, c_text, m));
        }
        if r.pointee_const && !c.pointee_const {
            notes.push(NOTE_RUST_CONST_C_MUT);
        }
        if !r.pointee_const && c.pointee_const {
            notes.push(NOTE_RUST_MUT_C_CONST);
        }
        return Verdict::Compatible(notes);
    }
    if let Some(m) = value_mismatch(&rc, &cc, &mut notes) {
        return Verdict::Mismatch(format!("Rust `{}`, C `{}`: {}", if rust_text.is_empty() { "()" } else { rust_text }, c_text, m));
    }
    if r.base == "i32" && c.base == "simplicity_err" {
        notes.push(NOTE_ENUM_INT);
    }
    Verdict::Compatible(notes)
}

fn value_mismatch(rc: &Class, cc: &Class, notes: &mut Vec<&'static str>) -> Option<String> {
    match (rc, cc) {
        (Class::Void, Class::Void) | (Class::Bool, Class::Bool) => None,
        (Class::Struct(a), Class::Struct(b)) => {
            if a == b {
                None
            } else {
                Some(format!("struct {} vs struct {}", a, b))
            }
        }
        (Class::FnPtr(a), Class::FnPtr(b)) => {
            if a == b {
                None
            } else {
                Some(format!("callback type {} vs {}", a, b))
            }
        }
        (Class::Int { bytes: rb, signed: rs, platform_dependent: rp }, Class::Int { bytes: cb, signed: cs, platform_dependent: cp }) => {
            if rb != cb {
                return Some(format!("integer width differs on this target: Rust {} bytes, C {} bytes", rb, cb));
            }
            if rs != cs {
                notes.push(NOTE_SIGN);
            }
            if *cp && !*rp {
                notes.push(NOTE_PLATFORM);
            }
            None
        }
        (a, b) => Some(format!("kind differs: Rust {:?}, C {:?}", a, b)),
    }
}

// ------------------------------------------------------------------------------------------
// struct layouts: the `#[repr(C)]` structs that cross the boundary by pointer, field by field

/// One field of a C struct: a plain declarator or an anonymous nested struct.
#[derive(Clone, Debug)]
pub enum CFieldTy {
    Decl(String),
    Nested(Vec<CField>),
}

#[derive(Clone, Debug)]
pub struct CField {
    pub name: String,
    pub ty: CFieldTy,
}

#[derive(Clone, Debug)]
pub struct StructPair {
    pub rust_name: &'static str,
    pub c_name: &'static str,
    pub rust_file: String,
    pub c_file: String,
    /// (field name, type text)
    pub rust_fields: Vec<(String, String)>,
    pub c_fields: Vec<CField>,
}

/// (Rust struct, C struct) pairs whose fields are compared.  Opaque Rust stand-ins (`_data: ()`)
/// and structs with unions are not listed.
pub const STRUCT_PAIRS: &[(&str, &str)] = &[
    ("CRawBuffer", "rawElementsBuffer"),
    ("CRawOutput", "rawElementsOutput"),
    ("CRawInput", "rawElementsInput"),
    ("CRawTransaction", "rawElementsTransaction"),
    ("CRawTapEnv", "rawElementsTapEnv"),
    ("CTxEnv", "txEnv"),
    ("CFrameItem", "frameItem"),
    ("CBitstream", "bitstream"),
    ("CBitstring", "bitstring"),
    ("CCombinatorCounters", "combinator_counters"),
    ("CSha256Midstate", "sha256_midstate"),
];

/// Fields of `struct NAME<..> { .. }` in stripped Rust source.
pub fn rust_struct_fields(t: &[u8], name: &str) -> Option<Vec<(String, String)>> {
    let text = text_of(t);
    let mut from = 0;
    while let Some(p) = text[from..].find("struct ") {
        let at = from + p + 7;
        from = at;
        let rest = &text[at..];
        let end = rest.find(|c: char| !(c.is_alphanumeric() || c == '_')).unwrap_or(rest.len());
        if &rest[..end] != name {
            continue;
        }
        let open = at + rest.find('{')?;
        if text[at + end..open].contains(';') {
            continue;
        }
        let close = matching(t, open)?;
        let body = &text[open + 1..close];
        let mut fields = vec![];
        for part in split_top(body, b',') {
            let part = squeeze(&part);
            if part.is_empty() {
                continue;
            }
            // drop attributes in front of the field
            let mut s = part.as_str();
            while s.starts_with("#[") {
                let e = s.find(']')?;
                s = s[e + 1..].trim_start();
            }
            let s = strip_vis(s);
            let (n, ty) = s.split_once(':')?;
            fields.push((n.trim().to_string(), ty.trim().to_string()));
        }
        return Some(fields);
    }
    None
}

fn c_fields_of(body: &str) -> Option<Vec<CField>> {
    let mut fields = vec![];
    for part in split_top(body, b';') {
        let part = squeeze(&part);
        if part.is_empty() {
            continue;
        }
        if let Some(open) = part.find('{') {
            let head = part[..open].trim();
            if head != "struct" {
                return None; // unions, named inner structs: not handled
            }
            let close = part.rfind('}')?;
            let name = part[close + 1..].trim().to_string();
            fields.push(CField { name, ty: CFieldTy::Nested(c_fields_of(&part[open + 1..close])?) });
        } else if part.contains(',') {
            // `size_t a, b, c;` (only the plain form without declarator punctuation)
            if part.contains('*') || part.contains('[') || part.contains('(') {
                return None;
            }
            let names: Vec<String> = split_top(&part, b',');
            let first = names[0].trim().to_string();
            let cut = first.rfind(|c: char| !(c.is_alphanumeric() || c == '_'))?;
            let ty = first[..cut].trim().to_string();
            fields.push(CField { name: first[cut + 1..].to_string(), ty: CFieldTy::Decl(first.clone()) });
            for n in &names[1..] {
                let n = n.trim();
                fields.push(CField { name: n.to_string(), ty: CFieldTy::Decl(format!("{} {}", ty, n)) });
            }
        } else {
            let name: String = part.chars().rev().take_while(|c| c.is_alphanumeric() || *c == '_').collect::<String>().chars().rev().collect();
            fields.push(CField { name, ty: CFieldTy::Decl(part) });
        }
    }
    Some(fields)
}

/// Fields of `typedef struct NAME { .. } NAME;` (or `struct NAME { .. };`) in stripped C source.
pub fn c_struct_fields(t: &[u8], name: &str) -> Option<Vec<CField>> {
    let text = text_of(t);
    let pat = format!("struct {}", name);
    let mut from = 0;
    while let Some(p) = text[from..].find(&pat) {
        let at = from + p + pat.len();
        from = at;
        let i = skip_ws(t, at);
        if i >= t.len() || t[i] != b'{' {
            continue;
        }
        if at < t.len() && is_ident(t[at]) {
            continue;
        }
        let close = matching(t, i)?;
        return c_fields_of(&text[i + 1..close]);
    }
    None
}

pub fn load_struct_pairs() -> Result<Vec<StructPair>, String> {
    let mut rust_files = vec![];
    walk(Path::new(RUST_ROOT), &["rs"], &mut rust_files).map_err(|e| format!("{}: {}", RUST_ROOT, e))?;
    let mut c_files = vec![];
    walk(Path::new(C_ROOT), &["h", "c"], &mut c_files).map_err(|e| format!("{}: {}", C_ROOT, e))?;
    let rust: Vec<(String, Vec<u8>)> = rust_files.iter().filter_map(|f| std::fs::read(f).ok().map(|raw| (f.display().to_string(), strip_comments(&raw, true, false)))).collect();
    let c: Vec<(String, Vec<u8>)> = c_files.iter().filter_map(|f| std::fs::read(f).ok().map(|raw| (f.display().to_string(), strip_comments(&raw, false, true)))).collect();
    let mut out = vec![];
    for (rn, cn) in STRUCT_PAIRS {
        let r = rust.iter().find_map(|(f, t)| rust_struct_fields(t, rn).map(|x| (f.clone(), x)));
        // a struct name may be defined once per chain (bitcoin/txEnv.h, elements/txEnv.h): take
        // the definition of the chain the Rust file belongs to, and nothing if that is not clear
        let mut cands: Vec<(String, Vec<CField>)> = c.iter().filter_map(|(f, t)| c_struct_fields(t, cn).map(|x| (f.clone(), x))).collect();
        if cands.len() > 1 {
            let chain = if r.as_ref().map(|(f, _)| f.contains("elements")).unwrap_or(false) { "/elements/" } else { "/bitcoin/" };
            cands.retain(|(f, _)| f.contains(chain));
        }
        let cc = if cands.len() == 1 { cands.pop() } else { None };
        if let (Some((rf, rfields)), Some((cf, cfields))) = (r, cc) {
            out.push(StructPair { rust_name: rn, c_name: cn, rust_file: rf, c_file: cf, rust_fields: rfields, c_fields: cfields });
        }
    }
    Ok(out)
}

/// Rust struct by name, anywhere under the Rust root (for nested by-value struct fields).
pub fn find_rust_struct(name: &str) -> Option<Vec<(String, String)>> {
    let mut rust_files = vec![];
    walk(Path::new(RUST_ROOT), &["rs"], &mut rust_files).ok()?;
    rust_files.iter().find_map(|f| std::fs::read(f).ok().and_then(|raw| rust_struct_fields(&strip_comments(&raw, true, false), name)))
}

/// `Option<&T>` / `Option<NonNull<T>>`-free, lifetime-free rendering of a Rust field type.
pub fn normalize_rust_field_type(ty: &str) -> String {
    let mut s = ty.trim().to_string();
    if let Some(inner) = s.strip_prefix("Option<").and_then(|r| r.strip_suffix('>')) {
        s = inner.trim().to_string();
    }
    // generic lifetime arguments of a named type: `CRawInput<'raw>` -> `CRawInput`
    while let Some(p) = s.find("<'") {
        match s[p..].find('>') {
            Some(e) => s.replace_range(p..p + e + 1, ""),
            None => break,
        }
    }
    s
}

fn norm_name(s: &str) -> String {
    s.chars().filter(|c| *c != '_').map(|c| c.to_ascii_lowercase()).collect()
}

fn subsequence(short: &str, long: &str) -> bool {
    let mut it = long.chars();
    short.chars().all(|c| it.any(|d| d == c))
}

/// Do the two field names plausibly denote the same field (one is an abbreviation of the other)?
pub fn names_related(rust: &str, c: &str) -> bool {
    let (a, b) = (norm_name(rust), norm_name(c));
    if a.is_empty() || b.is_empty() {
        return false;
    }
    if a.len() <= b.len() {
        subsequence(&a, &b)
    } else {
        subsequence(&b, &a)
    }
}
