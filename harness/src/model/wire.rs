//! Reader / writer of the program bit format, written from the format description
//! (Simplicity tech report, "Serialization"; cf. libsimplicity's deserialize.c):
//!
//!   program  = nat(len) node_0 .. node_{len-1}
//!   node_i   = 0 00 00 nat(i-l) nat(i-r)   comp        0 01 00 nat(i-c)  injl       0 10 00  iden
//!              0 00 01 ..                  case        0 01 01           injr       0 10 01  unit
//!              0 00 10 ..                  pair        0 01 10           take       0 10 10 <512 bits> fail
//!              0 00 11 ..                  disconnect  0 01 11           drop       0 10 11 nat(i-c)  disconnect (one child)
//!              0 11 0 <256 bits> hidden    0 11 1 witness
//!              1 0 nat(n+1) <2^n bits> word            1 1 <jet code>  jet
//!
//! Jet codes are taken from the crate's own `encode` tables (C14 checks those against C); the
//! reader matches them as a prefix code, it does not call the crate's decoder.

use super::bits::{nat_decode, nat_encode, Bits, NatErr};
use crate::gen::prog::{all_jets, Family, JetRef};

#[derive(Clone, Debug, PartialEq, Eq)]
pub enum WNode {
    Comp(usize, usize),
    Case(usize, usize),
    Pair(usize, usize),
    Disconnect(usize, usize),
    InjL(usize),
    InjR(usize),
    Take(usize),
    Drop(usize),
    Iden,
    Unit,
    Fail(Vec<bool>),
    Disconnect1(usize),
    Hidden(Vec<bool>),
    Witness,
    Jet(JetRef),
    Word(usize, Vec<bool>),
}

impl WNode {
    pub fn children(&self) -> Vec<usize> {
        match self {
            WNode::Comp(a, b) | WNode::Case(a, b) | WNode::Pair(a, b) | WNode::Disconnect(a, b) => vec![*a, *b],
            WNode::InjL(a) | WNode::InjR(a) | WNode::Take(a) | WNode::Drop(a) | WNode::Disconnect1(a) => vec![*a],
            _ => vec![],
        }
    }
    pub fn kind(&self) -> &'static str {
        match self {
            WNode::Comp(..) => "comp",
            WNode::Case(..) => "case",
            WNode::Pair(..) => "pair",
            WNode::Disconnect(..) => "disconnect",
            WNode::InjL(_) => "injl",
            WNode::InjR(_) => "injr",
            WNode::Take(_) => "take",
            WNode::Drop(_) => "drop",
            WNode::Iden => "iden",
            WNode::Unit => "unit",
            WNode::Fail(_) => "fail",
            WNode::Disconnect1(_) => "disconnect1",
            WNode::Hidden(_) => "hidden",
            WNode::Witness => "witness",
            WNode::Jet(_) => "jet",
            WNode::Word(..) => "word",
        }
    }
}

#[derive(Debug, PartialEq, Eq)]
pub enum WireErr {
    EndOfStream,
    /// a back-reference is zero or points before the start, a length of zero, or a huge natural
    BadNatural,
    UnknownJet,
    WordTooLarge,
}

impl From<NatErr> for WireErr {
    fn from(e: NatErr) -> Self {
        match e {
            NatErr::EndOfStream => WireErr::EndOfStream,
            NatErr::Huge => WireErr::BadNatural,
        }
    }
}

pub struct JetCodes {
    pub codes: Vec<(Bits, JetRef)>,
}

impl JetCodes {
    pub fn new(family: Family) -> JetCodes {
        let mut codes = vec![];
        for j in all_jets(family) {
            let mut sink = Vec::new();
            let mut w = simplicity::BitWriter::new(&mut sink as &mut dyn std::io::Write);
            let n = j.as_dyn().encode(&mut w).expect("vec write");
            w.flush_all().expect("flush");
            let bits = super::bits::unpack(&sink)[..n].to_vec();
            codes.push((bits, j));
        }
        JetCodes { codes }
    }
    pub fn code_of(&self, j: &JetRef) -> Bits {
        self.codes.iter().find(|(_, x)| x == j).map(|(b, _)| b.clone()).expect("jet of this family")
    }
    fn match_prefix(&self, bits: &[bool]) -> Result<(JetRef, usize), WireErr> {
        let mut partial = false;
        for (code, j) in &self.codes {
            if bits.len() >= code.len() {
                if bits[..code.len()] == code[..] {
                    return Ok((*j, code.len()));
                }
            } else if code[..bits.len()] == bits[..] {
                partial = true;
            }
        }
        if partial {
            Err(WireErr::EndOfStream)
        } else {
            Err(WireErr::UnknownJet)
        }
    }
}

struct Rd<'a> {
    bits: &'a [bool],
    pos: usize,
}

impl<'a> Rd<'a> {
    fn bit(&mut self) -> Result<bool, WireErr> {
        let b = *self.bits.get(self.pos).ok_or(WireErr::EndOfStream)?;
        self.pos += 1;
        Ok(b)
    }
    fn take(&mut self, n: usize) -> Result<Vec<bool>, WireErr> {
        if self.bits.len() - self.pos < n {
            return Err(WireErr::EndOfStream);
        }
        let v = self.bits[self.pos..self.pos + n].to_vec();
        self.pos += n;
        Ok(v)
    }
    fn nat(&mut self) -> Result<u128, WireErr> {
        let (n, k) = nat_decode(&self.bits[self.pos..])?;
        self.pos += k;
        Ok(n)
    }
    /// back-reference: natural d with 1 <= d <= i, returns i - d
    fn backref(&mut self, i: usize) -> Result<usize, WireErr> {
        let d = self.nat()?;
        if d == 0 || d > i as u128 {
            return Err(WireErr::BadNatural);
        }
        Ok(i - d as usize)
    }
}

/// Declared number of nodes (without reading them) and the position after the length.
pub fn read_len(bits: &[bool]) -> Result<(u128, usize), WireErr> {
    let (n, k) = nat_decode(bits)?;
    Ok((n, k))
}

/// Parse the node list.  Returns the nodes and the number of bits consumed.
pub fn read_program(bits: &[bool], jets: &JetCodes, max_nodes: usize) -> Result<(Vec<WNode>, usize), WireErr> {
    let mut r = Rd { bits, pos: 0 };
    let len = r.nat()?;
    if len > max_nodes as u128 {
        // cannot fit: every node needs at least 5 bits
        return Err(WireErr::EndOfStream);
    }
    let len = len as usize;
    let mut nodes = Vec::with_capacity(len);
    for i in 0..len {
        let node = if r.bit()? {
            if r.bit()? {
                let (j, k) = jets.match_prefix(&r.bits[r.pos..])?;
                r.pos += k;
                WNode::Jet(j)
            } else {
                let d = r.nat()?;
                if d > 32 {
                    return Err(WireErr::WordTooLarge);
                }
                let n = (d - 1) as usize;
                let w = r.take(1usize << n)?;
                WNode::Word(n, w)
            }
        } else {
            let code = (r.bit()? as u8) * 2 + r.bit()? as u8;
            match code {
                0 => {
                    let sub = (r.bit()? as u8) * 2 + r.bit()? as u8;
                    let a = r.backref(i)?;
                    let b = r.backref(i)?;
                    match sub {
                        0 => WNode::Comp(a, b),
                        1 => WNode::Case(a, b),
                        2 => WNode::Pair(a, b),
                        _ => WNode::Disconnect(a, b),
                    }
                }
                1 => {
                    let sub = (r.bit()? as u8) * 2 + r.bit()? as u8;
                    let a = r.backref(i)?;
                    match sub {
                        0 => WNode::InjL(a),
                        1 => WNode::InjR(a),
                        2 => WNode::Take(a),
                        _ => WNode::Drop(a),
                    }
                }
                2 => {
                    let sub = (r.bit()? as u8) * 2 + r.bit()? as u8;
                    match sub {
                        0 => WNode::Iden,
                        1 => WNode::Unit,
                        2 => WNode::Fail(r.take(512)?),
                        _ => WNode::Disconnect1(r.backref(i)?),
                    }
                }
                _ => {
                    if r.bit()? {
                        WNode::Witness
                    } else {
                        WNode::Hidden(r.take(256)?)
                    }
                }
            }
        };
        nodes.push(node);
    }
    Ok((nodes, r.pos))
}

pub fn write_node(out: &mut Bits, i: usize, n: &WNode, jets: &JetCodes) {
    let mut code = |bits: &[u8]| {
        for b in bits {
            out.push(*b == 1);
        }
    };
    match n {
        WNode::Comp(..) => code(&[0, 0, 0, 0, 0]),
        WNode::Case(..) => code(&[0, 0, 0, 0, 1]),
        WNode::Pair(..) => code(&[0, 0, 0, 1, 0]),
        WNode::Disconnect(..) => code(&[0, 0, 0, 1, 1]),
        WNode::InjL(_) => code(&[0, 0, 1, 0, 0]),
        WNode::InjR(_) => code(&[0, 0, 1, 0, 1]),
        WNode::Take(_) => code(&[0, 0, 1, 1, 0]),
        WNode::Drop(_) => code(&[0, 0, 1, 1, 1]),
        WNode::Iden => code(&[0, 1, 0, 0, 0]),
        WNode::Unit => code(&[0, 1, 0, 0, 1]),
        WNode::Fail(_) => code(&[0, 1, 0, 1, 0]),
        WNode::Disconnect1(_) => code(&[0, 1, 0, 1, 1]),
        WNode::Hidden(_) => code(&[0, 1, 1, 0]),
        WNode::Witness => code(&[0, 1, 1, 1]),
        WNode::Jet(_) => code(&[1, 1]),
        WNode::Word(..) => code(&[1, 0]),
    }
    for c in n.children() {
        // children are written as distances; a forward or self reference is clamped to 1 so
        // that deliberately broken inputs stay well-formed at the natural-number level
        let d = if c < i { i - c } else { 1 };
        out.extend(nat_encode(d as u128));
    }
    match n {
        WNode::Fail(e) => out.extend(e.iter().copied()),
        WNode::Hidden(h) => out.extend(h.iter().copied()),
        WNode::Jet(j) => out.extend(jets.code_of(j)),
        WNode::Word(n, w) => {
            out.extend(nat_encode(*n as u128 + 1));
            out.extend(w.iter().copied());
        }
        _ => {}
    }
}

/// Serialise a node list (no padding; the caller packs and pads).
pub fn write_program(nodes: &[WNode], jets: &JetCodes) -> Bits {
    let mut out = nat_encode(nodes.len() as u128);
    for (i, n) in nodes.iter().enumerate() {
        write_node(&mut out, i, n, jets);
    }
    out
}

/// Is the node list in canonical order: a left-to-right post-order walk from the last node, in
/// which every node is emitted the first time it is reached, visits exactly 0, 1, 2, ...?
pub fn is_canonical_order(nodes: &[WNode]) -> bool {
    if nodes.is_empty() {
        return false;
    }
    let mut next = 0usize;
    let mut seen = vec![false; nodes.len()];
    // iterative post-order
    let mut stack: Vec<(usize, usize)> = vec![(nodes.len() - 1, 0)];
    while let Some((n, k)) = stack.pop() {
        if seen[n] {
            continue;
        }
        let ch = nodes[n].children();
        if k < ch.len() {
            stack.push((n, k + 1));
            if !seen[ch[k]] {
                stack.push((ch[k], 0));
            }
        } else {
            if n != next {
                return false;
            }
            seen[n] = true;
            next += 1;
        }
    }
    next == nodes.len()
}

fn with_children(n: &WNode, f: &dyn Fn(usize) -> usize) -> WNode {
    match n {
        WNode::Comp(a, b) => WNode::Comp(f(*a), f(*b)),
        WNode::Case(a, b) => WNode::Case(f(*a), f(*b)),
        WNode::Pair(a, b) => WNode::Pair(f(*a), f(*b)),
        WNode::Disconnect(a, b) => WNode::Disconnect(f(*a), f(*b)),
        WNode::InjL(a) => WNode::InjL(f(*a)),
        WNode::InjR(a) => WNode::InjR(f(*a)),
        WNode::Take(a) => WNode::Take(f(*a)),
        WNode::Drop(a) => WNode::Drop(f(*a)),
        WNode::Disconnect1(a) => WNode::Disconnect1(f(*a)),
        other => other.clone(),
    }
}

pub fn map_children(n: &WNode, f: &dyn Fn(usize) -> usize) -> WNode {
    with_children(n, f)
}

/// Re-emit the part of the graph reachable from `root` in canonical order (left-to-right
/// post-order, every node at its first visit).  `nodes` may be in any order (children may have
/// larger indices than parents) as long as it is acyclic.
pub fn canonicalize(nodes: &[WNode], root: usize) -> Vec<WNode> {
    let mut new_index: Vec<Option<usize>> = vec![None; nodes.len()];
    let mut out: Vec<WNode> = vec![];
    let mut stack: Vec<(usize, usize)> = vec![(root, 0)];
    while let Some((n, k)) = stack.pop() {
        if new_index[n].is_some() {
            continue;
        }
        let ch = nodes[n].children();
        if k < ch.len() {
            stack.push((n, k + 1));
            if new_index[ch[k]].is_none() {
                stack.push((ch[k], 0));
            }
        } else {
            let idx = out.len();
            let mapped = with_children(&nodes[n], &|c| new_index[c].expect("child emitted first"));
            out.push(mapped);
            new_index[n] = Some(idx);
        }
    }
    out
}

pub fn render(nodes: &[WNode]) -> String {
    let mut s = String::new();
    for (i, n) in nodes.iter().enumerate() {
        let ch = n.children();
        let extra = match n {
            WNode::Jet(j) => format!(" {}", j.name()),
            WNode::Word(k, w) => format!(" 2^{} {}", k, super::bits::bits_to_string(&w[..w.len().min(32)])),
            WNode::Hidden(h) => format!(" #{}", crate::engine::hex(&super::bits::pack(&h[..32]))),
            _ => String::new(),
        };
        s.push_str(&format!("{}: {}{}{}; ", i, n.kind(), ch.iter().map(|c| format!(" {}", c)).collect::<String>(), extra));
        if s.len() > 3000 {
            s.push('…');
            break;
        }
    }
    s
}
