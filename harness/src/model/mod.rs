//! Reference models.  Nothing in here calls the code under test.
pub mod bits;
pub mod layout;
