//! Reference models.  Nothing in here calls the code under test (the jet *tables* — names,
//! type names, roots, bit codes — are read from the crate; C14 checks those against the C tables).
pub mod bits;
pub mod cmr;
pub mod eval;
pub mod jets;
pub mod layout;
pub mod unify;
pub mod wire;
pub mod c14_decls;
