//! Functional specification of the arithmetic / logic / comparison / shift jets on bit vectors,
//! written from the jet descriptions in the Simplicity language reference (one line each below).
//! Input and output are the flat bit strings of the jet's source and target types (all these
//! types are products of words and bits, so flat = compact = padded).
//!
//! `model(name, input)` returns `None` for jets that are not modelled here (hashing, elliptic
//! curve, signatures, transaction introspection): those are covered differentially against the C
//! evaluator by C06, not by C05.

pub type Bits = Vec<bool>;

fn to_u(bits: &[bool]) -> u128 {
    bits.iter().fold(0u128, |a, b| (a << 1) | *b as u128)
}

fn from_u(v: u128, n: usize) -> Bits {
    (0..n).rev().map(|i| if i >= 128 { false } else { (v >> i) & 1 == 1 }).collect()
}

fn mask(n: usize) -> u128 {
    if n >= 128 {
        u128::MAX
    } else {
        (1u128 << n) - 1
    }
}

fn cat(parts: &[&[bool]]) -> Bits {
    parts.iter().flat_map(|p| p.iter().copied()).collect()
}

/// Result of a modelled jet: Ok(output bits) or Err(()) when the jet rejects its input.
pub type JetResult = Result<Bits, ()>;

fn split_name(name: &str) -> (String, Vec<usize>) {
    // "full_left_shift_16_4" -> ("full_left_shift", [16, 4]); "sha_256_block" stays unparsed
    let parts: Vec<&str> = name.split('_').collect();
    let mut nums = vec![];
    let mut end = parts.len();
    while end > 0 {
        if let Ok(n) = parts[end - 1].parse::<usize>() {
            nums.insert(0, n);
            end -= 1;
        } else {
            break;
        }
    }
    (parts[..end].join("_"), nums)
}

/// Width of the shift-amount word for an n-bit shift/rotate jet (2^4 for 8 and 16 bits,
/// 2^8 for 32 and 64 bits — the smallest word of the family 2,4,8,... that holds n).
fn shift_amount_width(n: usize) -> usize {
    match n {
        8 => 4,
        16 => 4,
        _ => 8,
    }
}

pub fn model(name: &str, inp: &[bool]) -> Option<JetResult> {
    let (op, nums) = split_name(name);
    let n = nums.first().copied().unwrap_or(0);
    let ok = |b: Bits| Some(Ok(b));
    let bit = |b: bool| Some(Ok(vec![b]));
    if name == "verify" {
        // verify : 2 -> 1, fails on 0
        return Some(if inp[0] { Ok(vec![]) } else { Err(()) });
    }
    if nums.len() == 1 && n <= 64 && n >= 1 && inp.len() <= 256 {
        let w = n;
        match op.as_str() {
            // low_n : 1 -> 2^n  all zeros;  high_n all ones;  one_n the number 1
            "low" => return ok(vec![false; w]),
            "high" => return ok(vec![true; w]),
            "one" if w >= 8 => return ok(from_u(1, w)),
            // complement_n : 2^n -> 2^n
            "complement" => return ok(inp.iter().map(|b| !b).collect()),
            // and/or/xor_n : 2^n x 2^n -> 2^n
            "and" => return ok((0..w).map(|i| inp[i] & inp[w + i]).collect()),
            "or" => return ok((0..w).map(|i| inp[i] | inp[w + i]).collect()),
            "xor" => return ok((0..w).map(|i| inp[i] ^ inp[w + i]).collect()),
            // maj/xor_xor/ch_n : 2^n x (2^n x 2^n) -> 2^n, bitwise
            "maj" => return ok((0..w).map(|i| (inp[i] & inp[w + i]) | (inp[i] & inp[2 * w + i]) | (inp[w + i] & inp[2 * w + i])).collect()),
            "xor_xor" => return ok((0..w).map(|i| inp[i] ^ inp[w + i] ^ inp[2 * w + i]).collect()),
            "ch" => return ok((0..w).map(|i| if inp[i] { inp[w + i] } else { inp[2 * w + i] }).collect()),
            // some_n : 2^n -> 2 (any bit set); all_n (all bits set)
            "some" => return bit(inp.iter().any(|b| *b)),
            "all" => return bit(inp.iter().all(|b| *b)),
            // eq_n : 2^n x 2^n -> 2
            "eq" => return bit(inp[..w] == inp[w..2 * w]),
            "is_zero" => return bit(to_u(inp) == 0),
            "is_one" => return bit(to_u(inp) == 1),
            "le" => return bit(to_u(&inp[..w]) <= to_u(&inp[w..])),
            "lt" => return bit(to_u(&inp[..w]) < to_u(&inp[w..])),
            "min" => return ok(from_u(to_u(&inp[..w]).min(to_u(&inp[w..])), w)),
            "max" => return ok(from_u(to_u(&inp[..w]).max(to_u(&inp[w..])), w)),
            // median_n : 2^n x (2^n x 2^n) -> 2^n
            "median" => {
                let mut v = [to_u(&inp[..w]), to_u(&inp[w..2 * w]), to_u(&inp[2 * w..])];
                v.sort();
                return ok(from_u(v[1], w));
            }
            // add_n : 2^n x 2^n -> 2 x 2^n  (carry, sum)
            "add" => {
                let s = to_u(&inp[..w]) + to_u(&inp[w..]);
                return ok(from_u(s, w + 1));
            }
            // full_add_n : 2 x (2^n x 2^n) -> 2 x 2^n
            "full_add" => {
                let s = inp[0] as u128 + to_u(&inp[1..1 + w]) + to_u(&inp[1 + w..]);
                return ok(from_u(s, w + 1));
            }
            // subtract_n : 2^n x 2^n -> 2 x 2^n (borrow, difference mod 2^n)
            "subtract" => {
                let (a, b) = (to_u(&inp[..w]), to_u(&inp[w..]));
                return ok(cat(&[&[a < b], &from_u(a.wrapping_sub(b) & mask(w), w)]));
            }
            "full_subtract" => {
                let (c, a, b) = (inp[0] as u128, to_u(&inp[1..1 + w]), to_u(&inp[1 + w..]));
                return ok(cat(&[&[a < b + c], &from_u(a.wrapping_sub(b).wrapping_sub(c) & mask(w), w)]));
            }
            // increment_n : 2^n -> 2 x 2^n ; full_increment_n : 2 x 2^n -> 2 x 2^n
            "increment" => return ok(from_u(to_u(inp) + 1, w + 1)),
            "full_increment" => return ok(from_u(to_u(&inp[1..]) + inp[0] as u128, w + 1)),
            "decrement" => {
                let a = to_u(inp);
                return ok(cat(&[&[a == 0], &from_u(a.wrapping_sub(1) & mask(w), w)]));
            }
            "full_decrement" => {
                let (c, a) = (inp[0] as u128, to_u(&inp[1..]));
                return ok(cat(&[&[a < c], &from_u(a.wrapping_sub(c) & mask(w), w)]));
            }
            // negate_n : 2^n -> 2 x 2^n  (borrow of 0 - a, two's complement)
            "negate" => {
                let a = to_u(inp);
                return ok(cat(&[&[a != 0], &from_u(0u128.wrapping_sub(a) & mask(w), w)]));
            }
            // multiply_n : 2^n x 2^n -> 2^(2n)
            "multiply" => return ok(from_u(to_u(&inp[..w]) * to_u(&inp[w..]), 2 * w)),
            // full_multiply_n : (2^n x 2^n) x (2^n x 2^n) -> 2^(2n) : a*b + c + d
            "full_multiply" => {
                let (a, b, c, d) = (to_u(&inp[..w]), to_u(&inp[w..2 * w]), to_u(&inp[2 * w..3 * w]), to_u(&inp[3 * w..]));
                return ok(from_u(a * b + c + d, 2 * w));
            }
            // div_mod_n : 2^n x 2^n -> 2^n x 2^n ; division by zero gives (0, a)
            "div_mod" => {
                let (a, b) = (to_u(&inp[..w]), to_u(&inp[w..]));
                let (q, r) = if b == 0 { (0, a) } else { (a / b, a % b) };
                return ok(cat(&[&from_u(q, w), &from_u(r, w)]));
            }
            "divide" => {
                let (a, b) = (to_u(&inp[..w]), to_u(&inp[w..]));
                return ok(from_u(if b == 0 { 0 } else { a / b }, w));
            }
            "modulo" => {
                let (a, b) = (to_u(&inp[..w]), to_u(&inp[w..]));
                return ok(from_u(if b == 0 { a } else { a % b }, w));
            }
            // divides_n : 2^n x 2^n -> 2 : a divides b  (0 divides only 0)
            "divides" => {
                let (a, b) = (to_u(&inp[..w]), to_u(&inp[w..]));
                return bit(if a == 0 { b == 0 } else { b % a == 0 });
            }
            // left_shift_with_n : 2 x (2^k x 2^n) -> 2^n : shift left by the amount, filling with the bit
            "left_shift_with" | "right_shift_with" | "left_shift" | "right_shift" | "left_rotate" | "right_rotate" => {
                let k = shift_amount_width(w);
                let with = op.ends_with("_with");
                let off = if with { 1 } else { 0 };
                if inp.len() != off + k + w {
                    return None;
                }
                let fill = if with { inp[0] } else { false };
                let amt = to_u(&inp[off..off + k]) as usize;
                let a = &inp[off + k..];
                let left = op.starts_with("left");
                let out: Bits = if op.ends_with("rotate") {
                    let s = amt % w;
                    (0..w).map(|i| if left { a[(i + s) % w] } else { a[(i + w - s) % w] }).collect()
                } else {
                    (0..w)
                        .map(|i| {
                            if left {
                                if i + amt < w {
                                    a[i + amt]
                                } else {
                                    fill
                                }
                            } else if i >= amt {
                                a[i - amt]
                            } else {
                                fill
                            }
                        })
                        .collect()
                };
                return ok(out);
            }
            _ => {}
        }
    }
    if nums.len() == 2 {
        let (a, b) = (nums[0], nums[1]);
        match op.as_str() {
            // full shifts only re-associate the concatenated bit string
            "full_left_shift" | "full_right_shift" => return ok(inp.to_vec()),
            // leftmost_a_b : 2^a -> 2^b  the b leftmost bits ; rightmost the b rightmost
            "leftmost" => return ok(inp[..b].to_vec()),
            "rightmost" => return ok(inp[a - b..].to_vec()),
            // left_pad_low_a_b : 2^a -> 2^b  zeros on the left; high: ones; extend: copies of the msb
            "left_pad_low" => return ok(cat(&[&vec![false; b - a], inp])),
            "left_pad_high" => return ok(cat(&[&vec![true; b - a], inp])),
            "left_extend" => return ok(cat(&[&vec![inp[0]; b - a], inp])),
            "right_pad_low" => return ok(cat(&[inp, &vec![false; b - a]])),
            "right_pad_high" => return ok(cat(&[inp, &vec![true; b - a]])),
            "right_extend" => return ok(cat(&[inp, &vec![inp[a - 1]; b - a]])),
            _ => {}
        }
    }
    None
}

#[cfg(test)]
mod tests {
    use super::*;
    #[test]
    fn names() {
        assert_eq!(split_name("full_left_shift_16_4"), ("full_left_shift".to_string(), vec![16, 4]));
        assert_eq!(split_name("add_8"), ("add".to_string(), vec![8]));
        assert_eq!(model("add_8", &from_u(0xff01, 16)), Some(Ok(from_u(0x100, 9))));
        assert_eq!(model("verify", &[false]), Some(Err(())));
    }
}
