//! Bit-vector helpers and the natural-number code, written from the format description
//! (Simplicity tech report §"Serialization"): independent of the crate's BitWriter/BitIter.
//!
//! nat(1) = "0"; nat(n) for n >= 2: "1" ++ nat(len) ++ (the len low bits of n),
//! where len = floor(log2 n)  (n written without its leading one bit).

pub type Bits = Vec<bool>;

pub fn pack(bits: &[bool]) -> Vec<u8> {
    let mut out = vec![0u8; bits.len().div_ceil(8)];
    for (i, b) in bits.iter().enumerate() {
        if *b {
            out[i / 8] |= 0x80 >> (i % 8);
        }
    }
    out
}

pub fn unpack(bytes: &[u8]) -> Bits {
    let mut v = Vec::with_capacity(bytes.len() * 8);
    for b in bytes {
        for i in 0..8 {
            v.push(b & (0x80 >> i) != 0);
        }
    }
    v
}

pub fn push_be(bits: &mut Bits, value: u128, len: usize) {
    for i in (0..len).rev() {
        bits.push(if i >= 128 { false } else { (value >> i) & 1 == 1 });
    }
}

pub fn bits_to_string(bits: &[bool]) -> String {
    bits.iter().map(|b| if *b { '1' } else { '0' }).collect()
}

/// Encoding of a natural n >= 1 (the recursive definition, verbatim).
pub fn nat_encode(n: u128) -> Bits {
    assert!(n >= 1);
    fn go(n: u128, out: &mut Bits) {
        if n == 1 {
            out.push(false);
        } else {
            let len = 127 - n.leading_zeros() as usize; // floor(log2 n)
            out.push(true);
            go(len as u128, out);
            push_be(out, n & ((1u128 << len) - 1), len);
        }
    }
    let mut out = vec![];
    go(n, &mut out);
    out
}

#[derive(Debug, PartialEq, Eq)]
pub enum NatErr {
    EndOfStream,
    /// The number (or one of its length prefixes) is astronomically large (>= 2^120).
    Huge,
}

/// Decode a natural from the front of `bits`; returns (value, bits consumed).
pub fn nat_decode(bits: &[bool]) -> Result<(u128, usize), NatErr> {
    let mut pos = 0;
    let mut depth = 0usize;
    loop {
        match bits.get(pos) {
            None => return Err(NatErr::EndOfStream),
            Some(true) => {
                depth += 1;
                pos += 1;
            }
            Some(false) => {
                pos += 1;
                break;
            }
        }
    }
    let mut n: u128 = 1;
    for _ in 0..depth {
        let len = n;
        if len >= 120 {
            // would need >= 120 payload bits; check availability first
            if (bits.len() - pos) as u128 >= len {
                return Err(NatErr::Huge);
            }
            return Err(NatErr::EndOfStream);
        }
        let len = len as usize;
        if bits.len() - pos < len {
            return Err(NatErr::EndOfStream);
        }
        let mut v: u128 = 1;
        for i in 0..len {
            v = (v << 1) | bits[pos + i] as u128;
        }
        pos += len;
        n = v;
    }
    Ok((n, pos))
}

#[cfg(test)]
mod tests {
    use super::*;
    #[test]
    fn nat_small() {
        assert_eq!(bits_to_string(&nat_encode(1)), "0");
        assert_eq!(bits_to_string(&nat_encode(2)), "100");
        assert_eq!(bits_to_string(&nat_encode(3)), "101");
        assert_eq!(bits_to_string(&nat_encode(4)), "110000");
        assert_eq!(bits_to_string(&nat_encode(7)), "110011");
        assert_eq!(bits_to_string(&nat_encode(8)), "1101000");
        for n in 1..5000u128 {
            let e = nat_encode(n);
            assert_eq!(nat_decode(&e), Ok((n, e.len())));
        }
    }
}
