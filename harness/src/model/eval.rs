//! Big-step evaluator over the tree model: one clause per combinator, no widths, no offsets,
//! no frames.
//!
//!   iden a = a;  unit a = ();  injl t a = L(t a);  injr t a = R(t a);
//!   take t (a,b) = t a;  drop t (a,b) = t b;  pair s t a = (s a, t a);  comp s t a = t (s a);
//!   case s t (L a, c) = s (a,c);  case s t (R b, c) = t (b,c);
//!   assertl s h (L a, c) = s (a,c), (R _, _) -> fail;  assertr h t symmetric;
//!   disconnect s t a = let (b, c) = s (cmr t, a) in (b, t c);
//!   witness v _ = v;  word w _ = w;  fail -> fail;  jet j a = spec_j a (or fail).

use super::layout::{RTy, RVal};
use crate::gen::prog::{Ir, Prog};
use std::collections::HashMap;

#[derive(Clone, Debug, PartialEq, Eq)]
pub enum Failure {
    /// an assertion reached its hidden side (carries the hidden root)
    PrunedBranch([u8; 32]),
    FailNode,
    JetFailed,
}

#[derive(Clone, Debug, PartialEq, Eq)]
pub enum EvalError {
    Fail(Failure),
    /// the program uses a jet that has no functional model here
    UnmodelledJet(String),
    /// the model itself is stuck (ill-typed input): a harness error, never a verdict
    Stuck(String),
}

/// What an evaluation observed (for classification).
#[derive(Default, Clone, Debug)]
pub struct EvalTrace {
    pub cases_executed: usize,
    pub comps_executed: usize,
    pub disconnects_executed: usize,
    pub jets_executed: Vec<String>,
    pub witnesses_executed: usize,
    pub steps: usize,
    /// for every executed case/assert node id: (took left, took right)
    pub branches: HashMap<usize, (bool, bool)>,
    /// ids of all executed nodes
    pub executed: std::collections::HashSet<usize>,
}

pub struct Evaluator<'a> {
    pub prog: &'a Prog,
    /// witness values by node id
    pub witnesses: &'a HashMap<usize, RVal>,
    /// jet specification: (name, flat input bits) -> Some(Ok(out bits) | Err) or None if unmodelled
    pub jet_spec: &'a dyn Fn(&crate::gen::prog::JetRef, &RVal) -> Result<Result<RVal, ()>, String>,
    /// commitment roots per node id (from model::cmr), needed by disconnect
    pub cmrs: &'a [[u8; 32]],
    pub trace: EvalTrace,
    pub step_limit: usize,
}

fn word256(bytes: &[u8; 32]) -> RVal {
    let bits: Vec<bool> = bytes.iter().flat_map(|b| (0..8).map(move |i| b & (0x80 >> i) != 0)).collect();
    RVal::from_word_bits(&bits)
}

impl<'a> Evaluator<'a> {
    pub fn eval(&mut self, id: usize, input: &RVal) -> Result<RVal, EvalError> {
        self.trace.steps += 1;
        if self.trace.steps > self.step_limit {
            return Err(EvalError::Stuck("model step limit".into()));
        }
        self.trace.executed.insert(id);
        let stuck = |what: &str| EvalError::Stuck(format!("node {}: {} on input {:?}", id, what, input));
        match &self.prog.nodes[id] {
            Ir::Iden => Ok(input.clone()),
            Ir::Unit => Ok(RVal::Unit),
            Ir::InjL(t) => Ok(RVal::l(self.eval(*t, input)?)),
            Ir::InjR(t) => Ok(RVal::r(self.eval(*t, input)?)),
            Ir::Take(t) => match input {
                RVal::Pair(a, _) => self.eval(*t, a),
                _ => Err(stuck("take of a non-pair")),
            },
            Ir::Drop(t) => match input {
                RVal::Pair(_, b) => self.eval(*t, b),
                _ => Err(stuck("drop of a non-pair")),
            },
            Ir::Pair(s, t) => {
                let x = self.eval(*s, input)?;
                let y = self.eval(*t, input)?;
                Ok(RVal::pair(x, y))
            }
            Ir::Comp(s, t) => {
                self.trace.comps_executed += 1;
                let m = self.eval(*s, input)?;
                self.eval(*t, &m)
            }
            Ir::Case(s, t) => {
                self.trace.cases_executed += 1;
                match input {
                    RVal::Pair(sel, c) => match &**sel {
                        RVal::L(a) => {
                            self.trace.branches.entry(id).or_insert((false, false)).0 = true;
                            self.eval(*s, &RVal::pair((**a).clone(), (**c).clone()))
                        }
                        RVal::R(b) => {
                            self.trace.branches.entry(id).or_insert((false, false)).1 = true;
                            self.eval(*t, &RVal::pair((**b).clone(), (**c).clone()))
                        }
                        _ => Err(stuck("case selector is not a sum value")),
                    },
                    _ => Err(stuck("case of a non-pair")),
                }
            }
            Ir::AssertL(s, h) => {
                self.trace.cases_executed += 1;
                match input {
                    RVal::Pair(sel, c) => match &**sel {
                        RVal::L(a) => {
                            self.trace.branches.entry(id).or_insert((false, false)).0 = true;
                            self.eval(*s, &RVal::pair((**a).clone(), (**c).clone()))
                        }
                        RVal::R(_) => Err(EvalError::Fail(Failure::PrunedBranch(*h))),
                        _ => Err(stuck("assertl selector is not a sum value")),
                    },
                    _ => Err(stuck("assertl of a non-pair")),
                }
            }
            Ir::AssertR(h, t) => {
                self.trace.cases_executed += 1;
                match input {
                    RVal::Pair(sel, c) => match &**sel {
                        RVal::R(b) => {
                            self.trace.branches.entry(id).or_insert((false, false)).1 = true;
                            self.eval(*t, &RVal::pair((**b).clone(), (**c).clone()))
                        }
                        RVal::L(_) => Err(EvalError::Fail(Failure::PrunedBranch(*h))),
                        _ => Err(stuck("assertr selector is not a sum value")),
                    },
                    _ => Err(stuck("assertr of a non-pair")),
                }
            }
            Ir::Disconnect(s, t) => {
                self.trace.disconnects_executed += 1;
                let t = t.ok_or_else(|| stuck("disconnect without a branch cannot be executed"))?;
                let arg = RVal::pair(word256(&self.cmrs[t]), input.clone());
                match self.eval(*s, &arg)? {
                    RVal::Pair(b, c) => {
                        let d = self.eval(t, &c)?;
                        Ok(RVal::pair(*b, d))
                    }
                    _ => Err(stuck("disconnect: left branch did not return a pair")),
                }
            }
            Ir::Witness => {
                self.trace.witnesses_executed += 1;
                self.witnesses.get(&id).cloned().ok_or_else(|| stuck("witness without a value"))
            }
            Ir::Word(_, bits) => Ok(RVal::from_word_bits(bits)),
            Ir::Fail(_) => Err(EvalError::Fail(Failure::FailNode)),
            Ir::Jet(j) => {
                self.trace.jets_executed.push(j.name());
                match (self.jet_spec)(j, input) {
                    Ok(Ok(v)) => Ok(v),
                    Ok(Err(())) => Err(EvalError::Fail(Failure::JetFailed)),
                    Err(name) => Err(EvalError::UnmodelledJet(name)),
                }
            }
        }
    }
}

/// Flat (type-free) bit string of a value: tags and leaves in order.
pub fn flat_bits(v: &RVal, out: &mut Vec<bool>) {
    match v {
        RVal::Unit => {}
        RVal::L(x) => {
            out.push(false);
            flat_bits(x, out);
        }
        RVal::R(x) => {
            out.push(true);
            flat_bits(x, out);
        }
        RVal::Pair(a, b) => {
            flat_bits(a, out);
            flat_bits(b, out);
        }
    }
}

/// Rebuild a value of a padding-free type (products of words/bits) from its flat bits.
pub fn from_flat(ty: &RTy, bits: &[bool]) -> Option<RVal> {
    super::layout::parse_compact(ty, bits).and_then(|(v, k)| if k == bits.len() { Some(v) } else { None })
}
