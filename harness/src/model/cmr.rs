//! Commitment Merkle roots from scratch.
//!
//! cmr(node) = compress(IV_tag, left32 || right32) where IV_tag is the SHA-256 midstate after
//! hashing SHA256(tag)||SHA256(tag) (BIP-340 style) with tag = "Simplicity\x1fCommitment\x1f<name>".
//! Leaves (iden, unit, witness) are the bare IV; unary combinators use 32 zero bytes on the
//! left; fail hashes its 64 entropy bytes.  Only the SHA-256 compression function itself is
//! taken from `bitcoin_hashes` (a trusted primitive); tags, IVs, orderings and the word
//! construction are re-derived here.

use simplicity::hashes::{sha256, HashEngine};

pub type Root = [u8; 32];

fn tag_iv(tag: &str) -> sha256::Midstate {
    let th = sha256::Hash::hash(tag.as_bytes());
    let mut e = sha256::HashEngine::default();
    e.input(th.as_ref());
    e.input(th.as_ref());
    e.midstate().expect("64 bytes hashed")
}

fn compress(iv: sha256::Midstate, block: &[u8; 64]) -> Root {
    let mut e = sha256::HashEngine::from_midstate(iv);
    e.input(block);
    e.midstate().expect("64 bytes hashed").to_parts().0
}

fn iv_bytes(tag: &str) -> Root {
    tag_iv(tag).to_parts().0
}

fn block(l: &Root, r: &Root) -> [u8; 64] {
    let mut b = [0u8; 64];
    b[..32].copy_from_slice(l);
    b[32..].copy_from_slice(r);
    b
}

fn commitment(name: &str) -> String {
    format!("Simplicity\x1fCommitment\x1f{}", name)
}

pub fn iden() -> Root {
    iv_bytes(&commitment("iden"))
}
pub fn unit() -> Root {
    iv_bytes(&commitment("unit"))
}
pub fn witness() -> Root {
    iv_bytes(&commitment("witness"))
}
fn unary(name: &str, c: &Root) -> Root {
    compress(tag_iv(&commitment(name)), &block(&[0u8; 32], c))
}
fn binary(name: &str, l: &Root, r: &Root) -> Root {
    compress(tag_iv(&commitment(name)), &block(l, r))
}
pub fn injl(c: &Root) -> Root {
    unary("injl", c)
}
pub fn injr(c: &Root) -> Root {
    unary("injr", c)
}
pub fn take(c: &Root) -> Root {
    unary("take", c)
}
pub fn drop(c: &Root) -> Root {
    unary("drop", c)
}
pub fn disconnect(c: &Root) -> Root {
    unary("disconnect", c)
}
pub fn comp(l: &Root, r: &Root) -> Root {
    binary("comp", l, r)
}
pub fn case(l: &Root, r: &Root) -> Root {
    binary("case", l, r)
}
pub fn pair(l: &Root, r: &Root) -> Root {
    binary("pair", l, r)
}
pub fn fail(entropy: &[u8; 64]) -> Root {
    compress(tag_iv(&commitment("fail")), entropy)
}

/// Type Merkle roots (needed for the word construction).
pub fn tmr_unit() -> Root {
    iv_bytes("Simplicity\x1fType\x1funit")
}
pub fn tmr_sum(l: &Root, r: &Root) -> Root {
    compress(tag_iv("Simplicity\x1fType\x1fsum"), &block(l, r))
}
pub fn tmr_prod(l: &Root, r: &Root) -> Root {
    compress(tag_iv("Simplicity\x1fType\x1fprod"), &block(l, r))
}
/// TMR of 2^(2^n)
pub fn tmr_word(n: usize) -> Root {
    let mut t = tmr_sum(&tmr_unit(), &tmr_unit());
    for _ in 0..n {
        t = tmr_prod(&t, &t);
    }
    t
}

/// CMR of a word constant of 2^n bits.  A word is a jet-like leaf whose root commits to the
/// identity root of the canonical expression that scribes it:
///   scribe(bit0) = injl unit, scribe(bit1) = injr unit, scribe(hi ++ lo) = pair scribe(hi) scribe(lo);
///   imr = compress(IV("Simplicity\x1fIdentity"), 0^32 || cmr(scribe));
///   ihr = compress(imr as IV, tmr(1) || tmr(2^(2^n)));
///   cmr(word) = compress(IV("Simplicity\x1fJet"), be64(weight = number of bits) right-aligned in 32 bytes || ihr).
pub fn word(bits: &[bool]) -> Root {
    assert!(bits.len().is_power_of_two());
    fn scribe(bits: &[bool]) -> Root {
        if bits.len() == 1 {
            if bits[0] {
                injr(&unit())
            } else {
                injl(&unit())
            }
        } else {
            let h = bits.len() / 2;
            pair(&scribe(&bits[..h]), &scribe(&bits[h..]))
        }
    }
    let s = scribe(bits);
    let n = bits.len().trailing_zeros() as usize;
    let imr = compress(tag_iv("Simplicity\x1fIdentity"), &block(&[0u8; 32], &s));
    // the first-pass root is used as the chaining value of the second pass
    let ihr = compress(sha256::Midstate::new(imr, 64), &block(&tmr_unit(), &tmr_word(n)));
    let mut weight = [0u8; 32];
    weight[24..].copy_from_slice(&(bits.len() as u64).to_be_bytes());
    compress(tag_iv("Simplicity\x1fJet"), &block(&weight, &ihr))
}

#[cfg(test)]
mod tests {
    use super::*;
    fn hx(r: &Root) -> String {
        crate::engine::hex(r)
    }
    #[test]
    fn known_roots() {
        // value pinned in the crate's own test-suite (cmr_display_unit)
        assert_eq!(hx(&unit()), "c40a10263f7436b4160acbef1c36fba4be4d95df181a968afeab5eac247adff7");
    }
}
