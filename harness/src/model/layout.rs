//! Reference model of Simplicity types and values and of their two bit layouts.
//!
//! `RTy` is a plain tree (unit | sum | product) with a cached width; `RVal` is a plain tree
//! (unit | left | right | pair) with no widths or offsets at all.  Layouts are written from the
//! definition:
//!   padded(unit) = "", padded(L a : A+B) = 0 · pad^(max(wA,wB)-wA) · padded(a),
//!   padded(R b : A+B) = 1 · pad^(max(wA,wB)-wB) · padded(b), padded((a,b)) = padded(a)·padded(b)
//! and the compact layout is the same with every `pad` run removed.

use super::bits::Bits;
use std::sync::Arc;

#[derive(Debug, PartialEq, Eq, Hash)]
pub enum RTyKind {
    Unit,
    Sum(Arc<RTy>, Arc<RTy>),
    Prod(Arc<RTy>, Arc<RTy>),
}

#[derive(Debug, PartialEq, Eq, Hash)]
pub struct RTy {
    pub kind: RTyKind,
    /// bit width of the padded layout (saturating)
    pub width: usize,
    /// number of nodes of the type tree (saturating) — a size measure for generators
    pub size: usize,
    /// structural hash (equal types have equal hashes)
    pub hash: u64,
}

fn mix(tag: u64, a: u64, b: u64) -> u64 {
    let mut h = crate::engine::Fnv::new();
    h.write_u64(tag);
    h.write_u64(a);
    h.write_u64(b);
    h.finish()
}

impl RTy {
    pub fn unit() -> Arc<RTy> {
        Arc::new(RTy { kind: RTyKind::Unit, width: 0, size: 1, hash: 0x1234_5678_9abc_def1 })
    }
    pub fn sum(a: Arc<RTy>, b: Arc<RTy>) -> Arc<RTy> {
        let width = a.width.max(b.width).saturating_add(1);
        let size = a.size.saturating_add(b.size).saturating_add(1);
        {
            let hash = mix(1, a.hash, b.hash);
            Arc::new(RTy { kind: RTyKind::Sum(a, b), width, size, hash })
        }
    }
    pub fn prod(a: Arc<RTy>, b: Arc<RTy>) -> Arc<RTy> {
        let width = a.width.saturating_add(b.width);
        let size = a.size.saturating_add(b.size).saturating_add(1);
        {
            let hash = mix(2, a.hash, b.hash);
            Arc::new(RTy { kind: RTyKind::Prod(a, b), width, size, hash })
        }
    }
    pub fn two() -> Arc<RTy> {
        RTy::sum(RTy::unit(), RTy::unit())
    }
    /// 2^(2^n)
    pub fn word(n: usize) -> Arc<RTy> {
        let mut t = RTy::two();
        for _ in 0..n {
            t = RTy::prod(t.clone(), t);
        }
        t
    }
    pub fn option(a: Arc<RTy>) -> Arc<RTy> {
        RTy::sum(RTy::unit(), a)
    }
    /// (2^8)^<2^(n+1): buffer of fewer than 2^(n+1) bytes
    pub fn buffer(n: usize) -> Arc<RTy> {
        let mut buf = RTy::option(RTy::word(3));
        for i in 1..=n {
            buf = RTy::prod(RTy::option(RTy::word(i + 3)), buf);
        }
        buf
    }
    pub fn ctx8() -> Arc<RTy> {
        RTy::prod(RTy::buffer(5), RTy::prod(RTy::word(6), RTy::word(8)))
    }
    pub fn is_unit(&self) -> bool {
        matches!(self.kind, RTyKind::Unit)
    }
    pub fn has_padding(&self) -> bool {
        match &self.kind {
            RTyKind::Unit => false,
            RTyKind::Sum(a, b) => a.width != b.width || a.has_padding() || b.has_padding(),
            RTyKind::Prod(a, b) => a.has_padding() || b.has_padding(),
        }
    }
    /// If the type is 2^(2^n), return n.
    pub fn as_word(&self) -> Option<usize> {
        match &self.kind {
            RTyKind::Sum(a, b) if a.is_unit() && b.is_unit() => Some(0),
            RTyKind::Prod(a, b) if a == b => a.as_word().map(|n| n + 1),
            _ => None,
        }
    }
    pub fn show(&self) -> String {
        if let Some(n) = self.as_word() {
            return if n == 0 { "2".into() } else { format!("2^{}", 1u64 << n) };
        }
        match &self.kind {
            RTyKind::Unit => "1".into(),
            RTyKind::Sum(a, b) => format!("({} + {})", a.show(), b.show()),
            RTyKind::Prod(a, b) => format!("({} * {})", a.show(), b.show()),
        }
    }
    /// Short rendering for samples (truncated).
    pub fn show_short(&self) -> String {
        let s = self.show();
        if s.len() > 300 {
            format!("{}…[{} chars, width {}]", &s[..300], s.len(), self.width)
        } else {
            s
        }
    }
}

#[derive(Clone, Debug, PartialEq, Eq, Hash, PartialOrd, Ord)]
pub enum RVal {
    Unit,
    L(Box<RVal>),
    R(Box<RVal>),
    Pair(Box<RVal>, Box<RVal>),
}

impl RVal {
    pub fn l(v: RVal) -> RVal {
        RVal::L(Box::new(v))
    }
    pub fn r(v: RVal) -> RVal {
        RVal::R(Box::new(v))
    }
    pub fn pair(a: RVal, b: RVal) -> RVal {
        RVal::Pair(Box::new(a), Box::new(b))
    }
    pub fn bit(b: bool) -> RVal {
        if b {
            RVal::r(RVal::Unit)
        } else {
            RVal::l(RVal::Unit)
        }
    }
    /// Value of a word type 2^(2^n) from its bits (big-endian), len == 2^n.
    pub fn from_word_bits(bits: &[bool]) -> RVal {
        if bits.len() == 1 {
            RVal::bit(bits[0])
        } else {
            let h = bits.len() / 2;
            RVal::pair(RVal::from_word_bits(&bits[..h]), RVal::from_word_bits(&bits[h..]))
        }
    }
    pub fn count_tags(&self) -> usize {
        match self {
            RVal::Unit => 0,
            RVal::L(v) | RVal::R(v) => 1 + v.count_tags(),
            RVal::Pair(a, b) => a.count_tags() + b.count_tags(),
        }
    }
    pub fn show(&self, ty: &RTy) -> String {
        if ty.as_word().is_some() {
            let bits = compact_bits(ty, self);
            if bits.len() % 4 == 0 {
                let mut s = String::from("0x");
                for c in bits.chunks(4) {
                    let v = c.iter().fold(0u8, |a, b| a * 2 + *b as u8);
                    s.push_str(&format!("{:x}", v));
                }
                return s;
            }
            return format!("0b{}", super::bits::bits_to_string(&bits));
        }
        match (self, &ty.kind) {
            (RVal::Unit, _) => "()".into(),
            (RVal::L(v), RTyKind::Sum(a, _)) => format!("L({})", v.show(a)),
            (RVal::R(v), RTyKind::Sum(_, b)) => format!("R({})", v.show(b)),
            (RVal::Pair(x, y), RTyKind::Prod(a, b)) => format!("({}, {})", x.show(a), y.show(b)),
            _ => "<ill-typed>".into(),
        }
    }
    pub fn show_short(&self, ty: &RTy) -> String {
        let s = self.show(ty);
        if s.len() > 300 {
            format!("{}…[{} chars]", &s[..300], s.len())
        } else {
            s
        }
    }
}

/// Does `v` inhabit `ty`?
pub fn well_typed(ty: &RTy, v: &RVal) -> bool {
    match (&ty.kind, v) {
        (RTyKind::Unit, RVal::Unit) => true,
        (RTyKind::Sum(a, _), RVal::L(x)) => well_typed(a, x),
        (RTyKind::Sum(_, b), RVal::R(x)) => well_typed(b, x),
        (RTyKind::Prod(a, b), RVal::Pair(x, y)) => well_typed(a, x) && well_typed(b, y),
        _ => false,
    }
}

/// Padded layout; `pad` supplies the content of every padding bit.
pub fn padded_bits_with(ty: &RTy, v: &RVal, pad: &mut dyn FnMut() -> bool, out: &mut Bits) {
    match (&ty.kind, v) {
        (RTyKind::Unit, _) => {}
        (RTyKind::Sum(a, b), RVal::L(x)) => {
            out.push(false);
            for _ in 0..(a.width.max(b.width) - a.width) {
                out.push(pad());
            }
            padded_bits_with(a, x, pad, out);
        }
        (RTyKind::Sum(a, b), RVal::R(x)) => {
            out.push(true);
            for _ in 0..(a.width.max(b.width) - b.width) {
                out.push(pad());
            }
            padded_bits_with(b, x, pad, out);
        }
        (RTyKind::Prod(a, b), RVal::Pair(x, y)) => {
            padded_bits_with(a, x, pad, out);
            padded_bits_with(b, y, pad, out);
        }
        _ => panic!("model: ill-typed value"),
    }
}

pub fn padded_bits(ty: &RTy, v: &RVal) -> Bits {
    let mut out = Vec::with_capacity(ty.width);
    padded_bits_with(ty, v, &mut || false, &mut out);
    out
}

/// For each position of the padded layout: true where the bit is padding.
pub fn padding_mask(ty: &RTy, v: &RVal) -> Bits {
    // run the layout twice with different padding and see which positions change
    let mut a = vec![];
    padded_bits_with(ty, v, &mut || false, &mut a);
    let mut b = vec![];
    padded_bits_with(ty, v, &mut || true, &mut b);
    a.iter().zip(b.iter()).map(|(x, y)| x != y).collect()
}

pub fn compact_bits(ty: &RTy, v: &RVal) -> Bits {
    fn go(ty: &RTy, v: &RVal, out: &mut Bits) {
        match (&ty.kind, v) {
            (RTyKind::Unit, _) => {}
            (RTyKind::Sum(a, _), RVal::L(x)) => {
                out.push(false);
                go(a, x, out);
            }
            (RTyKind::Sum(_, b), RVal::R(x)) => {
                out.push(true);
                go(b, x, out);
            }
            (RTyKind::Prod(a, b), RVal::Pair(x, y)) => {
                go(a, x, out);
                go(b, y, out);
            }
            _ => panic!("model: ill-typed value"),
        }
    }
    let mut out = vec![];
    go(ty, v, &mut out);
    out
}

/// Parse the padded layout (ignoring padding bits).  Returns None if `bits` is too short.
pub fn parse_padded(ty: &RTy, bits: &[bool]) -> Option<RVal> {
    if bits.len() < ty.width {
        return None;
    }
    Some(match &ty.kind {
        RTyKind::Unit => RVal::Unit,
        RTyKind::Sum(a, b) => {
            let w = a.width.max(b.width);
            if !bits[0] {
                RVal::l(parse_padded(a, &bits[1 + w - a.width..])?)
            } else {
                RVal::r(parse_padded(b, &bits[1 + w - b.width..])?)
            }
        }
        RTyKind::Prod(a, b) => RVal::pair(parse_padded(a, bits)?, parse_padded(b, &bits[a.width..])?),
    })
}

/// Parse the compact layout; returns the value and the number of bits consumed.
pub fn parse_compact(ty: &RTy, bits: &[bool]) -> Option<(RVal, usize)> {
    fn go(ty: &RTy, bits: &[bool], pos: &mut usize) -> Option<RVal> {
        Some(match &ty.kind {
            RTyKind::Unit => RVal::Unit,
            RTyKind::Sum(a, b) => {
                let t = *bits.get(*pos)?;
                *pos += 1;
                if !t {
                    RVal::l(go(a, bits, pos)?)
                } else {
                    RVal::r(go(b, bits, pos)?)
                }
            }
            RTyKind::Prod(a, b) => {
                let x = go(a, bits, pos)?;
                let y = go(b, bits, pos)?;
                RVal::pair(x, y)
            }
        })
    }
    let mut pos = 0;
    let v = go(ty, bits, &mut pos)?;
    Some((v, pos))
}

/// The "zero" value: leftmost inhabitant.
pub fn zero_value(ty: &RTy) -> RVal {
    match &ty.kind {
        RTyKind::Unit => RVal::Unit,
        RTyKind::Sum(a, _) => RVal::l(zero_value(a)),
        RTyKind::Prod(a, b) => RVal::pair(zero_value(a), zero_value(b)),
    }
}

/// `small <= big` in the pruning order: unit below everything, sums/products component-wise.
pub fn ty_le(small: &RTy, big: &RTy) -> bool {
    if small.is_unit() {
        return true;
    }
    match (&small.kind, &big.kind) {
        (RTyKind::Sum(a1, b1), RTyKind::Sum(a2, b2)) | (RTyKind::Prod(a1, b1), RTyKind::Prod(a2, b2)) => {
            ty_le(a1, a2) && ty_le(b1, b2)
        }
        _ => false,
    }
}

/// Projection of a value of type `ty` onto `target`, following only the path the value takes.
/// `None` when the shapes are incompatible *on the taken path*.
pub fn prune_value(ty: &RTy, v: &RVal, target: &RTy) -> Option<RVal> {
    if target.is_unit() {
        return Some(RVal::Unit);
    }
    match (&ty.kind, v, &target.kind) {
        (RTyKind::Sum(a, _), RVal::L(x), RTyKind::Sum(ta, _)) => Some(RVal::l(prune_value(a, x, ta)?)),
        (RTyKind::Sum(_, b), RVal::R(x), RTyKind::Sum(_, tb)) => Some(RVal::r(prune_value(b, x, tb)?)),
        (RTyKind::Prod(a, b), RVal::Pair(x, y), RTyKind::Prod(ta, tb)) => {
            Some(RVal::pair(prune_value(a, x, ta)?, prune_value(b, y, tb)?))
        }
        _ => None,
    }
}

#[cfg(test)]
mod tests {
    use super::*;
    #[test]
    fn widths() {
        assert_eq!(RTy::word(5).width, 32);
        assert_eq!(RTy::option(RTy::word(3)).width, 9);
        assert_eq!(RTy::buffer(5).width, 63 * 8 + 6);
        assert_eq!(RTy::ctx8().width, 63 * 8 + 6 + 64 + 256);
        assert_eq!(RTy::word(4).as_word(), Some(4));
    }
    #[test]
    fn layouts() {
        // R(()) : 2^8 + 1  -> 1 followed by 8 padding bits
        let t = RTy::sum(RTy::word(3), RTy::unit());
        let v = RVal::r(RVal::Unit);
        assert_eq!(padded_bits(&t, &v).len(), 9);
        assert_eq!(compact_bits(&t, &v), vec![true]);
        assert_eq!(padding_mask(&t, &v), vec![false, true, true, true, true, true, true, true, true]);
        assert_eq!(parse_padded(&t, &padded_bits(&t, &v)), Some(v.clone()));
        assert_eq!(parse_compact(&t, &compact_bits(&t, &v)), Some((v, 1)));
    }
}
