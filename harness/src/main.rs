use std::path::Path;
use vharness::engine::{meter, run, Tier};
use vharness::props;

#[global_allocator]
static ALLOC: meter::Meter = meter::Meter;

fn usage() -> ! {
    eprintln!("usage: vcheck-bin run <ID> <quick|thorough> | replay <ID> <path> [tier] | list");
    std::process::exit(2)
}

fn main() {
    let args: Vec<String> = std::env::args().collect();
    if args.len() < 2 {
        usage();
    }
    let seed: u64 = std::env::var("VERIF_SEED").ok().and_then(|s| s.trim().parse::<i128>().ok()).map(|v| v as u64).unwrap_or(0);
    // processes that run cases get a hard cap on live bytes (default 6 GiB, VCHECK_HARD_CAP_MB)
    if matches!(args[1].as_str(), "worker" | "replay" | "c20child") {
        let mb: usize = std::env::var("VCHECK_HARD_CAP_MB").ok().and_then(|s| s.parse().ok()).unwrap_or(6144);
        meter::set_hard_cap(mb << 20);
    }
    let code = match args[1].as_str() {
        "list" => {
            for s in props::all() {
                println!("{} {}", s.id, s.title);
            }
            0
        }
        "run" if args.len() >= 4 => {
            let spec = props::find(&args[2]).unwrap_or_else(|| usage());
            let tier = Tier::parse(&args[3]).unwrap_or_else(|| usage());
            run::supervise(spec, tier, seed)
        }
        "replay" if args.len() >= 4 => {
            let spec = props::find(&args[2]).unwrap_or_else(|| usage());
            let tier = args.get(4).and_then(|t| Tier::parse(t)).unwrap_or(Tier::Quick);
            let path = args[3].clone();
            std::thread::Builder::new()
                .stack_size(1 << 28)
                .spawn(move || run::replay(spec, tier, Path::new(&path)))
                .expect("spawn")
                .join()
                .unwrap_or(2)
        }
        "c20child" if args.len() >= 3 => {
            // child of a C20 case: run the batch encoded by the hex stream concurrently, print digests
            let h = args[2].clone();
            let bytes: Vec<u8> = (0..h.len() / 2).filter_map(|i| u8::from_str_radix(&h[2 * i..2 * i + 2], 16).ok()).collect();
            std::thread::Builder::new()
                .stack_size(1 << 28)
                .spawn(move || props::c20::child_main(&bytes))
                .expect("spawn")
                .join()
                .unwrap_or(2)
        }
        "samples" if args.len() >= 4 => {
            // samples <ID> <n>: print the sample description of n non-trivial generated cases, one
            // JSON object per line (used by tools_corpus.py to write libFuzzer seed corpora)
            let spec = props::find(&args[2]).unwrap_or_else(|| usage());
            let n: usize = args[3].parse().unwrap_or(10);
            std::thread::Builder::new()
                .stack_size(1 << 28)
                .spawn(move || {
                    let known = vharness::engine::Known::load(Path::new("/verif/known_findings.json")).unwrap_or_default();
                    let mut x = seed ^ 0x9e37_79b9_7f4a_7c15;
                    let mut printed = 0;
                    let mut tries = 0;
                    while printed < n && tries < n * 200 {
                        tries += 1;
                        let len = 16 + (tries * 37) % spec.max_len.max(17);
                        let mut data = Vec::with_capacity(len);
                        while data.len() < len {
                            x ^= x >> 12;
                            x ^= x << 25;
                            x ^= x >> 27;
                            data.extend_from_slice(&x.wrapping_mul(0x2545_F491_4F6C_DD1D).to_le_bytes());
                        }
                        let mut cx = vharness::engine::Case::new(&data, Tier::Quick, spec.id, &known);
                        cx.want_sample = true;
                        let _ = run::run_stream(spec, &mut cx);
                        if cx.nontrivial {
                            if let Some(s) = cx.sample.take() {
                                println!("{}", s);
                                printed += 1;
                            }
                        }
                    }
                    0
                })
                .expect("spawn")
                .join()
                .unwrap_or(2)
        }
        "worker" if args.len() >= 9 => {
            let spec = props::find(&args[2]).unwrap_or_else(|| usage());
            let tier = Tier::parse(&args[3]).unwrap_or_else(|| usage());
            let seed: u64 = args[4].parse().unwrap_or(0);
            let shard: usize = args[5].parse().unwrap_or(0);
            let nshards: usize = args[6].parse().unwrap_or(1);
            let skip: u64 = args[8].parse().unwrap_or(0);
            // Property code may recurse deeply (type trees); run on a big stack.
            let rundir = args[7].clone();
            let h = std::thread::Builder::new()
                .stack_size(1 << 28)
                .spawn(move || run::worker(spec, tier, seed, shard, nshards, Path::new(&rundir), skip))
                .expect("spawn");
            h.join().unwrap_or(2)
        }
        _ => usage(),
    };
    std::process::exit(code);
}
