//! Verification harness for rust-simplicity: property-based testing and fuzzing.
pub mod cbind;
pub mod engine;
pub mod gen;
pub mod model;
pub mod props;
