//! G-val: values as model trees (`RVal`) plus a *production history* that materialises the
//! library `Value` through a chosen API route.

use super::types::{gen_bigger_ty, to_final, TyConv};
use crate::engine::Src;
use crate::model::bits::{pack, Bits};
use crate::model::layout::*;
use simplicity::jet::CoreEnv;
use simplicity::node::{CoreConstructible, SimpleFinalizer};
use simplicity::types::{self, Final};
use simplicity::{BitIter, BitMachine, ConstructNode, Value};
use std::sync::Arc;

/// Generate an inhabitant of `ty`.  Zero stream = the zero value.
pub fn gen_val(src: &mut Src, ty: &RTy) -> RVal {
    match &ty.kind {
        RTyKind::Unit => RVal::Unit,
        RTyKind::Sum(a, b) => {
            if src.bool() {
                RVal::r(gen_val(src, b))
            } else {
                RVal::l(gen_val(src, a))
            }
        }
        RTyKind::Prod(a, b) => {
            let x = gen_val(src, a);
            let y = gen_val(src, b);
            RVal::pair(x, y)
        }
    }
}

#[derive(Copy, Clone, Debug, PartialEq, Eq, Hash, PartialOrd, Ord)]
pub enum History {
    Constructors,
    WordConstructor,
    FromCompact,
    FromPaddedGarbage,
    Extracted,
    Pruned,
    Zero,
    MachineOutput,
}

impl History {
    pub fn name(self) -> &'static str {
        match self {
            History::Constructors => "history: constructors",
            History::WordConstructor => "history: word constructor",
            History::FromCompact => "history: from_compact_bits",
            History::FromPaddedGarbage => "history: from_padded_bits+garbage",
            History::Extracted => "history: extracted sub-value",
            History::Pruned => "history: pruned from bigger type",
            History::Zero => "history: Value::zero",
            History::MachineOutput => "history: bit machine output",
        }
    }
}

/// Records which histories were used while building one value.
#[derive(Default, Clone, Debug)]
pub struct Trace {
    pub used: Vec<History>,
}

impl Trace {
    fn add(&mut self, h: History) {
        if !self.used.contains(&h) {
            self.used.push(h);
        }
    }
}

pub struct ValBuilder {
    pub conv: TyConv,
    /// allow the (slow) machine-output history
    pub allow_machine: bool,
    /// build every value with Value::unit/left/right/product only (for checks whose subject is
    /// not the value API: a defect in a decoder must not make the *harness* inconsistent)
    pub constructors_only: bool,
}

fn garbage<'a, 'b>(src: &'a mut Src<'b>) -> impl FnMut() -> bool + use<'a, 'b> {
    let mut acc = 0u8;
    let mut n = 0;
    move || {
        if n == 0 {
            acc = src.u8();
            n = 8;
        }
        n -= 1;
        (acc >> n) & 1 == 1
    }
}

impl ValBuilder {
    pub fn new() -> Self {
        ValBuilder { conv: TyConv::new(), allow_machine: true, constructors_only: false }
    }

    /// Build the library value for (`ty`, `v`) through a history drawn from `src`.
    pub fn build(&mut self, src: &mut Src, ty: &Arc<RTy>, v: &RVal, depth: usize, tr: &mut Trace) -> Value {
        if self.constructors_only {
            return self.by_constructors(src, ty, v, depth, tr);
        }
        let is_zero = *v == zero_value(ty);
        let word = ty.as_word();
        // weights: constructors first (simplest)
        let w_word = if matches!(word, Some(n) if n <= 9) { 6 } else { 0 };
        let w_zero = if is_zero { 4 } else { 0 };
        let deep = depth >= 3;
        // (zero-width types other than unit included: the machine has to return them at their own type)
        let w_machine = if self.allow_machine && !deep && (ty.width > 0 || !ty.is_unit()) && ty.width <= 4096 { 3 } else { 0 };
        let w_extract = if deep { 0 } else { 8 };
        let w_prune = if deep { 0 } else { 5 };
        match src.weighted(&[10, w_word, 6, 8, w_extract, w_prune, w_zero, w_machine]) {
            0 => self.by_constructors(src, ty, v, depth, tr),
            1 => {
                tr.add(History::WordConstructor);
                word_constructor(word.unwrap(), &compact_bits(ty, v))
            }
            2 => {
                tr.add(History::FromCompact);
                let bits = compact_bits(ty, v);
                let bytes = pack(&bits);
                let f = self.conv.to_final(ty);
                let mut it = BitIter::from(bytes.as_slice());
                Value::from_compact_bits(&mut it, &f).expect("model compact bits decode")
            }
            3 => {
                tr.add(History::FromPaddedGarbage);
                let mut bits = Vec::with_capacity(ty.width + 8);
                {
                    let mut g = garbage(src);
                    padded_bits_with(ty, v, &mut g, &mut bits);
                }
                // garbage after the value as well
                let tail = src.u8();
                for i in 0..8 {
                    bits.push((tail >> i) & 1 == 1);
                }
                let bytes = pack(&bits);
                let f = self.conv.to_final(ty);
                let mut it = BitIter::from(bytes.as_slice());
                Value::from_padded_bits(&mut it, &f).expect("model padded bits decode")
            }
            4 => {
                tr.add(History::Extracted);
                self.by_extraction(src, ty, v, depth, tr)
            }
            5 => {
                tr.add(History::Pruned);
                // a bigger type and a value of it projecting to v
                let big = gen_bigger_ty(src, ty, 64, 90);
                let bv = lift_value(src, ty, v, &big);
                let val = self.build(src, &big, &bv, depth + 1, tr);
                let f = self.conv.to_final(ty);
                val.prune(&f).expect("prune to a smaller type")
            }
            6 => {
                tr.add(History::Zero);
                let f = self.conv.to_final(ty);
                Value::zero(&f)
            }
            _ => {
                tr.add(History::MachineOutput);
                self.by_machine(src, ty, v)
            }
        }
    }

    fn by_constructors(&mut self, src: &mut Src, ty: &Arc<RTy>, v: &RVal, depth: usize, tr: &mut Trace) -> Value {
        tr.add(History::Constructors);
        match (&ty.kind, v) {
            (RTyKind::Unit, _) => Value::unit(),
            (RTyKind::Sum(a, b), RVal::L(x)) => {
                let inner = self.sub(src, a, x, depth, tr);
                Value::left(inner, self.conv.to_final(b))
            }
            (RTyKind::Sum(a, b), RVal::R(x)) => {
                let inner = self.sub(src, b, x, depth, tr);
                Value::right(self.conv.to_final(a), inner)
            }
            (RTyKind::Prod(a, b), RVal::Pair(x, y)) => {
                let l = self.sub(src, a, x, depth, tr);
                let r = self.sub(src, b, y, depth, tr);
                Value::product(l, r)
            }
            _ => panic!("gen: ill-typed model value"),
        }
    }

    /// Parts are mostly built by constructors again, sometimes through another history.
    fn sub(&mut self, src: &mut Src, ty: &Arc<RTy>, v: &RVal, depth: usize, tr: &mut Trace) -> Value {
        if !self.constructors_only && ty.size > 3 && src.chance(60) {
            self.build(src, ty, v, depth + 1, tr)
        } else {
            self.by_constructors(src, ty, v, depth, tr)
        }
    }

    /// Embed (ty, v) in a container built some other way and extract it again.
    fn by_extraction(&mut self, src: &mut Src, ty: &Arc<RTy>, v: &RVal, depth: usize, tr: &mut Trace) -> Value {
        // container shapes: (junk, x), (x, junk), L(x):x+J, R(x):J+x, nested
        let layers = src.range(1, 3);
        let mut cty = ty.clone();
        let mut cv = v.clone();
        let mut path: Vec<u8> = vec![];
        for _ in 0..layers {
            let jt = super::types::gen_ty(src, 24, 9);
            let jv = gen_val(src, &jt);
            match src.below(4) {
                0 => {
                    cv = RVal::pair(jv, cv);
                    cty = RTy::prod(jt, cty);
                    path.push(1);
                }
                1 => {
                    cv = RVal::pair(cv, jv);
                    cty = RTy::prod(cty, jt);
                    path.push(0);
                }
                2 => {
                    cv = RVal::l(cv);
                    cty = RTy::sum(cty, jt);
                    path.push(2);
                }
                _ => {
                    cv = RVal::r(cv);
                    cty = RTy::sum(jt, cty);
                    path.push(3);
                }
            }
        }
        let container = self.build(src, &cty, &cv, depth + 1, tr);
        let mut r = container.as_ref();
        for p in path.iter().rev() {
            r = match p {
                0 => r.as_product().expect("container is a product").0,
                1 => r.as_product().expect("container is a product").1,
                2 => r.as_left().expect("container is a left value"),
                _ => r.as_right().expect("container is a right value"),
            };
        }
        r.to_value()
    }

    /// Run `iden` (or `comp iden iden`) on an input with garbage padding: the output value is
    /// read from the machine's output frame.
    fn by_machine(&mut self, src: &mut Src, ty: &Arc<RTy>, v: &RVal) -> Value {
        let f = self.conv.to_final(ty);
        let mut bits: Bits = Vec::with_capacity(ty.width);
        {
            let mut g = garbage(src);
            padded_bits_with(ty, v, &mut g, &mut bits);
        }
        let bytes = pack(&bits);
        let input = Value::from_padded_bits(&mut BitIter::from(bytes.as_slice()), &f).expect("padded decode");
        let twice = src.bool();
        machine_identity(&f, &input, twice)
    }
}

impl Default for ValBuilder {
    fn default() -> Self {
        Self::new()
    }
}

/// Execute `iden : A -> A` (optionally `comp iden iden`) on `input` and return the output.
pub fn machine_identity(ty: &Arc<Final>, input: &Value, twice: bool) -> Value {
    let prog = types::Context::with_context(|ctx| {
        let iden = Arc::<ConstructNode>::iden(&ctx);
        let node = if twice { Arc::<ConstructNode>::comp(&iden, &Arc::<ConstructNode>::iden(&ctx)).expect("comp iden iden") } else { iden };
        let t = types::Type::complete(&ctx, ty.clone());
        ctx.unify(&node.arrow().source, &t, "harness: fix source type").expect("unify source");
        let commit = node.finalize_types_non_program().expect("finalize iden");
        commit.finalize(&mut SimpleFinalizer::new(std::iter::empty())).expect("finalize")
    });
    let mut mac = BitMachine::for_program(&prog).expect("machine for iden");
    mac.input(input).expect("input of the right type");
    mac.exec(&prog, &CoreEnv::new()).expect("iden executes")
}

fn word_constructor(n: usize, bits: &[bool]) -> Value {
    let bytes = pack(bits);
    match n {
        0 => Value::u1(bits[0] as u8),
        1 => Value::u2(bytes[0] >> 6),
        2 => Value::u4(bytes[0] >> 4),
        3 => Value::u8(bytes[0]),
        4 => Value::u16(u16::from_be_bytes(bytes[..2].try_into().unwrap())),
        5 => Value::u32(u32::from_be_bytes(bytes[..4].try_into().unwrap())),
        6 => Value::u64(u64::from_be_bytes(bytes[..8].try_into().unwrap())),
        7 => Value::u128(u128::from_be_bytes(bytes[..16].try_into().unwrap())),
        8 => Value::u256(bytes[..32].try_into().unwrap()),
        9 => Value::u512(bytes[..64].try_into().unwrap()),
        _ => unreachable!(),
    }
}

/// Given v : small and big >= small, produce a value of `big` whose projection on `small` is v
/// (the extra leaves are filled with generated data).
pub fn lift_value(src: &mut Src, small: &RTy, v: &RVal, big: &RTy) -> RVal {
    match (&small.kind, v, &big.kind) {
        (RTyKind::Unit, _, _) => gen_val(src, big),
        (RTyKind::Sum(a, _), RVal::L(x), RTyKind::Sum(ba, _)) => RVal::l(lift_value(src, a, x, ba)),
        (RTyKind::Sum(_, b), RVal::R(x), RTyKind::Sum(_, bb)) => RVal::r(lift_value(src, b, x, bb)),
        (RTyKind::Prod(a, b), RVal::Pair(x, y), RTyKind::Prod(ba, bb)) => {
            let l = lift_value(src, a, x, ba);
            let r = lift_value(src, b, y, bb);
            RVal::pair(l, r)
        }
        _ => panic!("gen: lift_value on incompatible types"),
    }
}

/// Semantic reading of a library value: its type and its tree, recovered through the padded
/// iterator and the model parser (independent of `==` on values).
pub fn read_value(v: &Value) -> (Arc<RTy>, Option<RVal>) {
    let ty = super::types::from_final(v.ty());
    let bits: Bits = v.iter_padded().collect();
    let rv = parse_padded(&ty, &bits);
    (ty, rv)
}

pub fn final_of(ty: &Arc<RTy>) -> Arc<Final> {
    to_final(ty)
}
