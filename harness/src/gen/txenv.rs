//! G-env (full): Elements transaction environments decoded from the choice stream.
//!
//! `gen_env` produces the *data* an environment is built from (`EnvSpec`); `EnvSpec::build`
//! hands exactly that data to `ElementsEnv::new`.  The all-zero stream decodes to the simplest
//! environment: one input (null outpoint hash, final sequence, no issuance, empty witness, null
//! asset/value, empty script), no outputs, version 2, lock time 0, index 0, all-zero script root
//! and genesis hash, control block without path.
//!
//! Long byte strings (hashes, scripts, proofs) are expanded from a 16-bit seed read from the
//! stream, so that an environment with six inputs and six outputs fits in ~600 stream bytes.
//! Everything is a function of the stream.

use crate::engine::{hex, Fnv, Src};
use serde_json::{json, Value as Json};
use simplicity::elements::bitcoin;
use simplicity::elements::bitcoin::hashes::Hash as _;
use simplicity::elements::confidential;
use simplicity::elements::secp256k1_zkp as secp;
use simplicity::elements::taproot::ControlBlock;
use simplicity::elements::{self, AssetId, AssetIssuance};
use simplicity::jet::elements::{ElementsEnv, ElementsUtxo};
use simplicity::jet::ElementsTxEnv;
use simplicity::Cmr;
use std::cell::RefCell;
use std::collections::HashMap;
use std::sync::Arc;

pub const MAX_INPUTS: usize = 6;
pub const MAX_OUTPUTS: usize = 6;
pub const MAX_BLOB: usize = 300;

#[derive(Clone, Debug)]
pub struct EnvSpec {
    pub tx: elements::Transaction,
    pub utxos: Vec<ElementsUtxo>,
    pub ix: u32,
    pub script_cmr: [u8; 32],
    pub control_block: ControlBlock,
    pub genesis: elements::BlockHash,
}

thread_local! {
    static SECP: secp::Secp256k1<secp::All> = secp::Secp256k1::new();
    static POINTS: RefCell<HashMap<u8, [u8; 33]>> = RefCell::new(HashMap::new());
}

// ---------------------------------------------------------------------------------------------
// byte-level helpers
// ---------------------------------------------------------------------------------------------

/// `n` pseudo-random bytes, a pure function of `seed` (xorshift64*).
pub fn expand(seed: u16, n: usize) -> Vec<u8> {
    let mut s: u64 = (seed as u64 + 1).wrapping_mul(0x9E37_79B9_7F4A_7C15) | 1;
    let mut out = Vec::with_capacity(n);
    while out.len() < n {
        s ^= s >> 12;
        s ^= s << 25;
        s ^= s >> 27;
        let v = s.wrapping_mul(0x2545_F491_4F6C_DD1D);
        for b in v.to_be_bytes() {
            if out.len() < n {
                out.push(b);
            }
        }
    }
    out
}

/// `n` bytes: all zero (simplest), one repeated byte, or expanded from a 16-bit seed.
fn blob(src: &mut Src, n: usize) -> Vec<u8> {
    match src.weighted(&[2, 1, 6]) {
        0 => vec![0u8; n],
        1 => vec![src.u8(); n],
        _ => expand(src.u16(), n),
    }
}

fn blob32(src: &mut Src) -> [u8; 32] {
    let v = blob(src, 32);
    let mut a = [0u8; 32];
    a.copy_from_slice(&v);
    a
}

/// A length in 0..=max: empty, tiny, medium, large.
fn gen_len(src: &mut Src, max: usize) -> usize {
    match src.weighted(&[4, 3, 3, 2]) {
        0 => 0,
        1 => src.range(1, 8.min(max)),
        2 => src.range(1, 80.min(max)),
        _ => src.range(1, max),
    }
}

fn gen_bytes(src: &mut Src, max: usize) -> Vec<u8> {
    let n = gen_len(src, max);
    if n == 0 {
        vec![]
    } else {
        blob(src, n)
    }
}

/// A 32-bit value: one of the given landmarks (first = simplest), a neighbour of one, a small
/// number or any number.
fn gen_u32(src: &mut Src, landmarks: &[u32]) -> u32 {
    match src.weighted(&[8, 3, 2, 3]) {
        0 => landmarks[src.below(landmarks.len())],
        1 => {
            let l = landmarks[src.below(landmarks.len())];
            if src.bool() {
                l.wrapping_add(1 + src.below(3) as u32)
            } else {
                l.wrapping_sub(1 + src.below(3) as u32)
            }
        }
        2 => src.u8() as u32,
        _ => src.u32(),
    }
}

fn gen_u64(src: &mut Src) -> u64 {
    match src.weighted(&[3, 2, 2, 1, 1, 3]) {
        0 => 0,
        1 => 1,
        2 => src.u16() as u64,
        3 => u64::MAX,
        4 => 2_100_000_000_000_000,
        _ => src.u64(),
    }
}

/// Compressed encoding (0x02/0x03 || x) of the public key of a secret derived from `seed`:
/// a source of valid curve x-coordinates.
fn point(seed: u8) -> [u8; 33] {
    POINTS.with(|c| {
        *c.borrow_mut().entry(seed).or_insert_with(|| {
            let mut sk = [0u8; 32];
            sk.copy_from_slice(&expand(0x5ec0 ^ seed as u16, 32));
            sk[0] &= 0x7f;
            sk[31] |= 1;
            let sk = secp::SecretKey::from_slice(&sk).expect("non-zero secret below the group order");
            SECP.with(|s| secp::PublicKey::from_secret_key(s, &sk).serialize())
        })
    })
}

/// prefix || x for a valid x; the prefix parity is chosen by the stream.
fn gen_commitment_bytes(src: &mut Src, even_prefix: u8) -> [u8; 33] {
    let mut p = point(src.u8());
    p[0] = even_prefix | src.bool() as u8;
    p
}

// ---------------------------------------------------------------------------------------------
// confidential things
// ---------------------------------------------------------------------------------------------

fn gen_asset_id(src: &mut Src, palette: &[AssetId]) -> AssetId {
    if src.chance(176) {
        palette[src.below(palette.len())]
    } else {
        AssetId::from_byte_array(blob32(src))
    }
}

fn gen_asset(src: &mut Src, palette: &[AssetId], weights: &[u32; 3]) -> confidential::Asset {
    match src.weighted(weights) {
        0 => confidential::Asset::Null,
        1 => confidential::Asset::Explicit(gen_asset_id(src, palette)),
        _ => {
            let b = gen_commitment_bytes(src, 0x0a);
            match confidential::Asset::from_commitment(&b) {
                Ok(a) => a,
                Err(_) => confidential::Asset::Explicit(gen_asset_id(src, palette)),
            }
        }
    }
}

fn gen_value(src: &mut Src, weights: &[u32; 3]) -> confidential::Value {
    match src.weighted(weights) {
        0 => confidential::Value::Null,
        1 => confidential::Value::Explicit(gen_u64(src)),
        _ => {
            let b = gen_commitment_bytes(src, 0x08);
            match confidential::Value::from_commitment(&b) {
                Ok(v) => v,
                Err(_) => confidential::Value::Explicit(gen_u64(src)),
            }
        }
    }
}

fn gen_nonce(src: &mut Src) -> confidential::Nonce {
    match src.weighted(&[4, 2, 4]) {
        0 => confidential::Nonce::Null,
        1 => confidential::Nonce::Explicit(blob32(src)),
        _ => {
            let b = gen_commitment_bytes(src, 0x02);
            match confidential::Nonce::from_commitment(&b) {
                Ok(n) => n,
                Err(_) => confidential::Nonce::Explicit(blob32(src)),
            }
        }
    }
}

/// Range proofs are validated on construction by `secp256k1_rangeproof_info`, which parses the
/// header only: at least 65 bytes, top two bits of the first byte clear (no exponent/mantissa),
/// bit 0x20 = an 8-byte minimum value follows.  Empty = no proof.
fn gen_rangeproof(src: &mut Src) -> elements::RangeProof {
    let n = match src.weighted(&[5, 3, 2]) {
        0 => return elements::RangeProof::EMPTY,
        1 => src.range(65, 100),
        _ => src.range(65, MAX_BLOB),
    };
    let mut b = expand(src.u16(), n);
    b[0] &= 0x3f;
    elements::RangeProof::from_slice(&b).unwrap_or(elements::RangeProof::EMPTY)
}

/// Surjection proofs are parsed on construction: u16-le input count (<= 256), a bitmap of
/// that many bits (unused bits clear), 32 * (1 + used inputs) bytes.  Empty = no proof.
fn gen_surjectionproof(src: &mut Src) -> elements::SurjectionProof {
    if !src.chance(128) {
        return elements::SurjectionProof::EMPTY;
    }
    let n_inputs = src.below(25);
    let nbytes = (n_inputs + 7) / 8;
    let mut bitmap = expand(src.u16(), nbytes);
    if n_inputs % 8 != 0 {
        bitmap[nbytes - 1] &= (1u8 << (n_inputs % 8)) - 1;
    }
    // at most 8 used inputs (keeps the proof below 300 bytes)
    let mut used = 0;
    for byte in bitmap.iter_mut() {
        for bit in 0..8 {
            if *byte & (1 << bit) != 0 {
                if used == 8 {
                    *byte &= !(1 << bit);
                } else {
                    used += 1;
                }
            }
        }
    }
    let mut b = vec![n_inputs as u8, 0];
    b.extend_from_slice(&bitmap);
    b.extend_from_slice(&expand(src.u16(), 32 * (1 + used)));
    elements::SurjectionProof::from_slice(&b).unwrap_or(elements::SurjectionProof::EMPTY)
}

// ---------------------------------------------------------------------------------------------
// scripts
// ---------------------------------------------------------------------------------------------

/// An OP_RETURN script followed by data pushes (all push flavours, OP_1NEGATE, OP_RESERVED,
/// OP_1..OP_16); sometimes made invalid (opcode above OP_16, truncated push).
fn gen_null_data_script(src: &mut Src) -> Vec<u8> {
    let mut s = vec![0x6a];
    let n = src.below(6);
    for _ in 0..n {
        match src.weighted(&[4, 2, 2, 1, 3, 1, 1]) {
            0 => {
                let l = src.below(0x4c);
                s.push(l as u8);
                s.extend_from_slice(&blob(src, l));
            }
            1 => {
                let l = src.below(100);
                s.push(0x4c);
                s.push(l as u8);
                s.extend_from_slice(&blob(src, l));
            }
            2 => {
                let l = src.below(120);
                s.push(0x4d);
                s.extend_from_slice(&(l as u16).to_le_bytes());
                s.extend_from_slice(&blob(src, l));
            }
            3 => {
                let l = src.below(60);
                s.push(0x4e);
                s.extend_from_slice(&(l as u32).to_le_bytes());
                s.extend_from_slice(&blob(src, l));
            }
            4 => s.push(0x4f + src.below(18) as u8), // OP_1NEGATE, OP_RESERVED, OP_1 .. OP_16
            5 => s.push(0x61 + src.below(0x9f) as u8), // not a push: the script is not null data
            _ => {
                // truncated push (ends the script)
                let l = 1 + src.below(40);
                match src.below(4) {
                    0 => {
                        s.push(l as u8 + 1); // immediate push of l+1 bytes, l present
                        s.extend_from_slice(&blob(src, l));
                    }
                    1 => s.push(0x4c), // length byte missing
                    2 => {
                        s.push(0x4c); // OP_PUSHDATA1 of l+1 bytes, l present
                        s.push(l as u8 + 1);
                        s.extend_from_slice(&blob(src, l));
                    }
                    _ => {
                        s.push(0x4d); // second length byte missing
                        s.push(l as u8);
                    }
                }
                break;
            }
        }
    }
    s
}

fn gen_script(src: &mut Src, null_data_weight: u32) -> elements::Script {
    if null_data_weight > 0 && src.chance(null_data_weight) {
        return elements::Script::from(gen_null_data_script(src));
    }
    elements::Script::from(gen_bytes(src, MAX_BLOB))
}

// ---------------------------------------------------------------------------------------------
// inputs
// ---------------------------------------------------------------------------------------------

const SEQUENCE_LANDMARKS: [u32; 12] = [
    0xffff_ffff,
    0,
    0xffff_fffe,
    1 << 31,
    (1 << 31) - 1,
    1 << 22,
    (1 << 22) | 0xffff,
    0xffff,
    (1 << 22) - 1,
    (1 << 31) | (1 << 22) | 5,
    0x0001_0000,
    (1 << 22) | 0x0001_0000,
];

const LOCKTIME_LANDMARKS: [u32; 7] = [0, 1, 499_999_999, 500_000_000, 500_000_001, 0xffff_ffff, 0x7fff_ffff];

fn gen_sequence(src: &mut Src) -> u32 {
    match src.weighted(&[6, 2, 2]) {
        0 => gen_u32(src, &SEQUENCE_LANDMARKS),
        1 => src.u16() as u32,               // relative height
        _ => (1 << 22) | src.u16() as u32,   // relative time
    }
}

fn gen_issuance(src: &mut Src) -> AssetIssuance {
    let kind = src.weighted(&[6, 3, 3, 1]);
    if kind == 0 {
        return AssetIssuance::null();
    }
    let mut nonce = [0u8; 32];
    if kind == 2 || (kind == 3 && src.bool()) {
        nonce = blob32(src);
        if src.chance(64) {
            // a single non-zero byte
            nonce = [0u8; 32];
            nonce[src.below(32)] = 1 + src.below(255) as u8;
        }
        if nonce == [0u8; 32] {
            nonce[31] = 1;
        }
    }
    let entropy = blob32(src);
    let (amount, inflation_keys) = if kind == 3 {
        // both amounts null: not an issuance, whatever the other two fields say
        (confidential::Value::Null, confidential::Value::Null)
    } else {
        let mut a = gen_value(src, &[2, 4, 4]);
        let k = gen_value(src, &[3, 3, 4]);
        if a.is_null() && k.is_null() {
            a = confidential::Value::Explicit(gen_u64(src));
        }
        (a, k)
    };
    AssetIssuance {
        asset_blinding_nonce: elements::AssetBlindingNonce::from_byte_array(nonce),
        asset_entropy: elements::AssetEntropy::from_byte_array(entropy),
        amount,
        inflation_keys,
    }
}

fn gen_pegin_witness(src: &mut Src, palette: &[AssetId]) -> elements::PeginWitness {
    let mut merkle_proof = expand(src.u16(), 80 + src.below(40));
    if src.chance(64) {
        merkle_proof = vec![0u8; 80];
    }
    let mut header = [0u8; 80];
    header.copy_from_slice(&merkle_proof[..80]);
    elements::PeginWitness::new(elements::PeginData {
        value: gen_u64(src),
        asset_id: gen_asset_id(src, palette),
        genesis_hash: bitcoin::BlockHash::from_byte_array(blob32(src)),
        claim_script: bitcoin::ScriptBuf::from(gen_bytes(src, 40)),
        transaction: gen_bytes(src, 120),
        merkle_proof,
        referenced_block: bitcoin::BlockHash::hash(&header),
    })
}

/// Witness stack: 0..3 ordinary items, then possibly an annex (0x50 || data) as the last item.
/// Shapes: no annex (the last item never starts with 0x50); annex after >= 1 other item; a
/// *lone* 0x50-item (one-item stack); an item starting with 0x50 that is not the last one.
fn gen_script_witness(src: &mut Src) -> elements::Witness {
    let shape = src.weighted(&[12, 8, 1, 2]);
    let n_items = match shape {
        0 => src.below(4),
        1 => 1 + src.below(3),
        2 => 0,
        _ => 2 + src.below(2),
    };
    let mut items: Vec<Vec<u8>> = (0..n_items).map(|_| gen_bytes(src, 80)).collect();
    match shape {
        0 => {
            if let Some(last) = items.last_mut() {
                if last.first() == Some(&0x50) {
                    last[0] = 0x51;
                }
            }
        }
        1 | 2 => {
            let mut annex = vec![0x50];
            annex.extend_from_slice(&gen_bytes(src, MAX_BLOB));
            items.push(annex);
        }
        _ => {
            if items[0].is_empty() {
                items[0].push(0x50);
            } else {
                items[0][0] = 0x50;
            }
            let last = items.last_mut().unwrap();
            if last.first() == Some(&0x50) {
                last[0] = 0x4f;
            }
        }
    }
    elements::Witness::from_slice(&items)
}

fn gen_input(src: &mut Src, palette: &[AssetId]) -> (elements::TxIn, ElementsUtxo) {
    let txid = elements::Txid::from_byte_array(blob32(src));
    let vout = gen_u32(src, &[0, 1, 0xffff_ffff, 0x3fff_ffff, 0x4000_0000, 0x8000_0000]);
    // peg-in: none; flag + well-formed witness; well-formed witness without the flag
    let (is_pegin, pegin_witness) = match src.weighted(&[16, 7, 1]) {
        0 => (false, elements::PeginWitness::EMPTY),
        1 => (true, gen_pegin_witness(src, palette)),
        _ => (false, gen_pegin_witness(src, palette)),
    };
    let script_sig = elements::Script::from(gen_bytes(src, MAX_BLOB));
    let sequence = elements::Sequence(gen_sequence(src));
    let asset_issuance = gen_issuance(src);
    let (amount_rangeproof, inflation_keys_rangeproof) = if src.chance(150) {
        (gen_rangeproof(src), gen_rangeproof(src))
    } else {
        (elements::RangeProof::EMPTY, elements::RangeProof::EMPTY)
    };
    let script_witness = gen_script_witness(src);
    let utxo = ElementsUtxo {
        script_pubkey: elements::Script::from(gen_bytes(src, MAX_BLOB)),
        asset: gen_asset(src, palette, &[2, 5, 4]),
        value: gen_value(src, &[2, 5, 4]),
    };
    let txin = elements::TxIn {
        previous_output: elements::OutPoint { txid, vout },
        is_pegin,
        script_sig,
        sequence,
        asset_issuance,
        witness: elements::TxInWitness { amount_rangeproof, inflation_keys_rangeproof, script_witness, pegin_witness },
    };
    (txin, utxo)
}

fn gen_output(src: &mut Src, palette: &[AssetId]) -> elements::TxOut {
    if src.chance(56) {
        // fee-shaped output: empty script, explicit asset (from the shared palette, so that the
        // fees of one asset add up), explicit value (sometimes null)
        let value = if src.chance(40) { confidential::Value::Null } else { confidential::Value::Explicit(gen_u64(src)) };
        return elements::TxOut {
            asset: confidential::Asset::Explicit(palette[src.below(palette.len())]),
            value,
            nonce: confidential::Nonce::Null,
            script_pubkey: elements::Script::new(),
            witness: elements::TxOutWitness::default(),
        };
    }
    let asset = gen_asset(src, palette, &[3, 6, 4]);
    let value = gen_value(src, &[3, 6, 4]);
    let nonce = gen_nonce(src);
    let script_pubkey = match src.weighted(&[5, 4, 3]) {
        0 => elements::Script::new(),
        1 => gen_script(src, 0),
        _ => gen_script(src, 256),
    };
    let (surjection_proof, rangeproof) = if src.chance(150) {
        (gen_surjectionproof(src), gen_rangeproof(src))
    } else {
        (elements::SurjectionProof::EMPTY, elements::RangeProof::EMPTY)
    };
    elements::TxOut { asset, value, nonce, script_pubkey, witness: elements::TxOutWitness { surjection_proof, rangeproof } }
}

fn gen_control_block(src: &mut Src) -> ControlBlock {
    let version = [0xbeu8, 0xc0, 0xc4, 0xfe, 0x02][src.weighted(&[10, 2, 2, 1, 1])];
    let parity = src.bool() as u8;
    let key = point(src.u8());
    let n_path = match src.weighted(&[5, 3, 3, 2, 1]) {
        0 => 0,
        1 => 1,
        2 => src.range(2, 4),
        3 => src.range(5, 8),
        _ => 128,
    };
    let mut b = vec![version | parity];
    b.extend_from_slice(&key[1..]);
    if n_path == 128 {
        b.extend_from_slice(&expand(src.u16(), 128 * 32));
    } else {
        for _ in 0..n_path {
            b.extend_from_slice(&blob32(src));
        }
    }
    ControlBlock::from_slice(&b).expect("well-formed control block")
}

/// Decode an environment description from the choice stream.
pub fn gen_env(src: &mut Src) -> EnvSpec {
    let n_in = 1 + src.weighted(&[5, 4, 3, 2, 2, 2]);
    let n_out = src.weighted(&[4, 4, 3, 2, 2, 2, 2]);
    let ix = src.below(n_in) as u32;
    let version = [2u32, 1, 3, 0, 0xffff_ffff][src.weighted(&[8, 4, 3, 1, 1])];
    let lock_time = gen_u32(src, &LOCKTIME_LANDMARKS);
    let script_cmr = blob32(src);
    let genesis = elements::BlockHash::from_byte_array(blob32(src));
    let control_block = gen_control_block(src);
    // a few asset ids shared by outputs, so that fee outputs of one asset add up
    let palette: Vec<AssetId> = vec![AssetId::from_byte_array([0u8; 32]), AssetId::LIQUID_BTC, AssetId::from_byte_array(blob32(src))];
    // all-final transactions are rare with many inputs unless asked for
    let force_final = src.chance(24);
    let mut input = vec![];
    let mut utxos = vec![];
    for _ in 0..n_in {
        let (mut txin, utxo) = gen_input(src, &palette);
        if force_final {
            txin.sequence = elements::Sequence(0xffff_ffff);
        }
        input.push(txin);
        utxos.push(utxo);
    }
    let output: Vec<elements::TxOut> = (0..n_out).map(|_| gen_output(src, &palette)).collect();
    EnvSpec {
        tx: elements::Transaction { version, lock_time: elements::LockTime::from_consensus(lock_time), input, output },
        utxos,
        ix,
        script_cmr,
        control_block,
        genesis,
    }
}

// ---------------------------------------------------------------------------------------------
// EnvSpec
// ---------------------------------------------------------------------------------------------

fn short_hex(b: &[u8]) -> String {
    if b.len() <= 40 {
        hex(b)
    } else {
        format!("{}..({} bytes)", hex(&b[..32]), b.len())
    }
}

fn asset_json(a: &confidential::Asset) -> Json {
    match a {
        confidential::Asset::Null => json!("null"),
        confidential::Asset::Explicit(id) => json!({"explicit": hex(&id.to_byte_array())}),
        confidential::Asset::Confidential(g) => json!({"confidential": hex(&g.serialize())}),
    }
}

fn value_json(v: &confidential::Value) -> Json {
    match v {
        confidential::Value::Null => json!("null"),
        confidential::Value::Explicit(x) => json!({"explicit": x}),
        confidential::Value::Confidential(c) => json!({"confidential": hex(&c.serialize())}),
    }
}

fn nonce_json(n: &confidential::Nonce) -> Json {
    match n {
        confidential::Nonce::Null => json!("null"),
        confidential::Nonce::Explicit(x) => json!({"explicit": hex(x)}),
        confidential::Nonce::Confidential(pk) => json!({"confidential": hex(&pk.serialize())}),
    }
}

impl EnvSpec {
    /// Build the library environment from exactly this data (annex argument: `None`; jets see
    /// the annex carried in the witness stack).
    pub fn build(&self) -> ElementsTxEnv {
        ElementsEnv::new(
            Arc::new(self.tx.clone()),
            self.utxos.clone(),
            self.ix,
            Cmr::from_byte_array(self.script_cmr),
            self.control_block.clone(),
            None,
            self.genesis,
        )
    }

    /// Stable fingerprint of the whole description.
    pub fn digest(&self) -> u64 {
        let mut h = Fnv::new();
        h.write_u64(self.tx.version as u64);
        h.write_u64(self.tx.lock_time.to_consensus_u32() as u64);
        h.write_u64(self.tx.input.len() as u64);
        for (i, u) in self.tx.input.iter().zip(self.utxos.iter()) {
            h.write(&i.previous_output.txid.to_byte_array());
            h.write_u64(i.previous_output.vout as u64);
            h.write_u64(i.is_pegin as u64);
            h.write(i.script_sig.as_bytes());
            h.write_u64(i.sequence.0 as u64);
            h.write(&elements::encode::serialize(&i.asset_issuance));
            h.write(&i.witness.amount_rangeproof.to_vec());
            h.write_u64(1);
            h.write(&i.witness.inflation_keys_rangeproof.to_vec());
            h.write_u64(i.witness.script_witness.iter().count() as u64);
            for item in i.witness.script_witness.iter() {
                h.write_u64(item.len() as u64);
                h.write(item);
            }
            match i.witness.pegin_witness.data() {
                None => h.write_u64(0),
                Some(d) => {
                    h.write_u64(d.value);
                    h.write(&d.asset_id.to_byte_array());
                    h.write(&d.genesis_hash.to_byte_array());
                    h.write(d.claim_script.as_bytes());
                    h.write_u64(d.transaction.len() as u64);
                    h.write(&d.transaction);
                    h.write(&d.merkle_proof);
                }
            }
            h.write_u64(u.script_pubkey.len() as u64);
            h.write(u.script_pubkey.as_bytes());
            h.write(&elements::encode::serialize(&u.asset));
            h.write(&elements::encode::serialize(&u.value));
        }
        h.write_u64(self.tx.output.len() as u64);
        for o in &self.tx.output {
            h.write(&elements::encode::serialize(&o.asset));
            h.write(&elements::encode::serialize(&o.value));
            h.write(&elements::encode::serialize(&o.nonce));
            h.write_u64(o.script_pubkey.len() as u64);
            h.write(o.script_pubkey.as_bytes());
            h.write(&o.witness.surjection_proof.to_vec());
            h.write_u64(2);
            h.write(&o.witness.rangeproof.to_vec());
        }
        h.write_u64(self.ix as u64);
        h.write(&self.script_cmr);
        h.write(&self.control_block.serialize());
        h.write(&self.genesis.to_byte_array());
        h.finish()
    }

    /// Rendering for samples and failure messages (long byte strings abbreviated).
    pub fn describe(&self) -> Json {
        let inputs: Vec<Json> = self
            .tx
            .input
            .iter()
            .zip(self.utxos.iter())
            .map(|(i, u)| {
                let iss = &i.asset_issuance;
                json!({
                    "prev_txid_bytes": hex(&i.previous_output.txid.to_byte_array()),
                    "prev_vout": i.previous_output.vout,
                    "is_pegin": i.is_pegin,
                    "pegin_witness": match i.witness.pegin_witness.data() {
                        None => json!(null),
                        Some(d) => json!({"value": d.value, "asset": hex(&d.asset_id.to_byte_array()), "genesis_hash_bytes": hex(&d.genesis_hash.to_byte_array()),
                                          "claim_script": short_hex(d.claim_script.as_bytes()), "transaction": short_hex(&d.transaction), "merkle_proof": short_hex(&d.merkle_proof)}),
                    },
                    "script_sig": short_hex(i.script_sig.as_bytes()),
                    "sequence": format!("{:#010x}", i.sequence.0),
                    "issuance": if iss.is_null() && iss.asset_blinding_nonce.is_null() && iss.asset_entropy.to_byte_array() == [0u8; 32] { json!(null) } else {
                        json!({"blinding_nonce": hex(iss.asset_blinding_nonce.as_byte_array()), "entropy": hex(&iss.asset_entropy.to_byte_array()),
                               "amount": value_json(&iss.amount), "inflation_keys": value_json(&iss.inflation_keys)})
                    },
                    "amount_rangeproof": short_hex(&i.witness.amount_rangeproof.to_vec()),
                    "inflation_keys_rangeproof": short_hex(&i.witness.inflation_keys_rangeproof.to_vec()),
                    "script_witness": i.witness.script_witness.iter().map(|w| short_hex(w)).collect::<Vec<_>>(),
                    "utxo": {"script_pubkey": short_hex(u.script_pubkey.as_bytes()), "asset": asset_json(&u.asset), "value": value_json(&u.value)},
                })
            })
            .collect();
        let outputs: Vec<Json> = self
            .tx
            .output
            .iter()
            .map(|o| {
                json!({
                    "asset": asset_json(&o.asset),
                    "value": value_json(&o.value),
                    "nonce": nonce_json(&o.nonce),
                    "script_pubkey": short_hex(o.script_pubkey.as_bytes()),
                    "surjection_proof": short_hex(&o.witness.surjection_proof.to_vec()),
                    "rangeproof": short_hex(&o.witness.rangeproof.to_vec()),
                })
            })
            .collect();
        json!({
            "version": self.tx.version,
            "lock_time": self.tx.lock_time.to_consensus_u32(),
            "ix": self.ix,
            "inputs": inputs,
            "outputs": outputs,
            "script_cmr": hex(&self.script_cmr),
            "control_block": short_hex(&self.control_block.serialize()),
            "control_block_path_len": self.control_block.merkle_branch.as_inner().len(),
            "genesis_hash_bytes": hex(&self.genesis.to_byte_array()),
        })
    }
}
