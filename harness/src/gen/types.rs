//! G-ty: finalised types, generated as model types (`RTy`) and converted to library `Final`s.

use crate::engine::Src;
use crate::model::layout::{RTy, RTyKind};
use simplicity::types::{CompleteBound, Final};
use std::collections::HashMap;
use std::sync::Arc;

/// Generate a type whose padded width is at most `max_width` bits.
/// Option list is ordered simplest-first (zero stream = unit).
pub fn gen_ty(src: &mut Src, max_width: usize, depth: usize) -> Arc<RTy> {
    let mut pool: Vec<Arc<RTy>> = vec![];
    gen_ty_pool(src, max_width, depth, &mut pool)
}

fn gen_ty_pool(src: &mut Src, max_width: usize, depth: usize, pool: &mut Vec<Arc<RTy>>) -> Arc<RTy> {
    if max_width == 0 || depth > 12 {
        // only zero-width types fit: unit, or a small product of units
        return if depth <= 12 && src.chance(40) { RTy::prod(RTy::unit(), RTy::unit()) } else { RTy::unit() };
    }
    let t = match src.weighted(&[10, 8, 8, 12, 12, 6, 3, 2, 6, 3]) {
        0 => RTy::unit(),
        1 => RTy::two(),
        2 => {
            // word 2^(2^n): small n common, large rare
            let n = if src.chance(40) { src.range(0, 10) } else { src.range(0, 6) };
            let mut n = n;
            while n > 0 && (1usize << n) > max_width {
                n -= 1;
            }
            if (1usize << n) > max_width {
                RTy::unit()
            } else {
                RTy::word(n)
            }
        }
        3 => {
            // sum, deliberately of unequal widths: give the two sides different budgets
            let (wl, wr) = if src.bool() { (max_width - 1, (max_width - 1) / 8) } else { ((max_width - 1) / 8, max_width - 1) };
            let a = gen_ty_pool(src, wl, depth + 1, pool);
            let b = gen_ty_pool(src, wr, depth + 1, pool);
            RTy::sum(a, b)
        }
        4 => {
            let a = gen_ty_pool(src, max_width / 2, depth + 1, pool);
            let b = gen_ty_pool(src, max_width - a.width, depth + 1, pool);
            RTy::prod(a, b)
        }
        5 => {
            let a = gen_ty_pool(src, max_width - 1, depth + 1, pool);
            RTy::option(a)
        }
        6 => {
            let mut n = src.range(0, 5);
            while n > 0 && RTy::buffer(n).width > max_width {
                n -= 1;
            }
            if RTy::buffer(n).width > max_width {
                RTy::unit()
            } else {
                RTy::buffer(n)
            }
        }
        7 => {
            if RTy::ctx8().width <= max_width {
                RTy::ctx8()
            } else {
                RTy::two()
            }
        }
        8 => {
            // re-use an earlier sub-type (Arc duplication / shared sub-types)
            if pool.is_empty() {
                RTy::two()
            } else {
                let i = src.below(pool.len());
                let t = pool[i].clone();
                if t.width <= max_width {
                    t
                } else {
                    RTy::unit()
                }
            }
        }
        _ => {
            // unit-heavy product
            let a = gen_ty_pool(src, max_width, depth + 1, pool);
            if src.bool() {
                RTy::prod(RTy::unit(), a)
            } else {
                RTy::prod(a, RTy::unit())
            }
        }
    };
    pool.push(t.clone());
    t
}

/// A type `<=` the given one in the pruning order (unit below everything; sums and products
/// component-wise).  `p_unit` (out of 256) is the chance of cutting at each node.
pub fn gen_smaller_ty(src: &mut Src, ty: &Arc<RTy>, p_unit: u32) -> Arc<RTy> {
    if ty.is_unit() || src.chance(p_unit) {
        return RTy::unit();
    }
    match &ty.kind {
        RTyKind::Unit => RTy::unit(),
        RTyKind::Sum(a, b) => RTy::sum(gen_smaller_ty(src, a, p_unit), gen_smaller_ty(src, b, p_unit)),
        RTyKind::Prod(a, b) => RTy::prod(gen_smaller_ty(src, a, p_unit), gen_smaller_ty(src, b, p_unit)),
    }
}

/// A type `>=` the given one: some unit leaves are replaced by generated types.
pub fn gen_bigger_ty(src: &mut Src, ty: &Arc<RTy>, budget: usize, p_grow: u32) -> Arc<RTy> {
    match &ty.kind {
        RTyKind::Unit => {
            if budget > 0 && src.chance(p_grow) {
                gen_ty(src, budget.min(64), 8)
            } else {
                RTy::unit()
            }
        }
        RTyKind::Sum(a, b) => RTy::sum(gen_bigger_ty(src, a, budget, p_grow), gen_bigger_ty(src, b, budget, p_grow)),
        RTyKind::Prod(a, b) => RTy::prod(gen_bigger_ty(src, a, budget / 2, p_grow), gen_bigger_ty(src, b, budget / 2, p_grow)),
    }
}

/// Converter RTy -> library Final, preserving Arc sharing.
#[derive(Default)]
pub struct TyConv {
    // the key's Arc is kept alive in the value so that addresses cannot be re-used
    memo: HashMap<*const RTy, (Arc<RTy>, Arc<Final>)>,
}

impl TyConv {
    pub fn new() -> Self {
        Self::default()
    }
    pub fn to_final(&mut self, ty: &Arc<RTy>) -> Arc<Final> {
        if let Some((_, f)) = self.memo.get(&Arc::as_ptr(ty)) {
            return f.clone();
        }
        let f = match &ty.kind {
            RTyKind::Unit => Final::unit(),
            RTyKind::Sum(a, b) => {
                let (fa, fb) = (self.to_final(a), self.to_final(b));
                Final::sum(fa, fb)
            }
            RTyKind::Prod(a, b) => {
                let (fa, fb) = (self.to_final(a), self.to_final(b));
                Final::product(fa, fb)
            }
        };
        self.memo.insert(Arc::as_ptr(ty), (ty.clone(), f.clone()));
        f
    }
}

pub fn to_final(ty: &Arc<RTy>) -> Arc<Final> {
    TyConv::new().to_final(ty)
}

/// Library Final -> model type (memoised on the TMR so that shared types stay shared).
pub fn from_final(f: &Final) -> Arc<RTy> {
    fn go(f: &Final, memo: &mut HashMap<[u8; 32], Arc<RTy>>) -> Arc<RTy> {
        let key = f.tmr().to_byte_array();
        if let Some(t) = memo.get(&key) {
            return t.clone();
        }
        let t = match f.bound() {
            CompleteBound::Unit => RTy::unit(),
            CompleteBound::Sum(a, b) => {
                let (x, y) = (go(a, memo), go(b, memo));
                RTy::sum(x, y)
            }
            CompleteBound::Product(a, b) => {
                let (x, y) = (go(a, memo), go(b, memo));
                RTy::prod(x, y)
            }
        };
        memo.insert(key, t.clone());
        t
    }
    go(f, &mut HashMap::new())
}
