//! Generators (all decode from a choice stream, `engine::Src`).
