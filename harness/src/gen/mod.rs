//! Generators (all decode from a choice stream, `engine::Src`).
pub mod build;
pub mod env;
pub mod prog;
pub mod types;
pub mod values;
pub mod policy;
pub mod text;
pub mod txenv;
