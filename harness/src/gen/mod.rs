//! Generators (all decode from a choice stream, `engine::Src`).
pub mod types;
pub mod values;
