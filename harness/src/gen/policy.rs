//! G-policy: policy trees over a small pool of keys / hashes / timelocks, permutations of the
//! commutative children, and lock-time settings of an Elements environment.

use crate::engine::Src;
use crate::gen::env::CTRL_BLK;
use simplicity::elements::bitcoin::hashes::{sha256, Hash};
use simplicity::elements::bitcoin::key::{Keypair, XOnlyPublicKey};
use simplicity::elements::secp256k1_zkp::{All, Secp256k1};
use simplicity::elements::{self, confidential, taproot::ControlBlock, AssetIssuance};
use simplicity::jet::elements::{ElementsEnv, ElementsUtxo};
use simplicity::jet::ElementsTxEnv;
use simplicity::{Cmr, FailEntropy, Policy};
use std::sync::Arc;

pub type Pol = Policy<XOnlyPublicKey>;

pub const MAX_KEYS: usize = 4;
pub const MAX_HASHES: usize = 3;
pub const MAX_DEPTH: usize = 5;
pub const MAX_AFTER: u32 = 499_999_999;

thread_local! {
    static SECP: Secp256k1<All> = Secp256k1::new();
}

pub fn with_secp<R>(f: impl FnOnce(&Secp256k1<All>) -> R) -> R {
    SECP.with(|s| f(s))
}

#[derive(Clone)]
pub struct KeyEntry {
    pub secret: [u8; 32],
    pub keypair: Keypair,
    pub xonly: XOnlyPublicKey,
}

#[derive(Clone)]
pub struct HashEntry {
    pub preimage: [u8; 32],
    pub image: sha256::Hash,
}

/// A valid secp256k1 secret: mostly a small integer, sometimes 32 stream bytes (< 2^255).
fn gen_secret(src: &mut Src) -> [u8; 32] {
    let mut s = [0u8; 32];
    if src.chance(56) {
        s = src.array::<32>();
        s[0] &= 0x7f;
    } else {
        let v = src.u16();
        s[30] = (v >> 8) as u8;
        s[31] = v as u8;
    }
    if s == [0u8; 32] {
        s[31] = 1;
    }
    s
}

fn gen_preimage(src: &mut Src) -> [u8; 32] {
    if src.chance(56) {
        src.array::<32>()
    } else {
        [src.u8(); 32]
    }
}

pub struct PolicyGen {
    pub keys: Vec<KeyEntry>,
    pub hashes: Vec<HashEntry>,
    pub afters: Vec<u32>,
    pub olders: Vec<u16>,
    pub max_nodes: usize,
    pub nodes: usize,
    /// and / or nodes get leaves as children (compound children only below thresholds)
    pub leaves_under_and_or: bool,
}

impl PolicyGen {
    pub fn new(max_nodes: usize) -> Self {
        PolicyGen { keys: vec![], hashes: vec![], afters: vec![], olders: vec![], max_nodes, nodes: 0, leaves_under_and_or: false }
    }

    fn key(&mut self, src: &mut Src) -> XOnlyPublicKey {
        let n = self.keys.len();
        let i = if n >= MAX_KEYS { src.below(n) } else { src.below(n + 1) };
        if i < n {
            return self.keys[i].xonly;
        }
        let secret = gen_secret(src);
        if let Some(k) = self.keys.iter().find(|k| k.secret == secret) {
            return k.xonly;
        }
        let keypair = with_secp(|secp| Keypair::from_seckey_slice(secp, &secret)).expect("secret below 2^255 and non-zero is valid");
        let xonly = keypair.x_only_public_key().0;
        self.keys.push(KeyEntry { secret, keypair, xonly });
        xonly
    }

    fn hash(&mut self, src: &mut Src) -> sha256::Hash {
        let n = self.hashes.len();
        let i = if n >= MAX_HASHES { src.below(n) } else { src.below(n + 1) };
        if i < n {
            return self.hashes[i].image;
        }
        let preimage = gen_preimage(src);
        if let Some(h) = self.hashes.iter().find(|h| h.preimage == preimage) {
            return h.image;
        }
        let image = sha256::Hash::hash(&preimage);
        self.hashes.push(HashEntry { preimage, image });
        image
    }

    fn after(&mut self, src: &mut Src) -> u32 {
        let n = self.afters.len();
        if n > 0 && src.chance(80) {
            return self.afters[src.below(n)];
        }
        let v = match src.weighted(&[4, 2, 3]) {
            0 => src.range(1, 20) as u32,
            1 => [1u32, MAX_AFTER, MAX_AFTER - 1, 65535, 65536, 0x1000_0000][src.below(6)],
            _ => src.range(1, MAX_AFTER as usize) as u32,
        };
        let v = v.clamp(1, MAX_AFTER);
        if !self.afters.contains(&v) {
            self.afters.push(v);
        }
        v
    }

    fn older(&mut self, src: &mut Src) -> u16 {
        let n = self.olders.len();
        if n > 0 && src.chance(80) {
            return self.olders[src.below(n)];
        }
        let v = match src.weighted(&[4, 2, 3]) {
            0 => src.range(0, 20) as u16,
            1 => [0u16, 1, 65535, 65534, 0x8000, 0x7fff][src.below(6)],
            _ => src.u16(),
        };
        if !self.olders.contains(&v) {
            self.olders.push(v);
        }
        v
    }

    fn leaf(&mut self, src: &mut Src) -> Pol {
        match src.weighted(&[2, 2, 8, 6, 5, 5]) {
            0 => Policy::Trivial,
            1 => {
                let e = if src.chance(96) {
                    let a = src.u8();
                    let b = src.u8();
                    let mut d = [0u8; 64];
                    for (i, x) in d.iter_mut().enumerate() {
                        *x = if i % 2 == 0 { a } else { b.wrapping_add(i as u8) };
                    }
                    FailEntropy::from_byte_array(d)
                } else {
                    FailEntropy::ZERO
                };
                Policy::Unsatisfiable(e)
            }
            2 => Policy::Key(self.key(src)),
            3 => Policy::Sha256(self.hash(src)),
            4 => Policy::After(self.after(src)),
            _ => Policy::Older(self.older(src)),
        }
    }

    /// A policy tree of depth <= MAX_DEPTH (the root is at depth 0).
    pub fn tree(&mut self, src: &mut Src, depth: usize) -> Pol {
        self.nodes += 1;
        if depth >= MAX_DEPTH || self.nodes >= self.max_nodes {
            return self.leaf(src);
        }
        if self.leaves_under_and_or {
            return self.tree_flat(src, depth);
        }
        let leaf_w = if depth == 0 { 1 } else { 3 + 3 * depth as u32 };
        match src.weighted(&[leaf_w, 4, 5, 5]) {
            0 => self.leaf(src),
            1 => {
                let left = Arc::new(self.tree(src, depth + 1));
                let right = Arc::new(self.tree(src, depth + 1));
                Policy::And { left, right }
            }
            2 => {
                let left = Arc::new(self.tree(src, depth + 1));
                let right = Arc::new(self.tree(src, depth + 1));
                Policy::Or { left, right }
            }
            _ => {
                let n = 1 + src.weighted(&[1, 3, 4, 2, 1]);
                let k = src.range(1, n);
                let subs = (0..n).map(|_| self.tree(src, depth + 1)).collect();
                Policy::Threshold(k, subs)
            }
        }
    }
}

impl PolicyGen {
    /// Like `tree`, but the children of and / or nodes are leaves.
    fn tree_flat(&mut self, src: &mut Src, depth: usize) -> Pol {
        let leaf_w = if depth == 0 { 1 } else { 2 + 2 * depth as u32 };
        match src.weighted(&[leaf_w, 3, 3, 7]) {
            0 => self.leaf(src),
            c @ (1 | 2) => {
                self.nodes += 2;
                let left = Arc::new(self.leaf(src));
                let right = Arc::new(self.leaf(src));
                if c == 1 {
                    Policy::And { left, right }
                } else {
                    Policy::Or { left, right }
                }
            }
            _ => {
                let n = 1 + src.weighted(&[1, 3, 4, 2, 1]);
                let k = src.range(1, n);
                let subs = (0..n).map(|_| self.tree(src, depth + 1)).collect();
                Policy::Threshold(k, subs)
            }
        }
    }
}

/// A reordering of the children of every and / or / threshold node, at every depth.
/// The zero stream gives the identity.
pub fn permute(p: &Pol, src: &mut Src) -> Pol {
    match p {
        Policy::And { left, right } => {
            let l = Arc::new(permute(left, src));
            let r = Arc::new(permute(right, src));
            if src.bool() {
                Policy::And { left: r, right: l }
            } else {
                Policy::And { left: l, right: r }
            }
        }
        Policy::Or { left, right } => {
            let l = Arc::new(permute(left, src));
            let r = Arc::new(permute(right, src));
            if src.bool() {
                Policy::Or { left: r, right: l }
            } else {
                Policy::Or { left: l, right: r }
            }
        }
        Policy::Threshold(k, subs) => {
            let mut s: Vec<Pol> = subs.iter().map(|x| permute(x, src)).collect();
            for i in (1..s.len()).rev() {
                let j = i - src.below(i + 1);
                s.swap(i, j);
            }
            Policy::Threshold(*k, s)
        }
        leaf => leaf.clone(),
    }
}

/// The lock-time relevant settings of the environment.
#[derive(Clone, Debug, PartialEq, Eq)]
pub struct EnvCfg {
    pub version: u32,
    pub lock_time: u32,
    /// sequence numbers of the inputs (one or two inputs)
    pub sequences: Vec<u32>,
    /// index of the input being spent
    pub ix: usize,
}

fn around(src: &mut Src, v: u32) -> u32 {
    match src.below(3) {
        0 => v,
        1 => v.wrapping_sub(1),
        _ => v.wrapping_add(1),
    }
}

fn gen_sequence(src: &mut Src, olders: &[u16]) -> u32 {
    let o = if olders.is_empty() { src.range(0, 20) as u32 } else { olders[src.below(olders.len())] as u32 };
    match src.weighted(&[2, 10, 3, 2, 2, 2, 2, 2]) {
        0 => 0,
        1 => around(src, o),
        2 => 0xffff_ffff,
        3 => 0xffff_fffe,
        4 => (1 << 31) | around(src, o),
        5 => (1 << 22) | around(src, o),
        6 => around(src, o) | ((src.u16() as u32 & 0x7fbf) << 16),
        _ => src.u32(),
    }
}

pub fn gen_env_cfg(src: &mut Src, afters: &[u32], olders: &[u16]) -> EnvCfg {
    let a = if afters.is_empty() { src.range(0, 20) as u32 } else { afters[src.below(afters.len())] };
    let lock_time = match src.weighted(&[2, 10, 2, 1, 2]) {
        0 => 0,
        1 => around(src, a),
        2 => src.below(500_000_000) as u32,
        3 => MAX_AFTER,
        _ => match src.below(3) {
            0 => 500_000_000,
            1 => 500_000_000u32.wrapping_add(a),
            _ => u32::MAX,
        },
    };
    let cur = gen_sequence(src, olders);
    let version = [2u32, 2, 2, 2, 2, 2, 1, 3][src.below(8)];
    let (sequences, ix) = if src.chance(64) {
        let other = gen_sequence(src, olders);
        if src.bool() {
            (vec![other, cur], 1)
        } else {
            (vec![cur, other], 0)
        }
    } else {
        (vec![cur], 0)
    };
    EnvCfg { version, lock_time, sequences, ix }
}

/// Like `gen::env::dummy_env_with`, with a chosen version and one or two inputs.
pub fn build_env(cfg: &EnvCfg) -> ElementsTxEnv {
    let input: Vec<elements::TxIn> = cfg
        .sequences
        .iter()
        .enumerate()
        .map(|(i, s)| elements::TxIn {
            previous_output: elements::OutPoint { txid: elements::OutPoint::default().txid, vout: i as u32 },
            is_pegin: false,
            script_sig: elements::Script::new(),
            sequence: elements::Sequence(*s),
            asset_issuance: AssetIssuance::default(),
            witness: elements::TxInWitness::default(),
        })
        .collect();
    let utxos = cfg
        .sequences
        .iter()
        .map(|_| ElementsUtxo { script_pubkey: elements::Script::new(), asset: confidential::Asset::Null, value: confidential::Value::Null })
        .collect();
    ElementsEnv::new(
        Arc::new(elements::Transaction { version: cfg.version, lock_time: elements::LockTime::from_consensus(cfg.lock_time), input, output: Vec::default() }),
        utxos,
        cfg.ix as u32,
        Cmr::from_byte_array([0; 32]),
        ControlBlock::from_slice(&CTRL_BLK).expect("control block"),
        None,
        elements::BlockHash::GENESIS_PREVIOUS_BLOCK_HASH,
    )
}
