//! G-text: source texts of the human-readable encoding.
//!
//! `gen_text` prints a program IR (`gen::prog::Prog`) as a source text in a style that is
//! deliberately different from what `Forest::string_serialize` emits: sub-expressions are inlined
//! (optionally in parentheses), only some nodes get a line of their own, names are user-style
//! names, lines are shuffled, type ascriptions are partial (`_`, type variables, a separate
//! `name : A -> B` line), comments and odd white space are sprinkled in.  Only constructs the
//! parser documents (src/human_encoding/parse/ast.rs) are used.
//!
//! `soup` / `deep_nesting` / `mutate_text` produce arbitrary and nearly-valid strings.

use crate::engine::{hex, Src};
use crate::gen::prog::{Family, Id, Ir, JetRef, Prog};
use crate::model::layout::{RTy, RTyKind};
use std::collections::{HashMap, HashSet};
use std::sync::Arc;

pub const KEYWORDS: &[&str] = &["const", "assertl", "assertr", "fail", "disconnect", "case", "comp", "pair", "injl", "injr", "take", "drop", "unit", "iden", "witness"];

/// Name prefixes that `Namer::assign_name` uses for sub-expressions without a name of their own.
pub const AUTO_PREFIXES: &[&str] = &["id", "ut", "jl", "jr", "dp", "tk", "cp", "cs", "asstl", "asstr", "pr", "disc", "wit", "FAIL", "jt", "const"];

#[derive(Default, Debug, Clone)]
pub struct TextInfo {
    pub lines: usize,
    pub inline_nodes: usize,
    pub duplicated_inline: bool,
    pub literal_cmr: bool,
    pub expr_cmr: bool,
    pub ascriptions: usize,
    pub type_lines: usize,
    pub aliases: usize,
    pub comments: usize,
    pub parens: usize,
    pub auto_shaped_names: bool,
    pub shuffled: bool,
    pub deduped: bool,
}

// -------------------------------------------------------------------------------------------
// Types
// -------------------------------------------------------------------------------------------

/// Print a type in the parser's grammar; `None` if the text would exceed `budget` characters.
pub fn print_type(src: &mut Src, t: &Arc<RTy>, budget: usize) -> Option<String> {
    let mut out = String::new();
    if ty(src, t, true, &mut out, budget) {
        Some(out)
    } else {
        None
    }
}

fn ty(src: &mut Src, t: &Arc<RTy>, bare_ok: bool, out: &mut String, budget: usize) -> bool {
    if out.len() > budget {
        return false;
    }
    if let Some(n) = t.as_word() {
        if n == 0 {
            out.push_str(["2", "2", "(1 + 1)", "2^1"][src.below(4)]);
            return true;
        }
        if n <= 9 && !src.chance(16) {
            out.push_str(&format!("2^{}", 1u64 << n));
            return true;
        }
        // wider than 2^512 (no literal form), or deliberately expanded one level
    }
    match &t.kind {
        RTyKind::Unit => {
            out.push('1');
            true
        }
        RTyKind::Sum(a, b) | RTyKind::Prod(a, b) => {
            let op = if matches!(t.kind, RTyKind::Sum(..)) { " + " } else { " * " };
            let bare = bare_ok && src.chance(128);
            if !bare {
                out.push('(');
            }
            // `+` and `*` are left-associative with equal precedence: a compound left operand may
            // be written without its own parentheses
            if !ty(src, a, true, out, budget) {
                return false;
            }
            out.push_str(if src.chance(24) { op.trim() } else { op });
            if !ty(src, b, false, out, budget) {
                return false;
            }
            if !bare {
                out.push(')');
            }
            out.len() <= budget
        }
    }
}

// -------------------------------------------------------------------------------------------
// Names
// -------------------------------------------------------------------------------------------

pub fn is_legal_name(s: &str) -> bool {
    let mut ch = s.chars();
    let first_ok = matches!(ch.next(), Some(c) if c.is_ascii_alphabetic() || c == '_' || c == '.' || c == '\'');
    first_ok
        && s.chars().all(|c| c.is_ascii_alphanumeric() || matches!(c, '_' | '-' | '.' | '\''))
        && s != "_"
        && s != "main"
        && !s.starts_with("prim")
        && !KEYWORDS.contains(&s)
        && !(s.starts_with("jet_") && s.len() > 4 && s[4..].chars().all(|c| c.is_ascii_lowercase() || c.is_ascii_digit() || c == '_'))
}

struct Names {
    used: HashSet<String>,
    style: usize,
    counter: usize,
}

impl Names {
    fn fresh(&mut self, src: &mut Src, kind: &str) -> String {
        for attempt in 0..50 {
            self.counter += 1;
            let k = self.counter;
            let cand = match self.style {
                0 => {
                    // a, b, .., z, ba, bb, ..
                    let mut s = String::new();
                    let mut v = k - 1;
                    loop {
                        s.insert(0, (b'a' + (v % 26) as u8) as char);
                        v /= 26;
                        if v == 0 {
                            break;
                        }
                    }
                    s
                }
                1 => format!("{}{}", ["n", "x_", "E", "node-", "v."][src.below(5)], k),
                2 => {
                    let first = b"abcqXYZ_.'";
                    let rest = b"abz019_-.'K";
                    let mut s = String::new();
                    s.push(first[src.below(first.len())] as char);
                    for _ in 0..src.below(6) {
                        s.push(rest[src.below(rest.len())] as char);
                    }
                    s
                }
                3 => format!("{}_{}", kind.to_uppercase(), k),
                _ => {
                    // shaped like the names the library invents for unnamed sub-expressions
                    format!("{}{}", AUTO_PREFIXES[src.below(AUTO_PREFIXES.len())], 1 + src.below(6))
                }
            };
            let cand = if attempt > 20 { format!("{}{}", cand, k) } else { cand };
            if is_legal_name(&cand) && !self.used.contains(&cand) {
                self.used.insert(cand.clone());
                return cand;
            }
        }
        let s = format!("fallback{}", self.counter);
        self.used.insert(s.clone());
        s
    }
}

// -------------------------------------------------------------------------------------------
// Program text
// -------------------------------------------------------------------------------------------

struct Printer<'p> {
    prog: &'p Prog,
    named: Vec<bool>,
    /// what a parent writes to refer to a named node (its name, or an alias of it)
    refer: HashMap<Id, String>,
    p_paren: u32,
    p_expr_cmr: u32,
    odd_space: bool,
    names: Names,
    info: TextInfo,
}

const CMR_PALETTE: &[&str] = &["unit", "iden", "comp iden iden", "take unit", "injl unit", "pair unit iden", "(drop iden)", "witness", "comp (pair iden unit) (take iden)"];

impl<'p> Printer<'p> {
    fn sp(&self, src: &mut Src, out: &mut String) {
        if self.odd_space && src.chance(40) {
            out.push_str(["  ", "\t", "\n    ", " \n", "\r\n  "][src.below(5)]);
        } else {
            out.push(' ');
        }
    }

    fn child(&mut self, src: &mut Src, id: Id, out: &mut String) {
        if self.named[id] {
            let r = self.refer[&id].clone();
            if src.chance(self.p_paren / 4) {
                self.info.parens += 1;
                out.push('(');
                out.push_str(&r);
                out.push(')');
            } else {
                out.push_str(&r);
            }
        } else {
            self.info.inline_nodes += 1;
            self.body(src, id, out);
        }
    }

    fn cmr(&mut self, src: &mut Src, h: &[u8; 32], out: &mut String) {
        if src.chance(self.p_expr_cmr) {
            self.info.expr_cmr = true;
            out.push_str("#{");
            if src.bool() {
                out.push(' ');
            }
            out.push_str(CMR_PALETTE[src.below(CMR_PALETTE.len())]);
            if src.bool() {
                out.push(' ');
            }
            out.push('}');
        } else {
            self.info.literal_cmr = true;
            out.push('#');
            let s = hex(h);
            if src.chance(40) {
                out.push_str(&s.to_uppercase());
            } else {
                out.push_str(&s);
            }
        }
    }

    /// The defining expression of node `id` (never just its name).
    fn body(&mut self, src: &mut Src, id: Id, out: &mut String) {
        let nullary = matches!(self.prog.nodes[id], Ir::Iden | Ir::Unit | Ir::Witness | Ir::Jet(_));
        let paren = src.chance(if nullary { self.p_paren / 4 } else { self.p_paren });
        let double = paren && src.chance(20);
        if paren {
            self.info.parens += 1;
            out.push('(');
            if double {
                out.push('(');
            }
        }
        match self.prog.nodes[id].clone() {
            Ir::Iden => out.push_str("iden"),
            Ir::Unit => out.push_str("unit"),
            Ir::Witness => out.push_str("witness"),
            Ir::InjL(c) | Ir::InjR(c) | Ir::Take(c) | Ir::Drop(c) => {
                out.push_str(self.prog.nodes[id].kind());
                self.sp(src, out);
                self.child(src, c, out);
            }
            Ir::Comp(a, b) | Ir::Case(a, b) | Ir::Pair(a, b) => {
                out.push_str(self.prog.nodes[id].kind());
                self.sp(src, out);
                self.child(src, a, out);
                self.sp(src, out);
                self.child(src, b, out);
            }
            Ir::AssertL(c, h) => {
                out.push_str("assertl");
                self.sp(src, out);
                self.child(src, c, out);
                self.sp(src, out);
                self.cmr(src, &h, out);
            }
            Ir::AssertR(h, c) => {
                out.push_str("assertr");
                self.sp(src, out);
                self.cmr(src, &h, out);
                self.sp(src, out);
                self.child(src, c, out);
            }
            Ir::Disconnect(a, b) => {
                out.push_str("disconnect");
                self.sp(src, out);
                self.child(src, a, out);
                self.sp(src, out);
                match b {
                    Some(b) => self.child(src, b, out),
                    None => {
                        out.push('?');
                        if src.chance(20) {
                            out.push(' ');
                        }
                        let h = self.names.fresh(src, "hole");
                        out.push_str(&h);
                    }
                }
            }
            Ir::Fail(e) => {
                out.push_str("fail");
                self.sp(src, out);
                match src.below(4) {
                    0 => {
                        out.push_str("0x");
                        out.push_str(&hex(&e));
                    }
                    1 => {
                        out.push_str("0x");
                        out.push_str(&hex(&e[..32]));
                    }
                    2 => {
                        out.push_str("0x");
                        let n = 32 + src.below(97); // 128 .. 512 bits
                        out.push_str(&hex(&e)[..n]);
                    }
                    _ => {
                        out.push_str("0b");
                        let n = 128 + src.below(64);
                        for i in 0..n {
                            out.push(if (e[i / 8] >> (7 - i % 8)) & 1 == 1 { '1' } else { '0' });
                        }
                    }
                }
            }
            Ir::Word(n, bits) => {
                out.push_str("const");
                self.sp(src, out);
                let len = 1usize << n;
                if len >= 4 && !(len <= 32 && src.chance(60)) {
                    out.push_str("0x");
                    for nib in bits.chunks(4) {
                        let v = nib.iter().fold(0u32, |a, b| a * 2 + *b as u32);
                        out.push(std::char::from_digit(v, 16).unwrap());
                    }
                } else {
                    out.push_str("0b");
                    out.push_str(&crate::model::bits::bits_to_string(&bits));
                }
            }
            Ir::Jet(j) => {
                out.push_str("jet_");
                out.push_str(&j.name());
            }
        }
        if paren {
            if double {
                out.push(')');
            }
            out.push(')');
        }
    }
}

fn comment(src: &mut Src) -> String {
    let palette = ["", " CMR: c40a10263f7436b4", " main := unit", " --", " ü → ×", " )(", " 0x", " #{", "\t?"];
    format!("--{}", palette[src.below(palette.len())])
}

/// Merge witness-free nodes that are equal as typed expressions (same combinator, payload,
/// merged children and final arrow), i.e. the nodes that have equal identity roots.  Ids are
/// kept; merged-away nodes become unreachable.  The final types of the merged program are those
/// of the original (two nodes are only identified when their final arrows agree).
pub fn dedupe(prog: &Prog, arrows: &HashMap<Id, (Arc<RTy>, Arc<RTy>)>) -> Prog {
    let n = prog.nodes.len();
    let mut rep: Vec<Id> = (0..n).collect();
    let mut has_wd = vec![false; n];
    let mut nodes = prog.nodes.clone();
    let mut seen: HashMap<(String, Option<Id>, Option<Id>, u64, u64), Id> = HashMap::new();
    for i in prog.reachable() {
        let r = |c: Id| rep[c];
        let ir = match prog.nodes[i].clone() {
            Ir::InjL(c) => Ir::InjL(r(c)),
            Ir::InjR(c) => Ir::InjR(r(c)),
            Ir::Take(c) => Ir::Take(r(c)),
            Ir::Drop(c) => Ir::Drop(r(c)),
            Ir::Comp(a, b) => Ir::Comp(r(a), r(b)),
            Ir::Case(a, b) => Ir::Case(r(a), r(b)),
            Ir::Pair(a, b) => Ir::Pair(r(a), r(b)),
            Ir::AssertL(c, h) => Ir::AssertL(r(c), h),
            Ir::AssertR(h, c) => Ir::AssertR(h, r(c)),
            Ir::Disconnect(a, b) => Ir::Disconnect(r(a), b.map(r)),
            other => other,
        };
        let (a, b) = ir.children();
        has_wd[i] = matches!(ir, Ir::Witness | Ir::Disconnect(..)) || a.map(|c| has_wd[c]).unwrap_or(false) || b.map(|c| has_wd[c]).unwrap_or(false);
        let payload = match &ir {
            Ir::Word(k, bits) => format!("word {} {}", k, crate::model::bits::bits_to_string(bits)),
            Ir::Jet(j) => format!("jet {}", j.name()),
            Ir::AssertL(_, h) => format!("assertl {}", hex(h)),
            Ir::AssertR(h, _) => format!("assertr {}", hex(h)),
            Ir::Fail(e) => format!("fail {}", hex(e)),
            other => other.kind().to_string(),
        };
        nodes[i] = ir;
        if has_wd[i] {
            continue;
        }
        if let Some((s, t)) = arrows.get(&i) {
            let key = (payload, a, b, s.hash, t.hash);
            match seen.get(&key) {
                Some(&first) => rep[i] = first,
                None => {
                    seen.insert(key, i);
                }
            }
        }
    }
    Prog { nodes, root: rep[prog.root], family: prog.family }
}

/// Print `prog` (a 1 -> 1 program whose nodes' principal arrows are `arrows`) as a source text
/// with the single root `main`.
pub fn gen_text(src: &mut Src, prog: &Prog, arrows: &HashMap<Id, (Arc<RTy>, Arc<RTy>)>) -> (String, TextInfo) {
    let merged;
    let mut deduped = false;
    let prog = if src.chance(128) {
        merged = dedupe(prog, arrows);
        deduped = true;
        &merged
    } else {
        prog
    };
    let n = prog.nodes.len();
    let reach = prog.reachable();
    let indeg = prog.in_degrees();
    // witness/disconnect below? tree size?
    let mut has_wd = vec![false; n];
    let mut tsize = vec![1usize; n];
    for &i in &reach {
        let (a, b) = prog.nodes[i].children();
        let mut wd = matches!(prog.nodes[i], Ir::Witness | Ir::Disconnect(..));
        let mut sz = 1usize;
        for c in [a, b].into_iter().flatten() {
            wd |= has_wd[c];
            sz = sz.saturating_add(tsize[c]);
        }
        has_wd[i] = wd;
        tsize[i] = sz;
    }
    // style parameters (zero stream: everything inline, no decoration)
    let p_named = [0u32, 40, 110, 200, 256][src.below(5)];
    let p_paren = [0u32, 30, 90, 200][src.below(4)];
    let p_ascribe = [0u32, 40, 128, 256][src.below(4)];
    let p_dup = [0u32, 0, 80, 220][src.below(4)];
    let p_alias = [0u32, 0, 30][src.below(3)];
    let p_comment = [0u32, 0, 40, 128][src.below(4)];
    let p_expr_cmr = [256u32, 256, 200, 128, 0][src.below(5)];
    let odd_space = src.chance(64);
    let shuffle = src.chance(176);
    let name_style = src.weighted(&[8, 6, 6, 4, 3]);

    let mut named = vec![false; n];
    let mut info = TextInfo { deduped, ..TextInfo::default() };
    for &i in &reach {
        named[i] = if i == prog.root {
            true
        } else if indeg[i] >= 2 {
            if !has_wd[i] && tsize[i] <= 5 && src.chance(p_dup) {
                info.duplicated_inline = true;
                false
            } else {
                true
            }
        } else {
            src.chance(p_named)
        };
    }
    let mut names = Names { used: HashSet::new(), style: name_style, counter: 0 };
    names.used.insert("main".into());
    info.auto_shaped_names = name_style == 4;
    let mut own: HashMap<Id, String> = HashMap::new();
    let mut refer: HashMap<Id, String> = HashMap::new();
    let mut alias_lines: Vec<String> = vec![];
    for &i in &reach {
        if !named[i] {
            continue;
        }
        if i == prog.root {
            own.insert(i, "main".into());
            continue;
        }
        let nm = names.fresh(src, prog.nodes[i].kind());
        if indeg[i] == 1 && src.chance(p_alias) {
            // the single reference goes through an alias line; the node then carries the alias
            let al = names.fresh(src, "alias");
            alias_lines.push(format!("{} := {}", al, nm));
            refer.insert(i, al);
            info.aliases += 1;
        } else {
            refer.insert(i, nm.clone());
        }
        own.insert(i, nm);
    }
    let mut pr = Printer { prog, named, refer, p_paren, p_expr_cmr, odd_space, names, info };
    let mut lines: Vec<String> = alias_lines;
    for &i in &reach {
        if !pr.named[i] {
            continue;
        }
        let name = own[&i].clone();
        let mut line = String::new();
        line.push_str(&name);
        line.push_str(if src.chance(230) { " := " } else { ":=" });
        pr.body(src, i, &mut line);
        let mut arrow: Option<String> = None;
        if src.chance(p_ascribe) {
            if let Some((s, t)) = arrows.get(&i) {
                let side = |src: &mut Src, t: &Arc<RTy>| -> String {
                    match src.weighted(&[10, 3, 1]) {
                        0 => print_type(src, t, 160).unwrap_or_else(|| "_".into()),
                        1 => "_".into(),
                        _ => ["T", "a'", "ty.1", "B"][src.below(4)].into(),
                    }
                };
                let (a, b) = (side(src, s), side(src, t));
                arrow = Some(format!("{} -> {}", a, b));
            }
        }
        if let Some(a) = arrow {
            pr.info.ascriptions += 1;
            if src.chance(50) {
                // separate type declaration line
                pr.info.type_lines += 1;
                lines.push(format!("{} : {}", name, a));
            } else {
                line.push_str(" : ");
                line.push_str(&a);
            }
        }
        if src.chance(p_comment) {
            pr.info.comments += 1;
            line.push(' ');
            line.push_str(&comment(src));
        }
        lines.push(line);
    }
    if shuffle && lines.len() > 1 {
        pr.info.shuffled = true;
        for i in (1..lines.len()).rev() {
            let j = src.below(i + 1);
            lines.swap(i, j);
        }
    }
    pr.info.lines = lines.len();
    let mut text = String::new();
    if src.chance(p_comment) {
        pr.info.comments += 1;
        text.push_str(&comment(src));
        text.push('\n');
    }
    for (k, l) in lines.iter().enumerate() {
        text.push_str(l);
        // a line comment must be closed by a newline; otherwise any white space separates lines
        if l.contains("--") || !src.chance(20) {
            text.push('\n');
            if src.chance(30) {
                text.push('\n');
            }
        } else {
            text.push_str("   ");
        }
        let _ = k;
    }
    (text, pr.info)
}

// -------------------------------------------------------------------------------------------
// Arbitrary strings
// -------------------------------------------------------------------------------------------

/// One token (or near-token) of the lexer's vocabulary.
pub fn soup_token(src: &mut Src, family: Family, jets: &[JetRef]) -> String {
    let _ = family;
    match src.weighted(&[20, 16, 8, 6, 6, 4, 4, 4, 3, 3, 2]) {
        0 => [":=", "->", "#{", "(", ")", "+", "*", ":", "}", "?", "_", "1", "2", "main", ":=", "(", ")"][src.below(17)].to_string(),
        1 => KEYWORDS[src.below(KEYWORDS.len())].to_string(),
        2 => {
            // names
            match src.below(6) {
                0 => "main".into(),
                1 => ["a", "b", "x1", "wit1", "ut1", "prim2", "E'", ".", "-", "a--b", "Const", "unitx", "jet"][src.below(13)].into(),
                _ => {
                    let chars = b"abcxyzABZ019_-.'";
                    let mut s = String::new();
                    s.push(chars[src.below(9)] as char);
                    for _ in 0..src.below(5) {
                        s.push(chars[src.below(chars.len())] as char);
                    }
                    s
                }
            }
        }
        3 => {
            if jets.is_empty() || src.chance(40) {
                ["jet_", "jet_bogus", "jet_add_8x", "jet_ADD", "jet__", "jet_0"][src.below(6)].into()
            } else {
                format!("jet_{}", jets[src.below(jets.len())].name())
            }
        }
        4 => {
            // literals
            match src.below(8) {
                0 => "0b0".into(),
                1 => "0b10".into(),
                2 => format!("0x{}", hex(&src.bytes(1))),
                3 => format!("0x{}", hex(&src.bytes(4))),
                4 => format!("0x{}", hex(&src.bytes(16))),
                5 => format!("0x{}", hex(&src.bytes(64))),
                6 => format!("0x{}", hex(&src.bytes(65))),
                _ => ["0x", "0b", "0b012", "0xABCD", "0xabc", "0b101", "0", "3", "00"][src.below(9)].into(),
            }
        }
        5 => {
            // CMR literals (right and wrong lengths), alone or where the grammar wants one
            let lit = match src.below(6) {
                0 => format!("#{}", hex(&src.bytes(32))),
                1 => format!("#{}", hex(&src.bytes(32)).to_uppercase()),
                2 => format!("#{}", hex(&src.bytes(31))),
                3 => format!("#{}", hex(&src.bytes(33))),
                4 => format!("#{}{}", hex(&src.bytes(31)), ["", "a", "abc"][src.below(3)]),
                _ => ["#", "#abc", "# {", "#}", "#0", "#abcd1234"][src.below(6)].into(),
            };
            match src.below(4) {
                0 => format!("assertl unit {}", lit),
                1 => format!("assertr {} unit", lit),
                2 => format!("(assertl (take unit) {})", lit),
                _ => lit,
            }
        }
        6 => ["2^1", "2^2", "2^4", "2^8", "2^16", "2^32", "2^64", "2^128", "2^256", "2^512", "2^1024", "2^3", "2^0", "2^01", "2^99999999999", "2^4294967296", "2^", "^", "2^2^2"][src.below(19)].into(),
        7 => format!("{}\n", comment(src)),
        8 => ["--", "-", "->", "- >", ": =", "::", "=", ";", ",", "{", "[", "\"", "\\", "/*", "\0"][src.below(15)].into(),
        9 => ["é", "×", "→", "\u{feff}", "\u{2028}", "𝔘", "１", "\u{0301}"][src.below(8)].into(),
        _ => {
            let n = 1 + src.below(4);
            String::from_utf8_lossy(&src.bytes(n)).into_owned()
        }
    }
}

pub fn soup(src: &mut Src, family: Family, jets: &[JetRef], max_tokens: usize) -> String {
    let n = src.below(max_tokens + 1);
    let tight = src.chance(40);
    let mut s = String::new();
    for _ in 0..n {
        s.push_str(&soup_token(src, family, jets));
        if tight && src.bool() {
            continue;
        }
        s.push_str([" ", " ", " ", "\n", "\t", "  ", "\r\n", ""][src.below(8)]);
    }
    s
}

/// Nesting depth for the deep-nesting shapes: mostly small, up to 10_000.
pub fn nesting_depth(src: &mut Src) -> usize {
    if src.chance(10) {
        return 4096 + src.below(5905); // 4096 ..= 10_000 (seconds per case: kept rare)
    }
    let e = src.below(12); // 2^0 .. 2^11
    (1usize << e) + src.below(1usize << e)
}

/// Deeply nested texts.  Returns (shape name, text).
pub fn deep_nesting(src: &mut Src, d: usize) -> (&'static str, String) {
    let rep = |s: &str, n: usize| s.repeat(n);
    match src.below(15) {
        0 => ("nest: balanced parentheses around an expression", format!("main := {}unit{}", rep("(", d), rep(")", d))),
        1 => ("nest: unbalanced open parentheses", format!("main := {}unit", rep("(", d))),
        2 => ("nest: parentheses in a type", format!("main := unit : {}1{} -> 1", rep("(", d), rep(")", d))),
        3 => ("nest: unbalanced parentheses in a type", format!("main := unit : {}1", rep("(", d))),
        4 => ("nest: injl chain", format!("main := comp {}unit unit", rep("injl ", d))),
        5 => ("nest: take chain", format!("main := {}unit", rep("take ", d))),
        6 => ("nest: comp chain", format!("main := {}unit", rep("comp iden ", d))),
        7 => ("nest: pair chain", format!("main := comp {}unit unit", rep("pair unit ", d))),
        8 => ("nest: nested CMR expressions", format!("main := comp (pair (injl unit) unit) {}unit{}", rep("assertl unit #{", d), rep("}", d))),
        9 => {
            // chain of references a0 := a1, a1 := a2, ...
            let mut s = String::from("main := a0\n");
            for i in 0..d {
                s.push_str(&format!("a{} := a{}\n", i, i + 1));
            }
            s.push_str(&format!("a{} := unit\n", d));
            ("nest: reference chain", s)
        }
        10 => ("nest: left-nested product type", format!("main := unit : 1{} -> 1", rep(" * 1", d))),
        11 => ("nest: closing parentheses only", format!("main := unit{}", rep(")", d))),
        // the parser's witness/disconnect path count keeps one map per node: quadratic memory
        // (2 GiB at depth 10_000), so these two shapes stop at 3000
        12 => ("nest: disconnect chain", format!("main := comp {}iden{} unit", rep("disconnect ", d.min(3000)), rep(" ?h", d.min(3000)))),
        13 => ("nest: witness chain", format!("main := comp {}unit unit", rep("pair witness ", d.min(3000)))),
        _ => ("nest: parenthesised injr chain", format!("main := comp {}unit{} unit", rep("(injr ", d), rep(")", d))),
    }
}

/// 1..3 small edits of a (well-formed) text.
pub fn mutate_text(src: &mut Src, text: &str, family: Family, jets: &[JetRef]) -> String {
    let mut toks: Vec<String> = text.split_inclusive(|c: char| c == ' ' || c == '\n').map(|s| s.to_string()).collect();
    let k = 1 + src.below(3);
    for _ in 0..k {
        if toks.is_empty() {
            toks.push(soup_token(src, family, jets));
            continue;
        }
        let i = src.below(toks.len());
        match src.below(7) {
            0 => {
                toks.remove(i);
            }
            1 => {
                let t = toks[i].clone();
                toks.insert(i, t);
            }
            2 => {
                let j = src.below(toks.len());
                toks.swap(i, j);
            }
            3 => {
                toks[i] = format!("{} ", soup_token(src, family, jets));
            }
            4 => {
                let t = format!("{} ", soup_token(src, family, jets));
                toks.insert(i, t);
            }
            5 => {
                toks.truncate(i);
            }
            _ => {
                // drop one character of a token
                let t = &toks[i];
                let n = t.chars().count();
                if n > 0 {
                    let d = src.below(n);
                    toks[i] = t.chars().enumerate().filter(|(q, _)| *q != d).map(|(_, c)| c).collect();
                }
            }
        }
    }
    toks.concat()
}

/// Rough token count: white-space separated pieces plus punctuation characters.
pub fn approx_tokens(s: &str) -> usize {
    let pieces = s.split_whitespace().count();
    let punct = s.chars().filter(|c| matches!(c, '(' | ')' | '+' | '*' | '?' | '}' | '#')).count();
    pieces + punct
}
