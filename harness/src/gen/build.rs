//! Two-pass materialisation of a program IR as a redemption program.
//!
//! Pass 1 builds the IR with empty witnesses in a fresh context, finalises the types and reads
//! every node's *actual* (principal, free variables := unit) arrow.  Witness values are then
//! generated for the actual target types and pass 2 rebuilds the identical IR in another fresh
//! context with the values attached.

use super::prog::{materialize, Id, Ir, Prog};
use super::types::from_final;
use super::values::{gen_val, Trace, ValBuilder};
use crate::engine::Src;
use crate::model::layout::{RTy, RVal};
use simplicity::types;
use simplicity::{CommitNode, RedeemNode, Value};
use std::collections::HashMap;
use std::sync::Arc;

pub struct Typed {
    /// actual arrows of every reachable node (by IR id)
    pub arrows: HashMap<Id, (Arc<RTy>, Arc<RTy>)>,
    pub commit: Arc<CommitNode>,
}

#[derive(Debug)]
pub enum BuildError {
    /// the library rejected the generated IR during construction or type finalisation
    Type(String),
    Finalize(String),
}

/// Pass 1: construct without witnesses, finalise types.  `program`: force the root to 1 -> 1.
pub fn type_check(prog: &Prog, program: bool) -> Result<Typed, BuildError> {
    types::Context::with_context(|ctx| {
        let built = materialize(&ctx, prog, &HashMap::new()).map_err(|e| BuildError::Type(format!("construction: {}", e)))?;
        let root = built[prog.root].clone().expect("root built");
        let commit = if program { root.finalize_types() } else { root.finalize_types_non_program() }.map_err(|e| BuildError::Type(format!("finalize_types: {}", e)))?;
        let mut arrows = HashMap::new();
        for i in prog.reachable() {
            let n = built[i].as_ref().unwrap();
            let a = n.arrow().finalize().map_err(|e| BuildError::Type(format!("node {} arrow: {}", i, e)))?;
            arrows.insert(i, (from_final(&a.source), from_final(&a.target)));
        }
        Ok(Typed { arrows, commit })
    })
}

pub struct Witnesses {
    pub model: HashMap<Id, RVal>,
    pub values: HashMap<Id, Value>,
    pub types: HashMap<Id, Arc<RTy>>,
    pub histories: Trace,
}

/// Generate a value for every witness node's actual target type.
pub fn gen_witnesses(prog: &Prog, typed: &Typed, src: &mut Src, vb: &mut ValBuilder) -> Witnesses {
    let mut w = Witnesses { model: HashMap::new(), values: HashMap::new(), types: HashMap::new(), histories: Trace::default() };
    for i in prog.reachable() {
        if matches!(prog.nodes[i], Ir::Witness) {
            let ty = typed.arrows[&i].1.clone();
            let rv = gen_val(src, &ty);
            let val = vb.build(src, &ty, &rv, 1, &mut w.histories);
            w.model.insert(i, rv);
            w.values.insert(i, val);
            w.types.insert(i, ty);
        }
    }
    w
}

/// Pass 2: rebuild with witnesses attached and convert to a redemption program (unpruned).
pub fn build_redeem(prog: &Prog, program: bool, witnesses: &HashMap<Id, Value>) -> Result<Arc<RedeemNode>, BuildError> {
    types::Context::with_context(|ctx| {
        let built = materialize(&ctx, prog, witnesses).map_err(|e| BuildError::Type(format!("construction (pass 2): {}", e)))?;
        let root = built[prog.root].clone().expect("root built");
        if program {
            root.set_arrow_to_program().map_err(|e| BuildError::Type(format!("set_arrow_to_program: {}", e)))?;
        }
        root.finalize_unpruned().map_err(|e| BuildError::Finalize(format!("{}", e)))
    })
}
