//! G-env: Elements transaction environments.

use simplicity::elements::{self, confidential, taproot::ControlBlock, AssetIssuance};
use simplicity::jet::elements::{ElementsEnv, ElementsUtxo};
use simplicity::jet::ElementsTxEnv;
use simplicity::Cmr;
use std::sync::Arc;

pub const CTRL_BLK: [u8; 33] = [
    0xc0, 0xeb, 0x04, 0xb6, 0x8e, 0x9a, 0x26, 0xd1, 0x16, 0x04, 0x6c, 0x76, 0xe8, 0xff, 0x47, 0x33, 0x2f, 0xb7, 0x1d, 0xda, 0x90, 0xff, 0x4b, 0xef, 0x53, 0x70, 0xf2, 0x52, 0x26, 0xd3, 0xbc, 0x09, 0xfc,
];

/// The minimal environment used where the environment does not matter (one input, no outputs).
pub fn dummy_env() -> ElementsTxEnv {
    dummy_env_with(elements::LockTime::ZERO, elements::Sequence::MAX)
}

pub fn dummy_env_with(lock_time: elements::LockTime, sequence: elements::Sequence) -> ElementsTxEnv {
    ElementsEnv::new(
        Arc::new(elements::Transaction {
            version: 2,
            lock_time,
            input: vec![elements::TxIn {
                previous_output: elements::OutPoint::default(),
                is_pegin: false,
                script_sig: elements::Script::new(),
                sequence,
                asset_issuance: AssetIssuance::default(),
                witness: elements::TxInWitness::default(),
            }],
            output: Vec::default(),
        }),
        vec![ElementsUtxo { script_pubkey: elements::Script::new(), asset: confidential::Asset::Null, value: confidential::Value::Null }],
        0,
        Cmr::from_byte_array([0; 32]),
        ControlBlock::from_slice(&CTRL_BLK).expect("control block"),
        None,
        elements::BlockHash::GENESIS_PREVIOUS_BLOCK_HASH,
    )
}

/// The k-th of 200 asset ids with pseudo-random bytes (so that the C side's radix sort of the
/// fee outputs recurses over several byte positions).
pub fn fee_asset(k: usize) -> [u8; 32] {
    let mut x = 0x9e37_79b9_7f4a_7c15u64 ^ (k as u64 + 1).wrapping_mul(0x2545_F491_4F6C_DD1D);
    let mut out = [0u8; 32];
    for b in out.iter_mut() {
        x ^= x << 13;
        x ^= x >> 7;
        x ^= x << 17;
        *b = (x >> 32) as u8;
    }
    out
}

/// An environment with `n_out` fee outputs (empty script, explicit asset and value) over 20
/// assets; `tag` goes into the lock time and the values so that two environments with different
/// tags differ in everything a jet can read.
pub fn fee_env(tag: u32, n_out: usize) -> ElementsTxEnv {
    let output: Vec<elements::TxOut> = (0..n_out)
        .map(|i| elements::TxOut {
            asset: confidential::Asset::Explicit(elements::AssetId::from_byte_array(fee_asset((i * 7 + tag as usize) % 200))),
            value: confidential::Value::Explicit(1000 + i as u64 + 100_000 * tag as u64),
            nonce: confidential::Nonce::Null,
            script_pubkey: elements::Script::new(),
            witness: elements::TxOutWitness::default(),
        })
        .collect();
    ElementsEnv::new(
        Arc::new(elements::Transaction {
            version: 2,
            lock_time: elements::LockTime::from_consensus(tag),
            input: vec![elements::TxIn {
                previous_output: elements::OutPoint::default(),
                is_pegin: false,
                script_sig: elements::Script::new(),
                sequence: elements::Sequence::MAX,
                asset_issuance: AssetIssuance::default(),
                witness: elements::TxInWitness::default(),
            }],
            output,
        }),
        vec![ElementsUtxo { script_pubkey: elements::Script::new(), asset: confidential::Asset::Null, value: confidential::Value::Null }],
        0,
        Cmr::from_byte_array([tag as u8; 32]),
        ControlBlock::from_slice(&CTRL_BLK).expect("control block"),
        None,
        elements::BlockHash::GENESIS_PREVIOUS_BLOCK_HASH,
    )
}
