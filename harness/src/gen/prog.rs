//! G-prog: type-directed generation of well-typed program IRs, and their materialisation as
//! library nodes.  The IR is generated first (pure data); library objects are then created
//! exactly once per reachable node, bottom-up, in a fresh `types::Context`, so that the context
//! holds only the program's own nodes.

use super::types::{from_final, gen_ty};
use crate::engine::Src;
use crate::model::cmr;
use crate::model::layout::{RTy, RTyKind, RVal};
use simplicity::jet::{Core, Elements, Jet};
use simplicity::node::{CoreConstructible, DisconnectConstructible, WitnessConstructible};
use simplicity::types;
use simplicity::{Cmr, ConstructNode, FailEntropy, Value, Word};
use std::collections::HashMap;
use std::sync::Arc;

pub type Id = usize;

#[derive(Clone, Copy, Debug, PartialEq, Eq, Hash)]
pub enum JetRef {
    Core(Core),
    Elements(Elements),
}

impl JetRef {
    pub fn name(&self) -> String {
        match self {
            JetRef::Core(j) => j.to_string(),
            JetRef::Elements(j) => j.to_string(),
        }
    }
    pub fn as_dyn(&self) -> &dyn Jet {
        match self {
            JetRef::Core(j) => j,
            JetRef::Elements(j) => j,
        }
    }
    pub fn source(&self) -> Arc<RTy> {
        from_final(&self.as_dyn().source_ty().to_final())
    }
    pub fn target(&self) -> Arc<RTy> {
        from_final(&self.as_dyn().target_ty().to_final())
    }
    pub fn cmr(&self) -> [u8; 32] {
        self.as_dyn().cmr().to_byte_array()
    }
}

#[derive(Clone, Copy, Debug, PartialEq, Eq)]
pub enum Family {
    Core,
    Elements,
}

#[derive(Clone, Debug, PartialEq, Eq)]
pub enum Ir {
    Iden,
    Unit,
    InjL(Id),
    InjR(Id),
    Take(Id),
    Drop(Id),
    Comp(Id, Id),
    Case(Id, Id),
    Pair(Id, Id),
    AssertL(Id, [u8; 32]),
    AssertR([u8; 32], Id),
    Disconnect(Id, Option<Id>),
    Witness,
    Fail([u8; 64]),
    /// 2^n bits
    Word(usize, Vec<bool>),
    Jet(JetRef),
}

impl Ir {
    pub fn children(&self) -> (Option<Id>, Option<Id>) {
        match self {
            Ir::Iden | Ir::Unit | Ir::Witness | Ir::Fail(_) | Ir::Word(..) | Ir::Jet(_) => (None, None),
            Ir::InjL(c) | Ir::InjR(c) | Ir::Take(c) | Ir::Drop(c) | Ir::AssertL(c, _) | Ir::AssertR(_, c) => (Some(*c), None),
            Ir::Comp(a, b) | Ir::Case(a, b) | Ir::Pair(a, b) => (Some(*a), Some(*b)),
            Ir::Disconnect(a, b) => (Some(*a), *b),
        }
    }
    pub fn kind(&self) -> &'static str {
        match self {
            Ir::Iden => "iden",
            Ir::Unit => "unit",
            Ir::InjL(_) => "injl",
            Ir::InjR(_) => "injr",
            Ir::Take(_) => "take",
            Ir::Drop(_) => "drop",
            Ir::Comp(..) => "comp",
            Ir::Case(..) => "case",
            Ir::Pair(..) => "pair",
            Ir::AssertL(..) => "assertl",
            Ir::AssertR(..) => "assertr",
            Ir::Disconnect(_, Some(_)) => "disconnect",
            Ir::Disconnect(_, None) => "disconnect1",
            Ir::Witness => "witness",
            Ir::Fail(_) => "fail",
            Ir::Word(..) => "word",
            Ir::Jet(_) => "jet",
        }
    }
}

#[derive(Clone, Debug)]
pub struct Prog {
    /// topologically ordered: children have smaller ids than parents
    pub nodes: Vec<Ir>,
    pub root: Id,
    pub family: Family,
}

impl Prog {
    /// ids reachable from the root, ascending
    pub fn reachable(&self) -> Vec<Id> {
        let mut seen = vec![false; self.nodes.len()];
        let mut st = vec![self.root];
        while let Some(n) = st.pop() {
            if seen[n] {
                continue;
            }
            seen[n] = true;
            let (a, b) = self.nodes[n].children();
            if let Some(a) = a {
                st.push(a);
            }
            if let Some(b) = b {
                st.push(b);
            }
        }
        (0..self.nodes.len()).filter(|i| seen[*i]).collect()
    }

    pub fn in_degrees(&self) -> Vec<usize> {
        let mut d = vec![0; self.nodes.len()];
        for i in self.reachable() {
            let (a, b) = self.nodes[i].children();
            if let Some(a) = a {
                d[a] += 1;
            }
            if let Some(b) = b {
                d[b] += 1;
            }
        }
        d
    }

    pub fn count(&self, kind: &str) -> usize {
        self.reachable().iter().filter(|i| self.nodes[**i].kind() == kind).count()
    }

    pub fn has(&self, kind: &str) -> bool {
        self.count(kind) > 0
    }

    /// Commitment roots of every node, from scratch (model::cmr).
    pub fn model_cmrs(&self) -> Vec<[u8; 32]> {
        let mut out: Vec<[u8; 32]> = Vec::with_capacity(self.nodes.len());
        for n in &self.nodes {
            let r = match n {
                Ir::Iden => cmr::iden(),
                Ir::Unit => cmr::unit(),
                Ir::InjL(c) => cmr::injl(&out[*c]),
                Ir::InjR(c) => cmr::injr(&out[*c]),
                Ir::Take(c) => cmr::take(&out[*c]),
                Ir::Drop(c) => cmr::drop(&out[*c]),
                Ir::Comp(a, b) => cmr::comp(&out[*a], &out[*b]),
                Ir::Case(a, b) => cmr::case(&out[*a], &out[*b]),
                Ir::Pair(a, b) => cmr::pair(&out[*a], &out[*b]),
                Ir::AssertL(a, h) => cmr::case(&out[*a], h),
                Ir::AssertR(h, b) => cmr::case(h, &out[*b]),
                Ir::Disconnect(a, _) => cmr::disconnect(&out[*a]),
                Ir::Witness => cmr::witness(),
                Ir::Fail(e) => cmr::fail(e),
                Ir::Word(_, bits) => cmr::word(bits),
                Ir::Jet(j) => j.cmr(),
            };
            out.push(r);
        }
        out
    }

    /// Human-oriented rendering (for samples / failure messages); truncated.
    pub fn render(&self) -> String {
        let mut s = String::new();
        for i in self.reachable() {
            let n = &self.nodes[i];
            let line = match n {
                Ir::Word(_, bits) => format!("{}: word 0b{}", i, crate::model::bits::bits_to_string(&bits[..bits.len().min(64)])),
                Ir::Jet(j) => format!("{}: jet {}", i, j.name()),
                Ir::AssertL(c, h) => format!("{}: assertl {} #{}", i, c, crate::engine::hex(&h[..4])),
                Ir::AssertR(h, c) => format!("{}: assertr #{} {}", i, crate::engine::hex(&h[..4]), c),
                Ir::Fail(e) => format!("{}: fail {}", i, crate::engine::hex(&e[..4])),
                _ => {
                    let (a, b) = n.children();
                    match (a, b) {
                        (None, _) => format!("{}: {}", i, n.kind()),
                        (Some(a), None) => format!("{}: {} {}", i, n.kind(), a),
                        (Some(a), Some(b)) => format!("{}: {} {} {}", i, n.kind(), a, b),
                    }
                }
            };
            s.push_str(&line);
            s.push_str("; ");
            if s.len() > 1500 {
                s.push_str("…");
                break;
            }
        }
        s
    }

    /// Stable structural hash of the reachable part.
    pub fn fingerprint(&self, h: &mut crate::engine::Fnv) {
        for i in self.reachable() {
            h.write_u64(i as u64);
            match &self.nodes[i] {
                Ir::Word(n, bits) => {
                    h.write_u64(100 + *n as u64);
                    h.write(&crate::model::bits::pack(bits));
                }
                Ir::Jet(j) => {
                    h.write(j.name().as_bytes());
                }
                Ir::AssertL(c, x) => {
                    h.write_u64(*c as u64);
                    h.write(x);
                }
                Ir::AssertR(x, c) => {
                    h.write_u64(*c as u64);
                    h.write(x);
                }
                Ir::Fail(e) => h.write(e),
                n => {
                    h.write(n.kind().as_bytes());
                    let (a, b) = n.children();
                    h.write_u64(a.map(|x| x as u64 + 1).unwrap_or(0));
                    h.write_u64(b.map(|x| x as u64 + 1).unwrap_or(0));
                }
            }
        }
    }
}

/// Materialise the IR: one library node per reachable IR node, children first.
/// `witnesses` supplies values for witness nodes (missing = `None` at construction time).
pub fn materialize<'b>(
    ctx: &types::Context<'b>,
    prog: &Prog,
    witnesses: &HashMap<Id, Value>,
) -> Result<Vec<Option<Arc<ConstructNode<'b>>>>, types::Error> {
    type N<'b> = Arc<ConstructNode<'b>>;
    let mut built: Vec<Option<N<'b>>> = vec![None; prog.nodes.len()];
    for i in prog.reachable() {
        let get = |built: &Vec<Option<N<'b>>>, c: Id| built[c].clone().expect("child built before parent");
        let node: N<'b> = match &prog.nodes[i] {
            Ir::Iden => N::iden(ctx),
            Ir::Unit => N::unit(ctx),
            Ir::InjL(c) => N::injl(&get(&built, *c)),
            Ir::InjR(c) => N::injr(&get(&built, *c)),
            Ir::Take(c) => N::take(&get(&built, *c)),
            Ir::Drop(c) => N::drop_(&get(&built, *c)),
            Ir::Comp(a, b) => N::comp(&get(&built, *a), &get(&built, *b))?,
            Ir::Case(a, b) => N::case(&get(&built, *a), &get(&built, *b))?,
            Ir::Pair(a, b) => N::pair(&get(&built, *a), &get(&built, *b))?,
            Ir::AssertL(a, h) => N::assertl(&get(&built, *a), Cmr::from_byte_array(*h))?,
            Ir::AssertR(h, b) => N::assertr(Cmr::from_byte_array(*h), &get(&built, *b))?,
            Ir::Disconnect(a, b) => N::disconnect(&get(&built, *a), &b.map(|b| get(&built, b)))?,
            Ir::Witness => N::witness(ctx, witnesses.get(&i).cloned()),
            Ir::Fail(e) => N::fail(ctx, FailEntropy::from_byte_array(*e)),
            Ir::Word(n, bits) => N::const_word(ctx, make_word(*n, bits)),
            Ir::Jet(j) => N::jet(ctx, j.as_dyn()),
        };
        built[i] = Some(node);
    }
    Ok(built)
}

pub fn make_word(n: usize, bits: &[bool]) -> Word {
    assert_eq!(bits.len(), 1 << n);
    let bytes = crate::model::bits::pack(bits);
    let mut it = simplicity::BitIter::from(bytes.as_slice());
    Word::from_bits(&mut it, n as u32).expect("enough bits for the word")
}

// -------------------------------------------------------------------------------------------
// Generation
// -------------------------------------------------------------------------------------------

#[derive(Clone, Debug)]
pub struct GenCfg {
    pub family: Family,
    /// soft budget of nodes
    pub max_nodes: usize,
    /// probability (of 256) of re-using an earlier sub-expression with the same arrow
    pub share_p: u32,
    pub witness: bool,
    pub disconnect: bool,
    /// at commitment time disconnect nodes carry no branch
    pub disconnect_has_branch: bool,
    pub fail: bool,
    pub assert: bool,
    /// only generate assertions whose live side is guaranteed to be taken
    pub guarded_asserts_only: bool,
    pub jets: bool,
    /// restrict jets to this list (None = all jets of the family)
    pub jet_pool: Option<Vec<JetRef>>,
    /// never re-use sub-expressions containing witness/disconnect (commit-time rule)
    pub unique_witness_subexprs: bool,
    pub max_mid_width: usize,
}

impl GenCfg {
    pub fn basic(family: Family) -> GenCfg {
        GenCfg {
            family,
            max_nodes: 40,
            share_p: 60,
            witness: true,
            disconnect: true,
            disconnect_has_branch: true,
            fail: true,
            assert: true,
            guarded_asserts_only: false,
            jets: true,
            jet_pool: None,
            unique_witness_subexprs: false,
            max_mid_width: 64,
        }
    }
}

pub struct ProgGen<'s, 'd> {
    pub src: &'s mut Src<'d>,
    pub cfg: GenCfg,
    pub nodes: Vec<Ir>,
    /// intended arrow of every node
    pub arrows: Vec<(Arc<RTy>, Arc<RTy>)>,
    /// does the sub-expression contain a witness or disconnect node?
    pub has_wd: Vec<bool>,
    memo: HashMap<(u64, u64), Vec<Id>>,
    /// hidden roots and fail entropies used so far: a later assertion / fail node re-uses one of
    /// them now and then (equal hidden roots at different places, equal entropy at different types)
    hidden_pool: Vec<[u8; 32]>,
    entropy_pool: Vec<[u8; 64]>,
    budget: isize,
    jets: Vec<JetRef>,
}

pub fn all_jets(family: Family) -> Vec<JetRef> {
    match family {
        Family::Core => Core::ALL.iter().map(|j| JetRef::Core(*j)).collect(),
        Family::Elements => Elements::ALL.iter().map(|j| JetRef::Elements(*j)).collect(),
    }
}

impl<'s, 'd> ProgGen<'s, 'd> {
    pub fn new(src: &'s mut Src<'d>, cfg: GenCfg) -> Self {
        let jets = cfg.jet_pool.clone().unwrap_or_else(|| all_jets(cfg.family));
        let budget = cfg.max_nodes as isize;
        ProgGen { src, cfg, nodes: vec![], arrows: vec![], has_wd: vec![], memo: HashMap::new(), hidden_pool: vec![], entropy_pool: vec![], budget, jets }
    }

    fn hidden_root(&mut self) -> [u8; 32] {
        if !self.hidden_pool.is_empty() && self.src.chance(50) {
            return self.hidden_pool[self.src.below(self.hidden_pool.len())];
        }
        let h: [u8; 32] = self.src.array();
        self.hidden_pool.push(h);
        h
    }

    fn fail_entropy(&mut self) -> [u8; 64] {
        if !self.entropy_pool.is_empty() && self.src.chance(70) {
            return self.entropy_pool[self.src.below(self.entropy_pool.len())];
        }
        let mut e: [u8; 64] = self.src.array();
        // now and then entropy with a zero tail (renderings and parsers treat trailing zeros specially)
        if self.src.chance(40) {
            let keep = self.src.below(64);
            for b in e[keep..].iter_mut() {
                *b = 0;
            }
        }
        self.entropy_pool.push(e);
        e
    }

    pub fn set_budget(&mut self, n: usize) {
        self.budget = n as isize;
    }

    /// comp l r : ty -> ty (for explicitly built nests)
    pub fn nodes_push_comp(&mut self, l: Id, r: Id, ty: &Arc<RTy>) -> Id {
        self.push(Ir::Comp(l, r), ty, ty)
    }

    /// comp (disconnect s t) (take iden) : ty -> ty, with s : 2^256 * ty -> ty * c and t : c -> d
    /// for a drawn (possibly wide) c and the given (usually narrow) d.
    pub fn endo_via_disconnect(&mut self, ty: &Arc<RTy>, d: &Arc<RTy>, depth: usize) -> Id {
        let b = RTy::prod(ty.clone(), d.clone());
        let dn = self.disconnect_rule(ty, &b, depth);
        let i = self.push(Ir::Iden, ty, ty);
        let t = self.push(Ir::Take(i), &b, ty);
        self.push(Ir::Comp(dn, t), ty, ty)
    }

    pub fn finish(self, root: Id) -> Prog {
        Prog { nodes: self.nodes, root, family: self.cfg.family }
    }

    fn push(&mut self, ir: Ir, a: &Arc<RTy>, b: &Arc<RTy>) -> Id {
        let (c1, c2) = ir.children();
        let wd = matches!(ir, Ir::Witness | Ir::Disconnect(..)) || c1.map(|c| self.has_wd[c]).unwrap_or(false) || c2.map(|c| self.has_wd[c]).unwrap_or(false);
        self.nodes.push(ir);
        self.arrows.push((a.clone(), b.clone()));
        self.has_wd.push(wd);
        self.budget -= 1;
        let id = self.nodes.len() - 1;
        self.memo.entry((a.hash, b.hash)).or_default().push(id);
        id
    }

    fn reuse(&mut self, a: &Arc<RTy>, b: &Arc<RTy>) -> Option<Id> {
        if !self.src.chance(self.cfg.share_p) {
            return None;
        }
        let cands: Vec<Id> = self
            .memo
            .get(&(a.hash, b.hash))
            .map(|v| v.iter().copied().filter(|i| !(self.cfg.unique_witness_subexprs && self.has_wd[*i])).collect())
            .unwrap_or_default();
        if cands.is_empty() {
            None
        } else {
            Some(cands[self.src.below(cands.len())])
        }
    }

    /// A constant expression a -> b (ignores its input).
    pub fn constant(&mut self, a: &Arc<RTy>, b: &Arc<RTy>, val: Option<&RVal>) -> Id {
        match &b.kind {
            RTyKind::Unit => self.push(Ir::Unit, a, b),
            _ => {
                if let Some(n) = b.as_word() {
                    if n <= 8 && self.src.chance(170) {
                        // word literal: needs a unit source
                        let bits: Vec<bool> = match val {
                            Some(v) => {
                                let mut out = vec![];
                                crate::model::eval::flat_bits(v, &mut out);
                                out
                            }
                            None => (0..(1usize << n)).map(|_| self.src.bool()).collect(),
                        };
                        let u = RTy::unit();
                        return if a.is_unit() {
                            self.push(Ir::Word(n, bits), a, b)
                        } else {
                            let un = self.push(Ir::Unit, a, &u);
                            let w = self.push(Ir::Word(n, bits), &u, b);
                            self.push(Ir::Comp(un, w), a, b)
                        };
                    }
                }
                match &b.kind {
                    RTyKind::Sum(x, y) => {
                        let right = match val {
                            Some(RVal::R(_)) => true,
                            Some(_) => false,
                            None => self.src.bool(),
                        };
                        if right {
                            let inner = match val {
                                Some(RVal::R(v)) => Some(&**v),
                                _ => None,
                            };
                            let c = self.constant(a, y, inner);
                            self.push(Ir::InjR(c), a, b)
                        } else {
                            let inner = match val {
                                Some(RVal::L(v)) => Some(&**v),
                                _ => None,
                            };
                            let c = self.constant(a, x, inner);
                            self.push(Ir::InjL(c), a, b)
                        }
                    }
                    RTyKind::Prod(x, y) => {
                        let (vx, vy) = match val {
                            Some(RVal::Pair(p, q)) => (Some(&**p), Some(&**q)),
                            _ => (None, None),
                        };
                        let l = self.constant(a, x, vx);
                        let r = self.constant(a, y, vy);
                        self.push(Ir::Pair(l, r), a, b)
                    }
                    RTyKind::Unit => unreachable!(),
                }
            }
        }
    }

    /// Cheapest expression a -> b, preferring ones that use the input.
    fn terminal(&mut self, a: &Arc<RTy>, b: &Arc<RTy>) -> Id {
        if a == b {
            return self.push(Ir::Iden, a, b);
        }
        if b.is_unit() {
            return self.push(Ir::Unit, a, b);
        }
        if let RTyKind::Prod(a1, a2) = &a.kind {
            if a1 == b {
                let i = self.push(Ir::Iden, a1, a1);
                return self.push(Ir::Take(i), a, b);
            }
            if a2 == b {
                let i = self.push(Ir::Iden, a2, a2);
                return self.push(Ir::Drop(i), a, b);
            }
        }
        if self.cfg.witness && self.src.chance(50) {
            return self.push(Ir::Witness, a, b);
        }
        // structural: build b component-wise so that parts of the input may still be used
        match &b.kind {
            RTyKind::Prod(x, y) if self.budget > -40 => {
                let l = self.terminal(a, x);
                let r = self.terminal(a, y);
                self.push(Ir::Pair(l, r), a, b)
            }
            _ => self.constant(a, b, None),
        }
    }

    fn mid_type(&mut self, a: &Arc<RTy>, b: &Arc<RTy>) -> Arc<RTy> {
        let w = self.cfg.max_mid_width;
        match self.src.weighted(&[6, 3, 3, 6, 3]) {
            0 => gen_ty(self.src, w, 6),
            1 => a.clone(),
            2 => b.clone(),
            3 => {
                // case-shaped: (X + Y) * Z
                let x = gen_ty(self.src, w / 2, 8);
                let y = gen_ty(self.src, w / 2, 8);
                let z = if self.src.bool() && a.width <= 4 * w { a.clone() } else { gen_ty(self.src, w / 2, 8) };
                RTy::prod(RTy::sum(x, y), z)
            }
            _ => {
                // duplicate the input alongside something else
                let x = gen_ty(self.src, w / 2, 8);
                if a.width <= 4 * w {
                    RTy::prod(x, a.clone())
                } else {
                    x
                }
            }
        }
    }

    /// Generate an expression of intended arrow a -> b.
    pub fn expr(&mut self, a: &Arc<RTy>, b: &Arc<RTy>, depth: usize) -> Id {
        if let Some(id) = self.reuse(a, b) {
            return id;
        }
        if self.budget <= 0 || depth > 24 {
            return self.terminal(a, b);
        }
        // applicable rules with weights
        let a_prod = matches!(a.kind, RTyKind::Prod(..));
        let a_case = matches!(&a.kind, RTyKind::Prod(s, _) if matches!(s.kind, RTyKind::Sum(..)));
        let b_sum = matches!(b.kind, RTyKind::Sum(..));
        let b_prod = matches!(b.kind, RTyKind::Prod(..));
        let w = [
            /* 0 iden      */ if a == b { 14 } else { 0 },
            /* 1 unit      */ if b.is_unit() { 10 } else { 0 },
            /* 2 inj       */ if b_sum { 12 } else { 0 },
            /* 3 pair      */ if b_prod { 14 } else { 0 },
            /* 4 take/drop */ if a_prod { 12 } else { 0 },
            /* 5 case      */ if a_case { 30 } else { 0 },
            /* 6 comp      */ 12,
            /* 7 witness   */ if self.cfg.witness { 4 } else { 0 },
            /* 8 jet       */ if self.cfg.jets && !self.jets.is_empty() { 7 } else { 0 },
            /* 9 disconnect*/ if self.cfg.disconnect && b_prod { 5 } else { 0 },
            /*10 fail      */ if self.cfg.fail { 1 } else { 0 },
            /*11 assert    */ if self.cfg.assert && a_case && !self.cfg.guarded_asserts_only { 10 } else { 0 },
            /*12 guarded   */ if self.cfg.assert { 4 } else { 0 },
            /*13 constant  */ 2,
            /*14 wit-case  */ if self.cfg.witness { 4 } else { 0 },
        ];
        match self.src.weighted(&w) {
            0 => self.push(Ir::Iden, a, b),
            1 => self.push(Ir::Unit, a, b),
            2 => {
                let (x, y) = match &b.kind {
                    RTyKind::Sum(x, y) => (x.clone(), y.clone()),
                    _ => unreachable!(),
                };
                if self.src.bool() {
                    let c = self.expr(a, &y, depth + 1);
                    self.push(Ir::InjR(c), a, b)
                } else {
                    let c = self.expr(a, &x, depth + 1);
                    self.push(Ir::InjL(c), a, b)
                }
            }
            3 => {
                let (x, y) = match &b.kind {
                    RTyKind::Prod(x, y) => (x.clone(), y.clone()),
                    _ => unreachable!(),
                };
                let l = self.expr(a, &x, depth + 1);
                let r = self.expr(a, &y, depth + 1);
                self.push(Ir::Pair(l, r), a, b)
            }
            4 => {
                let (x, y) = match &a.kind {
                    RTyKind::Prod(x, y) => (x.clone(), y.clone()),
                    _ => unreachable!(),
                };
                if self.src.bool() {
                    let c = self.expr(&y, b, depth + 1);
                    self.push(Ir::Drop(c), a, b)
                } else {
                    let c = self.expr(&x, b, depth + 1);
                    self.push(Ir::Take(c), a, b)
                }
            }
            5 => self.case_rule(a, b, depth, 0),
            6 => {
                let m = self.mid_type(a, b);
                let l = self.expr(a, &m, depth + 1);
                let r = self.expr(&m, b, depth + 1);
                self.push(Ir::Comp(l, r), a, b)
            }
            7 => self.push(Ir::Witness, a, b),
            8 => self.jet_rule(a, b, depth),
            9 => self.disconnect_rule(a, b, depth),
            10 => {
                let e = self.fail_entropy();
                self.push(Ir::Fail(e), a, b)
            }
            11 => {
                let side = 1 + self.src.below(2);
                self.case_rule(a, b, depth, side)
            }
            12 => self.guarded_assert(a, b, depth),
            13 => self.constant(a, b, None),
            _ => self.witness_case(a, b, depth),
        }
    }

    /// case (hide = 0), assertl (hide = 1: right hidden), assertr (hide = 2: left hidden)
    fn case_rule(&mut self, a: &Arc<RTy>, b: &Arc<RTy>, depth: usize, hide: usize) -> Id {
        let (x, y, z) = match &a.kind {
            RTyKind::Prod(s, z) => match &s.kind {
                RTyKind::Sum(x, y) => (x.clone(), y.clone(), z.clone()),
                _ => unreachable!(),
            },
            _ => unreachable!(),
        };
        let xz = RTy::prod(x, z.clone());
        let yz = RTy::prod(y, z);
        match hide {
            0 => {
                let l = self.expr(&xz, b, depth + 1);
                let r = self.expr(&yz, b, depth + 1);
                self.push(Ir::Case(l, r), a, b)
            }
            1 => {
                let l = self.expr(&xz, b, depth + 1);
                let h = self.hidden_root();
                self.push(Ir::AssertL(l, h), a, b)
            }
            _ => {
                let r = self.expr(&yz, b, depth + 1);
                let h = self.hidden_root();
                self.push(Ir::AssertR(h, r), a, b)
            }
        }
    }

    /// comp (pair (injl/injr sel) rest) (assertl/assertr ...): the live side is always taken.
    fn guarded_assert(&mut self, a: &Arc<RTy>, b: &Arc<RTy>, depth: usize) -> Id {
        let w = self.cfg.max_mid_width;
        let x = gen_ty(self.src, w / 2, 8);
        let other = gen_ty(self.src, w / 2, 8);
        let z = if self.src.bool() && a.width <= 4 * w { a.clone() } else { gen_ty(self.src, w / 2, 8) };
        let left_live = self.src.bool();
        let sum = if left_live { RTy::sum(x.clone(), other) } else { RTy::sum(other, x.clone()) };
        let m = RTy::prod(sum.clone(), z.clone());
        let sel_inner = self.expr(a, &x, depth + 1);
        let sel = if left_live { self.push(Ir::InjL(sel_inner), a, &sum) } else { self.push(Ir::InjR(sel_inner), a, &sum) };
        let rest = self.expr(a, &z, depth + 1);
        let p = self.push(Ir::Pair(sel, rest), a, &m);
        let xz = RTy::prod(x, z);
        let body = self.expr(&xz, b, depth + 1);
        let h = self.hidden_root();
        let asrt = if left_live { self.push(Ir::AssertL(body, h), &m, b) } else { self.push(Ir::AssertR(h, body), &m, b) };
        self.push(Ir::Comp(p, asrt), a, b)
    }

    /// comp (pair witness rest) (case l r): the witness chooses the branch.
    fn witness_case(&mut self, a: &Arc<RTy>, b: &Arc<RTy>, depth: usize) -> Id {
        let w = self.cfg.max_mid_width;
        // a small palette of selector types makes it likely that an earlier case node of the
        // same arrow exists and is re-used: the same case node reached with different choices
        let palette = self.src.bool();
        let (x, y) = if palette {
            let pick = |s: &mut Src| if s.bool() { RTy::unit() } else { RTy::two() };
            (pick(self.src), pick(self.src))
        } else {
            (gen_ty(self.src, w / 2, 8), gen_ty(self.src, w / 2, 8))
        };
        let z = if !palette && self.src.bool() && a.width <= 4 * w { a.clone() } else { RTy::unit() };
        let sum = RTy::sum(x.clone(), y.clone());
        let m = RTy::prod(sum.clone(), z.clone());
        let sel = self.push(Ir::Witness, a, &sum);
        let rest = self.expr(a, &z, depth + 1);
        let p = self.push(Ir::Pair(sel, rest), a, &m);
        let c = match self.reuse(&m, b) {
            Some(c) => c,
            None => {
                let l = self.expr(&RTy::prod(x, z.clone()), b, depth + 1);
                let r = self.expr(&RTy::prod(y, z), b, depth + 1);
                self.push(Ir::Case(l, r), &m, b)
            }
        };
        self.push(Ir::Comp(p, c), a, b)
    }

    /// comp (comp (arg : a -> S) J) (post : T -> b)
    fn jet_rule(&mut self, a: &Arc<RTy>, b: &Arc<RTy>, depth: usize) -> Id {
        let j = self.jets[self.src.below(self.jets.len())];
        self.jet_call(j, a, b, depth)
    }

    pub fn jet_call(&mut self, j: JetRef, a: &Arc<RTy>, b: &Arc<RTy>, depth: usize) -> Id {
        let (s, t) = (j.source(), j.target());
        let jn = self.push(Ir::Jet(j), &s, &t);
        let pre = if *a == s {
            None
        } else {
            Some(self.expr(a, &s, depth + 1))
        };
        let post = if t == *b { None } else { Some(self.expr(&t, b, depth + 1)) };
        let first = match pre {
            Some(p) => self.push(Ir::Comp(p, jn), a, &t),
            None => jn,
        };
        match post {
            Some(q) => self.push(Ir::Comp(first, q), a, b),
            None => first,
        }
    }

    /// disconnect s t : a -> b1 * d   with s : 2^256 * a -> b1 * c, t : c -> d
    fn disconnect_rule(&mut self, a: &Arc<RTy>, b: &Arc<RTy>, depth: usize) -> Id {
        let (b1, d) = match &b.kind {
            RTyKind::Prod(x, y) => (x.clone(), y.clone()),
            _ => unreachable!(),
        };
        let c = gen_ty(self.src, self.cfg.max_mid_width / 2, 8);
        let sa = RTy::prod(RTy::word(8), a.clone());
        let sb = RTy::prod(b1, c.clone());
        let s = self.expr(&sa, &sb, depth + 1);
        if self.cfg.disconnect_has_branch {
            let t = self.expr(&c, &d, depth + 1);
            self.push(Ir::Disconnect(s, Some(t)), a, b)
        } else {
            self.push(Ir::Disconnect(s, None), a, b)
        }
    }

    /// Wrap an expression e : a -> b into a program 1 -> 1:  comp (comp (const input) e) unit
    pub fn wrap_program(&mut self, e: Id, a: &Arc<RTy>, b: &Arc<RTy>, input: Option<&RVal>) -> Id {
        let u = RTy::unit();
        let first = if a.is_unit() {
            e
        } else {
            let c = self.constant(&u, a, input);
            self.push(Ir::Comp(c, e), &u, b)
        };
        if b.is_unit() {
            first
        } else {
            let un = self.push(Ir::Unit, b, &u);
            self.push(Ir::Comp(first, un), &u, &u)
        }
    }
}

/// Source/target type pair for a generated expression.
pub fn gen_arrow(src: &mut Src, max_width: usize) -> (Arc<RTy>, Arc<RTy>) {
    let a = match src.below(4) {
        0 => RTy::unit(),
        1 => {
            // case-shaped source
            let x = gen_ty(src, max_width / 2, 6);
            let y = gen_ty(src, max_width / 2, 6);
            let z = gen_ty(src, max_width / 2, 6);
            RTy::prod(RTy::sum(x, y), z)
        }
        _ => gen_ty(src, max_width, 4),
    };
    let b = match src.below(3) {
        0 => RTy::unit(),
        _ => gen_ty(src, max_width, 4),
    };
    (a, b)
}
