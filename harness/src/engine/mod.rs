//! Engine: choice streams, case context, known findings, worker / supervisor driver, evidence.

pub mod fuzz;
pub mod meter;
pub mod run;
pub mod src;

pub use src::{fnv, hex, unhex, Fnv, Src};

use serde_json::Value as Json;
use std::collections::BTreeMap;

#[derive(Copy, Clone, Debug, PartialEq, Eq)]
pub enum Tier {
    Quick,
    Thorough,
}

impl Tier {
    pub fn name(self) -> &'static str {
        match self {
            Tier::Quick => "quick",
            Tier::Thorough => "thorough",
        }
    }
    pub fn parse(s: &str) -> Option<Tier> {
        match s {
            "quick" => Some(Tier::Quick),
            "thorough" => Some(Tier::Thorough),
            _ => None,
        }
    }
    pub fn pick<T>(self, quick: T, thorough: T) -> T {
        match self {
            Tier::Quick => quick,
            Tier::Thorough => thorough,
        }
    }
}

/// A committed known finding (from /verif/known_findings.json).
#[derive(Clone, Debug)]
pub struct KnownEntry {
    pub id: String,
    pub property: String,
    pub signature: String,
    pub status: String, // "known" | "fixed"
    pub what: String,
}

#[derive(Clone, Debug, Default)]
pub struct Known {
    pub entries: Vec<KnownEntry>,
}

impl Known {
    pub fn load(path: &std::path::Path) -> Result<Known, String> {
        let text = match std::fs::read_to_string(path) {
            Ok(t) => t,
            Err(_) => return Ok(Known::default()),
        };
        let v: Json = serde_json::from_str(&text).map_err(|e| format!("known_findings.json: {e}"))?;
        let mut entries = vec![];
        for e in v["findings"].as_array().cloned().unwrap_or_default() {
            let get = |k: &str| e[k].as_str().unwrap_or("").to_string();
            entries.push(KnownEntry {
                id: get("id"),
                property: get("property"),
                signature: get("signature"),
                status: get("status"),
                what: get("what"),
            });
        }
        Ok(Known { entries })
    }

    /// The `known` (not `fixed`) entry with this property and signature, if any.
    pub fn lookup(&self, property: &str, signature: &str) -> Option<&KnownEntry> {
        self.entries
            .iter()
            .find(|e| e.property == property && e.signature == signature && e.status == "known")
    }
}

/// Per-case context handed to a property's case function.
pub struct Case<'a> {
    pub src: Src<'a>,
    pub tier: Tier,
    pub prop: &'static str,
    /// Replay mode: print details while running.
    pub verbose: bool,
    pub labels: Vec<&'static str>,
    pub nontrivial: bool,
    pub fp: Fnv,
    pub want_sample: bool,
    pub sample: Option<Json>,
    /// Known findings observed on this case: (signature, detail).
    pub known_hits: Vec<(String, String)>,
    known: &'a Known,
}

impl<'a> Case<'a> {
    pub fn new(data: &'a [u8], tier: Tier, prop: &'static str, known: &'a Known) -> Self {
        Case {
            src: Src::new(data),
            tier,
            prop,
            verbose: false,
            labels: vec![],
            nontrivial: false,
            fp: Fnv::new(),
            want_sample: false,
            sample: None,
            known_hits: vec![],
            known,
        }
    }

    pub fn label(&mut self, l: &'static str) {
        if !self.labels.contains(&l) {
            self.labels.push(l);
        }
    }

    pub fn label_if(&mut self, cond: bool, l: &'static str) {
        if cond {
            self.label(l);
        }
    }

    pub fn set_sample(&mut self, f: impl FnOnce() -> Json) {
        if self.want_sample && self.sample.is_none() {
            self.sample = Some(f());
        }
    }

    pub fn note(&self, f: impl FnOnce() -> String) {
        if self.verbose {
            eprintln!("  note: {}", f());
        }
    }

    /// Is this signature listed as a known (unfixed) finding?  Used to *exclude by
    /// construction* (skip a clause) while counting what was excluded.
    pub fn is_known(&self, signature: &str) -> bool {
        self.known.lookup(self.prop, signature).is_some()
    }

    /// A clause failed on a case matching `signature`.  If the signature is a listed known
    /// finding the hit is recorded and the case continues; otherwise it is a violation.
    pub fn known_or_fail(&mut self, signature: &str, detail: impl FnOnce() -> String) -> Result<(), String> {
        if self.known.lookup(self.prop, signature).is_some() {
            let d = detail();
            if self.verbose {
                eprintln!("  known finding [{}]: {}", signature, d);
            }
            if !self.known_hits.iter().any(|(s, _)| s == signature) {
                self.known_hits.push((signature.to_string(), d));
            }
            self.label("excluded: known finding");
            Ok(())
        } else {
            Err(format!("[{}] {}", signature, detail()))
        }
    }
}

/// Outcome of a case function: `Err` is a violation message.
pub type CaseResult = Result<(), String>;

/// Result that means "the harness itself is inconsistent" (exit 2, never a violation).
pub const HARNESS_ERROR_PREFIX: &str = "HARNESS-ERROR:";

pub fn harness_error(msg: impl AsRef<str>) -> String {
    format!("{} {}", HARNESS_ERROR_PREFIX, msg.as_ref())
}

/// Static description of one property check.
pub struct Spec {
    pub id: &'static str,
    pub title: &'static str,
    pub level: &'static str,
    pub rule: &'static str,
    pub design_ref: &'static str,
    /// Maximum stream length for random cases.
    pub max_len: usize,
    pub quick_cases: u64,
    pub thorough_cases: u64,
    /// Upper bound on DAG-iterator steps per case (hook fuel).
    pub fuel: u64,
    /// Upper bound on peak allocation per case, bytes (0 = not checked).
    pub alloc_limit: usize,
    /// Per-case watchdog in seconds.
    pub watchdog_s: u64,
    /// Is a confirmed (isolated) hang a violation of this property?
    pub hang_is_violation: bool,
    /// The outcome of a case depends on thread scheduling (C20): a failure is re-run alone up
    /// to six times and is reported even if none of the re-runs fails again.
    pub scheduling_dependent: bool,
    /// Maximum number of worker processes.
    pub max_workers: usize,
    pub case: fn(&mut Case) -> CaseResult,
    /// Deterministic streams enumerated before the random ones (exhaustive parts).
    pub fixed: Option<fn(Tier, &mut dyn FnMut(&[u8]))>,
    /// Whether `fixed` enumerates the property's whole (finite) domain.
    pub exhaustive: bool,
    pub assumptions: &'static [&'static str],
    /// Coverage-guided campaign run in addition (thorough tier; `VCHECK_FUZZ=1` forces it in quick).
    pub fuzz: Option<FuzzSpec>,
}

/// A fixed-work libFuzzer campaign over the same case function.
pub struct FuzzSpec {
    /// cargo-fuzz target name in /verif/fuzz
    pub target: &'static str,
    /// stream prefix the target prepends (to turn an artifact into a replay file)
    pub prefix: &'static [u8],
    pub max_len: usize,
    /// runs per job in the quick (when forced) and thorough tier
    pub quick_runs: u64,
    pub thorough_runs: u64,
    pub jobs: usize,
}

impl Spec {
    pub const fn base(id: &'static str, title: &'static str, case: fn(&mut Case) -> CaseResult) -> Spec {
        Spec {
            id,
            title,
            level: "exploration",
            rule: "",
            design_ref: "",
            max_len: 256,
            quick_cases: 1000,
            thorough_cases: 10000,
            fuel: 1 << 28,
            alloc_limit: 0,
            watchdog_s: 120,
            hang_is_violation: false,
            scheduling_dependent: false,
            max_workers: 16,
            case,
            fixed: None,
            exhaustive: false,
            assumptions: &[],
            fuzz: None,
        }
    }
}

/// Statistics one worker accumulates.
#[derive(Default)]
pub struct Stats {
    pub evaluations: u64,
    pub nontrivial: u64,
    pub labels: BTreeMap<String, u64>,
    pub fingerprints: std::collections::HashSet<u64>,
    pub samples: Vec<Json>,
    pub known: BTreeMap<String, (u64, String)>,
    pub max_fuel: u64,
    pub max_alloc: usize,
    pub violations: Vec<(String, String)>, // (replay path, message)
    pub harness_errors: Vec<String>,
}
