//! Counting allocator: live and peak bytes (process-wide atomics).  Installed by the binary
//! (and by fuzz targets) with `#[global_allocator]`.  C allocations made by libsimplicity go
//! through simplicity-sys's `rust_0_7_malloc` shims and are therefore counted too.

use std::alloc::{GlobalAlloc, Layout, System};
use std::sync::atomic::{AtomicUsize, Ordering::Relaxed};

pub struct Meter;

static LIVE: AtomicUsize = AtomicUsize::new(0);
static PEAK: AtomicUsize = AtomicUsize::new(0);
static INSTALLED: AtomicUsize = AtomicUsize::new(0);

static HARD_CAP: AtomicUsize = AtomicUsize::new(usize::MAX);

/// Exit status of a process that allocated more than its hard cap (see `set_hard_cap`).
pub const EXIT_MEMORY_CAP: i32 = 87;

/// Live-byte limit of this process.  A worker that runs into it ends at once with
/// `EXIT_MEMORY_CAP` (no unwinding, no further allocation), so that a case with exponential
/// memory cannot take the machine down; the supervisor treats it like a hang.
pub fn set_hard_cap(bytes: usize) {
    HARD_CAP.store(bytes, Relaxed);
}

#[inline]
fn add(n: usize) {
    let live = LIVE.fetch_add(n, Relaxed) + n;
    if live > PEAK.load(Relaxed) {
        PEAK.fetch_max(live, Relaxed);
        if live > HARD_CAP.load(Relaxed) {
            unsafe { libc::_exit(EXIT_MEMORY_CAP) }
        }
    }
}

unsafe impl GlobalAlloc for Meter {
    unsafe fn alloc(&self, l: Layout) -> *mut u8 {
        let p = System.alloc(l);
        if !p.is_null() {
            INSTALLED.store(1, Relaxed);
            add(l.size());
        }
        p
    }
    unsafe fn alloc_zeroed(&self, l: Layout) -> *mut u8 {
        let p = System.alloc_zeroed(l);
        if !p.is_null() {
            add(l.size());
        }
        p
    }
    unsafe fn dealloc(&self, p: *mut u8, l: Layout) {
        System.dealloc(p, l);
        LIVE.fetch_sub(l.size(), Relaxed);
    }
    unsafe fn realloc(&self, p: *mut u8, l: Layout, new: usize) -> *mut u8 {
        let q = System.realloc(p, l, new);
        if !q.is_null() {
            if new >= l.size() {
                add(new - l.size());
            } else {
                LIVE.fetch_sub(l.size() - new, Relaxed);
            }
        }
        q
    }
}

/// Start a measurement window: peak := live.  Returns the live byte count (the baseline).
pub fn begin() -> usize {
    let live = LIVE.load(Relaxed);
    PEAK.store(live, Relaxed);
    live
}

/// Peak bytes above the given baseline since `begin`.
pub fn peak_since(baseline: usize) -> usize {
    PEAK.load(Relaxed).saturating_sub(baseline)
}

pub fn installed() -> bool {
    INSTALLED.load(Relaxed) != 0
}
