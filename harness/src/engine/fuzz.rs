//! Glue for coverage-guided fuzz targets (cargo-fuzz / libFuzzer): a target is a thin wrapper
//! that feeds `prefix ++ data` as the choice stream to a property's case function, so the
//! oracle lives inside the target and a crashing input (with the prefix prepended) is a
//! replay file for `vcheck <ID> --replay`.

use super::run::{run_stream, Ran};
use super::*;
use std::sync::OnceLock;

static KNOWN: OnceLock<Known> = OnceLock::new();

fn known() -> &'static Known {
    KNOWN.get_or_init(|| Known::load(std::path::Path::new("/verif/known_findings.json")).unwrap_or_default())
}

/// Run one fuzz input.  Panics (= libFuzzer crash) on a violation that is not a listed finding.
pub fn run_case(spec: &Spec, prefix: &[u8], data: &[u8]) {
    // libfuzzer-sys installs a panic hook that aborts; the oracle catches and classifies panics
    // itself, so replace that hook once.
    static HOOK: OnceLock<()> = OnceLock::new();
    HOOK.get_or_init(|| super::run::install_panic_hook(false));
    let mut stream = Vec::with_capacity(prefix.len() + data.len());
    stream.extend_from_slice(prefix);
    stream.extend_from_slice(data);
    let mut cx = Case::new(&stream, Tier::Thorough, spec.id, known());
    let (ran, _m) = run_stream(spec, &mut cx);
    match ran {
        Ran::Ok | Ran::Harness(_) => {}
        Ran::Violation(m) => {
            // make the replay stream available next to the libFuzzer artifact
            let p = super::run::write_replay(spec.id, "fuzz", &stream);
            eprintln!("VIOLATION property={} replay={}", spec.id, p);
            eprintln!("  failure: {}", m);
            std::process::abort();
        }
    }
}
