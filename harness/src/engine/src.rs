//! Choice stream: every generated case is decoded from a byte string.
//!
//! Reading past the end yields zeros; bounded integers are mapped monotonically
//! (`v * n >> 16`), never with `%`, and callers order option lists simplest-first, so that
//! shrinking the byte string (shorter, smaller bytes) shrinks the decoded structure.

#[derive(Clone)]
pub struct Src<'a> {
    data: &'a [u8],
    pos: usize,
}

impl<'a> Src<'a> {
    pub fn new(data: &'a [u8]) -> Self {
        Src { data, pos: 0 }
    }

    pub fn pos(&self) -> usize {
        self.pos
    }

    /// True once every real byte has been consumed (further reads give zeros).
    pub fn exhausted(&self) -> bool {
        self.pos >= self.data.len()
    }

    pub fn remaining(&self) -> usize {
        self.data.len().saturating_sub(self.pos)
    }

    pub fn u8(&mut self) -> u8 {
        let b = self.data.get(self.pos).copied().unwrap_or(0);
        self.pos += 1;
        b
    }

    pub fn u16(&mut self) -> u16 {
        let hi = self.u8() as u16;
        let lo = self.u8() as u16;
        (hi << 8) | lo
    }

    pub fn u32(&mut self) -> u32 {
        ((self.u16() as u32) << 16) | self.u16() as u32
    }

    pub fn u64(&mut self) -> u64 {
        ((self.u32() as u64) << 32) | self.u32() as u64
    }

    pub fn u128(&mut self) -> u128 {
        ((self.u64() as u128) << 64) | self.u64() as u128
    }

    pub fn bool(&mut self) -> bool {
        self.u8() >= 128
    }

    /// Uniform-ish integer in `0..n` (monotone in the two stream bytes). `n == 0` gives 0.
    pub fn below(&mut self, n: usize) -> usize {
        if n <= 1 {
            return 0;
        }
        if n <= 256 {
            let v = self.u8() as usize;
            (v * n) >> 8
        } else if n <= 65536 {
            let v = self.u16() as usize;
            (v * n) >> 16
        } else {
            let v = self.u32() as u128;
            ((v * n as u128) >> 32) as usize
        }
    }

    /// Integer in `lo..=hi`.
    pub fn range(&mut self, lo: usize, hi: usize) -> usize {
        debug_assert!(lo <= hi);
        lo + self.below(hi - lo + 1)
    }

    /// True with probability about `num/256`.
    pub fn chance(&mut self, num: u32) -> bool {
        (self.u8() as u32) >= 256 - num.min(256)
    }

    /// Pick an index with the given weights (first = simplest).
    pub fn weighted(&mut self, weights: &[u32]) -> usize {
        let total: u32 = weights.iter().sum();
        if total == 0 {
            return 0;
        }
        let mut v = self.below(total as usize) as u32;
        for (i, w) in weights.iter().enumerate() {
            if v < *w {
                return i;
            }
            v -= *w;
        }
        weights.len() - 1
    }

    pub fn bytes(&mut self, n: usize) -> Vec<u8> {
        (0..n).map(|_| self.u8()).collect()
    }

    pub fn array<const N: usize>(&mut self) -> [u8; N] {
        let mut a = [0u8; N];
        for b in a.iter_mut() {
            *b = self.u8();
        }
        a
    }

    /// The unread tail of the real data.
    pub fn rest(&mut self) -> &'a [u8] {
        let r = if self.pos < self.data.len() { &self.data[self.pos..] } else { &[] };
        self.pos = self.data.len();
        r
    }
}

/// FNV-1a 64 — stable fingerprinting of cases (no dependence on std's hasher keys).
#[derive(Clone, Copy)]
pub struct Fnv(pub u64);

impl Default for Fnv {
    fn default() -> Self {
        Fnv(0xcbf29ce484222325)
    }
}

impl Fnv {
    pub fn new() -> Self {
        Self::default()
    }
    pub fn write(&mut self, bytes: &[u8]) {
        for b in bytes {
            self.0 ^= *b as u64;
            self.0 = self.0.wrapping_mul(0x100000001b3);
        }
    }
    pub fn write_u64(&mut self, v: u64) {
        self.write(&v.to_le_bytes());
    }
    pub fn finish(&self) -> u64 {
        // final avalanche
        let mut x = self.0;
        x ^= x >> 33;
        x = x.wrapping_mul(0xff51afd7ed558ccd);
        x ^= x >> 33;
        x
    }
}

pub fn fnv(bytes: &[u8]) -> u64 {
    let mut h = Fnv::new();
    h.write(bytes);
    h.finish()
}

pub fn hex(bytes: &[u8]) -> String {
    let mut s = String::with_capacity(bytes.len() * 2);
    for b in bytes {
        s.push_str(&format!("{:02x}", b));
    }
    s
}

pub fn unhex(s: &str) -> Option<Vec<u8>> {
    let s = s.trim();
    if s.len() % 2 != 0 {
        return None;
    }
    (0..s.len() / 2)
        .map(|i| u8::from_str_radix(&s[2 * i..2 * i + 2], 16).ok())
        .collect()
}
