//! Worker / supervisor driver.
//!
//! `supervise` shards the case budget over worker processes (same binary, `worker` sub-command).
//! A worker journals the stream of the case it is about to run, runs it under `catch_unwind`
//! with the fuel and allocation meters armed, and finally writes its statistics.  The
//! supervisor turns crashes / hangs of a worker into replay files, confirms them in a fresh
//! child, resumes the shard after the offending case, aggregates statistics and writes the
//! evidence file.
//!
//! Exit codes: 0 held; 1 violation(s) (each printed as `VIOLATION property=<id> replay=<path>`);
//! 2 inconclusive / infrastructure.

use super::*;
use proptest::prelude::*;
use proptest::test_runner::{Config, RngAlgorithm, TestCaseError, TestError, TestRng, TestRunner};
use serde_json::json;
use std::cell::RefCell;
use std::io::{Read, Seek, SeekFrom, Write};
use std::panic::{catch_unwind, AssertUnwindSafe};
use std::path::{Path, PathBuf};
use std::sync::atomic::{AtomicU64, Ordering};
use std::time::{Duration, Instant};

pub const VERIF_ROOT: &str = "/verif";
const EXIT_HANG: i32 = 86;

thread_local! {
    static LAST_PANIC: RefCell<Option<(String, String)>> = const { RefCell::new(None) };
}

static CASE_SEQ: AtomicU64 = AtomicU64::new(0);
static CASE_START_MS: AtomicU64 = AtomicU64::new(0);

fn now_ms(t0: Instant) -> u64 {
    t0.elapsed().as_millis() as u64
}

pub fn install_panic_hook(print: bool) {
    std::panic::set_hook(Box::new(move |info| {
        let loc = info
            .location()
            .map(|l| format!("{}:{}", l.file(), l.line()))
            .unwrap_or_default();
        let msg = if let Some(s) = info.payload().downcast_ref::<&str>() {
            s.to_string()
        } else if let Some(s) = info.payload().downcast_ref::<String>() {
            s.clone()
        } else if info.payload().downcast_ref::<simplicity::verif_hooks::FuelExhausted>().is_some() {
            "fuel exhausted".to_string()
        } else {
            "non-string panic payload".to_string()
        };
        if print {
            eprintln!("  panic: {} at {}", msg, loc);
        }
        LAST_PANIC.with(|p| *p.borrow_mut() = Some((msg, loc)));
    }));
}

/// Message and location of the last panic of the calling thread (set by the panic hook).
pub fn last_panic() -> Option<(String, String)> {
    LAST_PANIC.with(|p| p.borrow().clone())
}

/// What running one stream produced.
pub enum Ran {
    Ok,
    Violation(String),
    Harness(String),
}

pub struct CaseMeters {
    pub fuel: u64,
    pub peak: usize,
}

/// Run the case function once on `bytes`, with meters and panic capture.
pub fn run_stream<'a>(spec: &Spec, cx: &mut Case<'a>) -> (Ran, CaseMeters) {
    let len = cx.src.remaining();
    let base = meter::begin();
    simplicity::verif_hooks::reset(spec.fuel);
    LAST_PANIC.with(|p| *p.borrow_mut() = None);
    let r = catch_unwind(AssertUnwindSafe(|| (spec.case)(cx)));
    let fuel = simplicity::verif_hooks::steps();
    simplicity::verif_hooks::reset(u64::MAX);
    let peak = meter::peak_since(base);
    let ran = match r {
        Ok(Ok(())) => {
            if spec.alloc_limit > 0 && meter::installed() && peak > spec.alloc_limit + 4096 * len {
                Ran::Violation(format!(
                    "allocation bound exceeded: peak {} bytes > {} + 4096*{}",
                    peak, spec.alloc_limit, len
                ))
            } else {
                Ran::Ok
            }
        }
        Ok(Err(m)) => {
            if m.starts_with(HARNESS_ERROR_PREFIX) {
                Ran::Harness(m)
            } else {
                Ran::Violation(m)
            }
        }
        Err(payload) => {
            if payload.downcast_ref::<simplicity::verif_hooks::FuelExhausted>().is_some() {
                Ran::Violation(format!(
                    "work bound exceeded: more than {} DAG-iterator steps on a {}-byte case",
                    spec.fuel, len
                ))
            } else {
                let (msg, loc) = LAST_PANIC.with(|p| p.borrow().clone()).unwrap_or_default();
                if loc.contains("/verif/") || loc.starts_with("src/") {
                    Ran::Harness(harness_error(format!("harness panic: {} at {}", msg, loc)))
                } else {
                    Ran::Violation(format!("panic: {} at {}", msg, loc))
                }
            }
        }
    };
    (ran, CaseMeters { fuel, peak })
}

fn shard_seed(seed: u64, id: &str, shard: usize) -> [u8; 32] {
    let mut out = [0u8; 32];
    for i in 0..4 {
        let mut h = Fnv::new();
        h.write_u64(seed);
        h.write(id.as_bytes());
        h.write_u64(shard as u64);
        h.write_u64(i as u64);
        out[i * 8..i * 8 + 8].copy_from_slice(&h.finish().to_le_bytes());
    }
    out
}

struct Journal {
    file: std::fs::File,
}

impl Journal {
    fn open(path: &Path) -> Journal {
        Journal { file: std::fs::OpenOptions::new().create(true).write(true).truncate(true).open(path).expect("journal") }
    }
    fn record(&mut self, seq: u64, bytes: &[u8]) {
        let mut buf = Vec::with_capacity(12 + bytes.len());
        buf.extend_from_slice(&seq.to_le_bytes());
        buf.extend_from_slice(&(bytes.len() as u32).to_le_bytes());
        buf.extend_from_slice(bytes);
        let _ = self.file.seek(SeekFrom::Start(0));
        let _ = self.file.write_all(&buf);
    }
}

pub fn read_journal(path: &Path) -> Option<(u64, Vec<u8>)> {
    let mut f = std::fs::File::open(path).ok()?;
    let mut all = vec![];
    f.read_to_end(&mut all).ok()?;
    if all.len() < 12 {
        return None;
    }
    let seq = u64::from_le_bytes(all[0..8].try_into().ok()?);
    let len = u32::from_le_bytes(all[8..12].try_into().ok()?) as usize;
    if all.len() < 12 + len {
        return None;
    }
    Some((seq, all[12..12 + len].to_vec()))
}

pub fn write_replay(id: &str, kind: &str, bytes: &[u8]) -> String {
    let dir = format!("{}/replays", VERIF_ROOT);
    let _ = std::fs::create_dir_all(&dir);
    let path = format!("{}/{}-{}-{:016x}.bin", dir, id, kind, fnv(bytes));
    let _ = std::fs::write(&path, bytes);
    path
}

struct WorkerState<'a> {
    spec: &'a Spec,
    tier: Tier,
    known: &'a Known,
    st: Stats,
    journal: Journal,
    seq: u64,
    skip: u64,
    counting: bool,
    t0: Instant,
    /// DAG steps spent since the first failure (shrinking); bounds the shrink phase by work, not time
    shrink_work: u64,
}

impl<'a> WorkerState<'a> {
    /// Returns Err(message) on violation.
    fn run(&mut self, bytes: &[u8]) -> Result<(), String> {
        if self.counting {
            self.seq += 1;
            if self.seq <= self.skip {
                return Ok(());
            }
            self.journal.record(self.seq, bytes);
        }
        CASE_START_MS.store(now_ms(self.t0), Ordering::SeqCst);
        CASE_SEQ.fetch_add(1, Ordering::SeqCst);
        let mut cx = Case::new(bytes, self.tier, self.spec.id, self.known);
        cx.want_sample = self.counting && self.st.samples.len() < 4;
        let (ran, meters) = run_stream(self.spec, &mut cx);
        CASE_START_MS.store(u64::MAX, Ordering::SeqCst);
        if !self.counting {
            self.shrink_work = self.shrink_work.saturating_add(meters.fuel.max(1000));
        }
        if self.counting {
            self.st.evaluations += 1;
            self.st.max_fuel = self.st.max_fuel.max(meters.fuel);
            self.st.max_alloc = self.st.max_alloc.max(meters.peak);
            for l in &cx.labels {
                *self.st.labels.entry(l.to_string()).or_insert(0) += 1;
            }
            for (sig, detail) in cx.known_hits.drain(..) {
                let e = self.st.known.entry(sig).or_insert((0, detail));
                e.0 += 1;
            }
            if cx.nontrivial && matches!(ran, Ran::Ok) {
                self.st.nontrivial += 1;
                self.st.fingerprints.insert(cx.fp.finish());
                if let Some(s) = cx.sample.take() {
                    self.st.samples.push(s);
                }
            }
        }
        match ran {
            Ran::Ok => Ok(()),
            Ran::Harness(m) => {
                if self.counting {
                    let p = write_replay(self.spec.id, "harness", bytes);
                    self.st.harness_errors.push(format!("{} (stream {})", m, p));
                }
                Ok(())
            }
            Ran::Violation(m) => Err(m),
        }
    }
}

pub fn regress_files(id: &str) -> Vec<PathBuf> {
    let dir = format!("{}/regress/{}", VERIF_ROOT, id);
    let mut v: Vec<PathBuf> = std::fs::read_dir(dir)
        .map(|rd| rd.filter_map(|e| e.ok().map(|e| e.path())).filter(|p| p.is_file()).collect())
        .unwrap_or_default();
    v.sort();
    v
}

fn case_budget(spec: &Spec, tier: Tier) -> u64 {
    let base = tier.pick(spec.quick_cases, spec.thorough_cases);
    match std::env::var("VCHECK_SCALE").ok().and_then(|s| s.parse::<f64>().ok()) {
        Some(f) if f > 0.0 => ((base as f64) * f).ceil() as u64,
        _ => base,
    }
}

/// Worker entry point.
pub fn worker(spec: &Spec, tier: Tier, seed: u64, shard: usize, nshards: usize, rundir: &Path, skip: u64) -> i32 {
    install_panic_hook(false);
    let known = match Known::load(Path::new(&format!("{}/known_findings.json", VERIF_ROOT))) {
        Ok(k) => k,
        Err(e) => {
            eprintln!("{}", e);
            return 2;
        }
    };
    let t0 = Instant::now();
    CASE_START_MS.store(u64::MAX, Ordering::SeqCst);
    // watchdog
    {
        let limit_ms = spec.watchdog_s * 1000;
        let hang_path = rundir.join(format!("shard-{}.hang", shard));
        std::thread::spawn(move || loop {
            std::thread::sleep(Duration::from_millis(500));
            let start = CASE_START_MS.load(Ordering::SeqCst);
            if start != u64::MAX {
                let now = now_ms(t0);
                if now.saturating_sub(start) > limit_ms {
                    let _ = std::fs::write(&hang_path, b"hang");
                    std::process::exit(EXIT_HANG);
                }
            }
        });
    }
    let mut ws = WorkerState {
        spec,
        tier,
        known: &known,
        st: Stats::default(),
        journal: Journal::open(&rundir.join(format!("shard-{}.journal", shard))),
        seq: 0,
        skip,
        counting: true,
        t0,
        shrink_work: 0,
    };
    let mut stop = false;
    // phase 0: committed regressions (shard 0 only)
    if shard == 0 {
        for p in regress_files(spec.id) {
            if let Ok(bytes) = std::fs::read(&p) {
                if let Err(m) = ws.run(&bytes) {
                    ws.st.violations.push((p.display().to_string(), m));
                    stop = true;
                }
            }
        }
    }
    // phase 1: deterministic enumeration
    if !stop {
        if let Some(fixed) = spec.fixed.filter(|_| std::env::var_os("VCHECK_NOFIXED").is_none()) {
            let mut idx: u64 = 0;
            let mut first_fail: Option<(Vec<u8>, String)> = None;
            fixed(tier, &mut |bytes: &[u8]| {
                let mine = idx % nshards as u64 == shard as u64;
                idx += 1;
                if !mine || first_fail.is_some() {
                    return;
                }
                if let Err(m) = ws.run(bytes) {
                    first_fail = Some((bytes.to_vec(), m));
                }
            });
            if let Some((bytes, m)) = first_fail {
                let p = write_replay(spec.id, "fixed", &bytes);
                ws.st.violations.push((p, m));
                stop = true;
            }
        }
    }
    // phase 2: random streams driven by proptest
    let total = case_budget(spec, tier);
    let mine = total / nshards as u64 + if (shard as u64) < total % nshards as u64 { 1 } else { 0 };
    if !stop && mine > 0 {
        let config = Config {
            cases: mine as u32,
            failure_persistence: None,
            max_shrink_iters: 800,
            max_shrink_time: 0,
            ..Config::default()
        };
        let rng = TestRng::from_seed(RngAlgorithm::ChaCha, &shard_seed(seed, spec.id, shard));
        let mut runner = TestRunner::new_with_rng(config, rng);
        let max_len = spec.max_len;
        // Half the cases use short streams so that small structures are well represented.
        let strat = prop_oneof![
            proptest::collection::vec(any::<u8>(), 0..=max_len),
            proptest::collection::vec(any::<u8>(), 0..=(max_len / 8).max(24).min(max_len)),
        ];
        let ws_cell = RefCell::new(&mut ws);
        let res = runner.run(&strat, |bytes| {
            let mut w = ws_cell.borrow_mut();
            // shrinking is bounded by work (2^28 DAG steps, at least 1000 per candidate): beyond
            // that every further candidate is declined unseen and proptest returns the smallest
            // failing stream found so far
            if !w.counting && w.shrink_work > (1 << 28) {
                return Ok(());
            }
            match w.run(&bytes) {
                Ok(()) => Ok(()),
                Err(m) => {
                    w.counting = false;
                    Err(TestCaseError::fail(m))
                }
            }
        });
        match res {
            Ok(()) => {}
            Err(TestError::Fail(reason, value)) => {
                let p = write_replay(spec.id, "shrunk", &value);
                ws.st.violations.push((p, reason.message().to_string()));
            }
            Err(TestError::Abort(reason)) => {
                ws.st.harness_errors.push(harness_error(format!("proptest aborted: {}", reason.message())));
            }
        }
    }
    // write stats
    let st = &ws.st;
    let stats = json!({
        "evaluations": st.evaluations,
        "nontrivial": st.nontrivial,
        "labels": st.labels,
        "samples": st.samples,
        "known": st.known.iter().map(|(k, v)| (k.clone(), json!({"count": v.0, "detail": v.1}))).collect::<serde_json::Map<_, _>>(),
        "max_fuel": st.max_fuel,
        "max_alloc": st.max_alloc,
        "violations": st.violations.iter().map(|(p, m)| json!({"replay": p, "message": m})).collect::<Vec<_>>(),
        "harness_errors": st.harness_errors,
        "last_seq": ws.seq,
    });
    let mut fp_bytes = Vec::with_capacity(st.fingerprints.len() * 8);
    for f in &st.fingerprints {
        fp_bytes.extend_from_slice(&f.to_le_bytes());
    }
    let _ = std::fs::write(rundir.join(format!("shard-{}.fp", shard)), fp_bytes);
    let _ = std::fs::write(rundir.join(format!("shard-{}.json", shard)), serde_json::to_vec(&stats).unwrap());
    0
}

/// Run one replay file (plain regression check: no proptest, no shrinking).
pub fn replay(spec: &Spec, tier: Tier, path: &Path) -> i32 {
    install_panic_hook(true);
    let known = Known::load(Path::new(&format!("{}/known_findings.json", VERIF_ROOT))).unwrap_or_default();
    let bytes = match std::fs::read(path) {
        Ok(b) => b,
        Err(e) => {
            eprintln!("cannot read {}: {}", path.display(), e);
            return 2;
        }
    };
    let mut cx = Case::new(&bytes, tier, spec.id, &known);
    cx.verbose = true;
    cx.want_sample = true;
    let (ran, meters) = run_stream(spec, &mut cx);
    eprintln!("replay {} ({} bytes): fuel {} steps, peak alloc {} bytes, labels {:?}", path.display(), bytes.len(), meters.fuel, meters.peak, cx.labels);
    if let Some(s) = &cx.sample {
        eprintln!("case: {}", s);
    }
    for (sig, d) in &cx.known_hits {
        println!("KNOWN-FINDING: property={} [{}] {}", spec.id, sig, d);
    }
    match ran {
        Ran::Ok => {
            eprintln!("replay: property held on this case");
            0
        }
        Ran::Harness(m) => {
            eprintln!("INCONCLUSIVE {}", m);
            2
        }
        Ran::Violation(m) => {
            eprintln!("violation: {}", m);
            println!("VIOLATION property={} replay={}", spec.id, path.display());
            1
        }
    }
}

struct ShardOutcome {
    stats: Option<Json>,
    fps: Vec<u64>,
}

fn spawn_worker(spec: &Spec, tier: Tier, seed: u64, shard: usize, nshards: usize, rundir: &Path, skip: u64) -> std::process::Child {
    let exe = std::env::current_exe().expect("current_exe");
    let errf = std::fs::OpenOptions::new().create(true).append(true).open(rundir.join(format!("shard-{}.err", shard))).expect("errfile");
    std::process::Command::new(exe)
        .arg("worker")
        .arg(spec.id)
        .arg(tier.name())
        .arg(seed.to_string())
        .arg(shard.to_string())
        .arg(nshards.to_string())
        .arg(rundir)
        .arg(skip.to_string())
        // keep freed memory inside the process: repeated mmap/munmap + page faults of large
        // per-case buffers scale very badly across 16 processes in this VM
        .env("MALLOC_MMAP_THRESHOLD_", "33554432")
        .env("MALLOC_TRIM_THRESHOLD_", "17179869184")
        .env("MALLOC_TOP_PAD_", "67108864")
        .stdout(std::process::Stdio::null())
        .stderr(errf)
        .spawn()
        .expect("spawn worker")
}

/// Re-run a stream alone in a fresh child.  Returns (exit description, confirmed_bad, timed_out).
fn confirm_in_child(spec: &Spec, tier: Tier, path: &str, limit_s: u64) -> (String, bool, bool) {
    let exe = std::env::current_exe().expect("current_exe");
    let mut child = std::process::Command::new(exe)
        .arg("replay")
        .arg(spec.id)
        .arg(path)
        .arg(tier.name())
        .stdout(std::process::Stdio::null())
        .stderr(std::process::Stdio::null())
        .spawn()
        .expect("spawn replay");
    let t0 = Instant::now();
    loop {
        match child.try_wait() {
            Ok(Some(status)) => {
                let code = status.code();
                if code == Some(meter::EXIT_MEMORY_CAP) {
                    // resource exhaustion counts like a timeout, not like a crash
                    return ("memory cap reached".into(), false, true);
                }
                let bad = match code {
                    Some(0) => false,
                    Some(2) => false,
                    _ => true, // exit 1, other codes, or killed by a signal
                };
                return (format!("{:?}", status), bad, false);
            }
            Ok(None) => {
                if t0.elapsed().as_secs() > limit_s {
                    let _ = child.kill();
                    let _ = child.wait();
                    return ("timeout".into(), false, true);
                }
                std::thread::sleep(Duration::from_millis(50));
            }
            Err(e) => return (format!("wait error {e}"), false, false),
        }
    }
}

/// Build the cargo-fuzz target and run a fixed-work libFuzzer campaign (`-runs=N -seed=S`,
/// fresh output corpus per job, committed seed corpus as read-only input).  Crashing inputs are
/// turned into replay streams and confirmed like any other failure.
fn run_fuzz(spec: &Spec, fz: &FuzzSpec, tier: Tier, seed: u64, violations: &mut Vec<(String, String)>, inconclusive: &mut Vec<String>) -> Json {
    let t0 = Instant::now();
    let fuzz_dir = format!("{}/fuzz", VERIF_ROOT);
    let build = std::process::Command::new("cargo")
        .args(["+nightly", "fuzz", "build", "--fuzz-dir", &fuzz_dir, fz.target])
        .env("CARGO_NET_OFFLINE", "true")
        .stdout(std::process::Stdio::null())
        .stderr(std::process::Stdio::piped())
        .output();
    match build {
        Ok(o) if o.status.success() => {}
        Ok(o) => {
            let err = String::from_utf8_lossy(&o.stderr);
            inconclusive.push(format!("fuzz target {} did not build: {}", fz.target, err.lines().rev().take(5).collect::<Vec<_>>().join(" | ")));
            return json!({"target": fz.target, "built": false});
        }
        Err(e) => {
            inconclusive.push(format!("cargo fuzz not available: {}", e));
            return json!({"target": fz.target, "built": false});
        }
    }
    let bin = format!("{}/target/x86_64-unknown-linux-gnu/release/{}", fuzz_dir, fz.target);
    let runs = tier.pick(fz.quick_runs, fz.thorough_runs);
    let work = PathBuf::from(format!("{}/harness/target/fuzz/{}-{}", VERIF_ROOT, fz.target, std::process::id()));
    let _ = std::fs::remove_dir_all(&work);
    let seed_corpus = format!("{}/corpus/{}", VERIF_ROOT, fz.target);
    let mut children = vec![];
    for j in 0..fz.jobs {
        let dir = work.join(format!("job{}", j));
        let corpus = dir.join("corpus");
        let arts = dir.join("artifacts");
        let _ = std::fs::create_dir_all(&corpus);
        let _ = std::fs::create_dir_all(&arts);
        let mut cmd = std::process::Command::new(&bin);
        cmd.arg(&corpus);
        if Path::new(&seed_corpus).is_dir() {
            cmd.arg(&seed_corpus);
        }
        cmd.arg(format!("-runs={}", runs))
            .arg(format!("-seed={}", (seed.wrapping_mul(1000003).wrapping_add(j as u64) % 0x7fff_ffff) + 1))
            .arg(format!("-max_len={}", fz.max_len))
            .arg("-len_control=0")
            .arg("-timeout=120")
            .arg("-rss_limit_mb=6000")
            .arg("-print_final_stats=1")
            .arg(format!("-artifact_prefix={}/", arts.display()))
            .env("MALLOC_MMAP_THRESHOLD_", "33554432")
            .env("ASAN_OPTIONS", "detect_leaks=0:abort_on_error=1")
            .stdout(std::process::Stdio::null())
            .stderr(std::fs::File::create(dir.join("stderr.log")).expect("log"));
        match cmd.spawn() {
            Ok(c) => children.push((j, dir, c)),
            Err(e) => inconclusive.push(format!("cannot start fuzz job {}: {}", j, e)),
        }
    }
    let mut executed = 0u64;
    let mut new_units = 0u64;
    let mut crashes = 0u64;
    for (j, dir, mut c) in children {
        let status = c.wait();
        let log = std::fs::read_to_string(dir.join("stderr.log")).unwrap_or_default();
        for line in log.lines() {
            if let Some(v) = line.strip_prefix("stat::number_of_executed_units:") {
                executed += v.trim().parse::<u64>().unwrap_or(0);
            }
            if let Some(v) = line.strip_prefix("stat::new_units_added:") {
                new_units += v.trim().parse::<u64>().unwrap_or(0);
            }
        }
        let mut found = false;
        if let Ok(rd) = std::fs::read_dir(dir.join("artifacts")) {
            for e in rd.flatten() {
                let name = e.file_name().to_string_lossy().to_string();
                if name.starts_with("slow-unit") {
                    // libFuzzer's report of a unit slower than 10 s wall clock (16 jobs share
                    // the machine): not a failure of any kind
                    let _ = std::fs::remove_file(e.path());
                    continue;
                }
                if let Ok(bytes) = std::fs::read(e.path()) {
                    let mut stream = fz.prefix.to_vec();
                    stream.extend_from_slice(&bytes);
                    let kind = if name.starts_with("timeout") { "fuzz-timeout" } else if name.starts_with("oom") { "fuzz-oom" } else { "fuzz-crash" };
                    let p = write_replay(spec.id, kind, &stream);
                    crashes += 1;
                    found = true;
                    violations.push((p, format!("libFuzzer job {} produced artifact {}", j, name)));
                }
            }
        }
        if !found {
            if let Ok(s) = status {
                if !s.success() {
                    inconclusive.push(format!("fuzz job {} ended with {:?} without an artifact (see {})", j, s, dir.join("stderr.log").display()));
                    continue;
                }
            }
            let _ = std::fs::remove_dir_all(&dir);
        }
    }
    json!({
        "engine": "libFuzzer (cargo-fuzz 0.13, ASan)", "target": fz.target, "built": true, "jobs": fz.jobs, "runs_per_job": runs,
        "executed_units": executed, "new_corpus_units": new_units, "artifacts": crashes, "max_len": fz.max_len, "wall_s": t0.elapsed().as_secs_f64(),
    })
}

pub fn supervise(spec: &Spec, tier: Tier, seed: u64) -> i32 {
    let t0 = Instant::now();
    let total = case_budget(spec, tier);
    let cores = std::thread::available_parallelism().map(|n| n.get()).unwrap_or(4).min(16);
    let by_budget = if spec.fixed.is_some() { cores } else { ((total / 25).max(1)) as usize };
    let nshards = spec.max_workers.min(cores).min(by_budget).max(1);
    let rundir = PathBuf::from(format!("{}/harness/target/run/{}-{}-{}", VERIF_ROOT, spec.id, tier.name(), std::process::id()));
    let _ = std::fs::remove_dir_all(&rundir);
    std::fs::create_dir_all(&rundir).expect("rundir");

    let mut violations: Vec<(String, String)> = vec![];
    let mut inconclusive: Vec<String> = vec![];
    let mut outcomes: Vec<ShardOutcome> = (0..nshards).map(|_| ShardOutcome { stats: None, fps: vec![] }).collect();
    let mut pending: Vec<(usize, u64, u32)> = (0..nshards).map(|i| (i, 0u64, 0u32)).collect(); // shard, skip, attempts

    while !pending.is_empty() {
        let mut children: Vec<(usize, u64, u32, std::process::Child)> = pending
            .drain(..)
            .map(|(i, skip, att)| (i, skip, att, spawn_worker(spec, tier, seed, i, nshards, &rundir, skip)))
            .collect();
        for (i, _skip, att, child) in children.iter_mut() {
            let status = child.wait().expect("wait worker");
            let i = *i;
            let json_path = rundir.join(format!("shard-{}.json", i));
            if status.code() == Some(0) && json_path.exists() {
                let stats: Json = serde_json::from_slice(&std::fs::read(&json_path).unwrap()).unwrap_or(Json::Null);
                let fpb = std::fs::read(rundir.join(format!("shard-{}.fp", i))).unwrap_or_default();
                let fps = fpb.chunks_exact(8).map(|c| u64::from_le_bytes(c.try_into().unwrap())).collect();
                outcomes[i] = ShardOutcome { stats: Some(stats), fps };
                continue;
            }
            // crash or hang
            let hang = status.code() == Some(EXIT_HANG) || status.code() == Some(meter::EXIT_MEMORY_CAP);
            let j = read_journal(&rundir.join(format!("shard-{}.journal", i)));
            let (seq, bytes) = match j {
                Some(x) => x,
                None => {
                    inconclusive.push(format!("shard {} ended with {:?} before journaling a case", i, status));
                    continue;
                }
            };
            let kind = if hang { "hang" } else { "crash" };
            let path = write_replay(spec.id, kind, &bytes);
            let limit = (spec.watchdog_s * 2).max(120);
            if hang && violations.iter().any(|(_, m)| m.starts_with("hang:")) {
                // one hang of this run has been confirmed alone already; further ones are recorded, not re-run
                inconclusive.push(format!("shard {} also ran into the watchdog / memory cap (stream {}); not re-run alone, a hang of this run is confirmed already", i, path));
                continue;
            }
            let (desc, bad, timed_out) = confirm_in_child(spec, tier, &path, limit);
            let mut established = false;
            if timed_out {
                if spec.hang_is_violation {
                    violations.push((path.clone(), format!("hang: case did not finish within {} s (or within the memory cap) when re-run alone: {}", limit, desc)));
                    established = true;
                } else {
                    inconclusive.push(format!("case {} did not finish within {} s / the memory cap alone (not a violation of {}): {}", path, limit, spec.id, desc));
                }
            } else if bad {
                violations.push((path.clone(), format!("worker {} ({:?}); re-run alone: {}", kind, status, desc)));
                established = true;
            } else {
                inconclusive.push(format!("worker {} ({:?}) on {} did not reproduce alone ({})", kind, status, path, desc));
            }
            // A shard that has produced a confirmed crash or hang is not resumed: each further
            // hit of the same defect would cost two watchdog periods.
            if established {
                continue;
            }
            if *att < 20 {
                pending.push((i, seq, *att + 1));
            } else {
                inconclusive.push(format!("shard {} restarted too often", i));
            }
        }
    }

    // coverage-guided campaign over the same case function
    let mut fuzz_evidence: Json = Json::Null;
    if let Some(fz) = &spec.fuzz {
        if tier == Tier::Thorough || std::env::var_os("VCHECK_FUZZ").is_some() {
            fuzz_evidence = run_fuzz(spec, fz, tier, seed, &mut violations, &mut inconclusive);
        }
    }

    // aggregate
    let mut evaluations = 0u64;
    let mut labels: BTreeMap<String, u64> = BTreeMap::new();
    let mut fps: std::collections::HashSet<u64> = Default::default();
    let mut samples: Vec<Json> = vec![];
    let mut known: BTreeMap<String, (u64, String)> = BTreeMap::new();
    let mut max_fuel = 0u64;
    let mut max_alloc = 0u64;
    let mut harness_errors: Vec<String> = vec![];
    for o in &outcomes {
        if let Some(s) = &o.stats {
            evaluations += s["evaluations"].as_u64().unwrap_or(0);
            if let Some(m) = s["labels"].as_object() {
                for (k, v) in m {
                    *labels.entry(k.clone()).or_insert(0) += v.as_u64().unwrap_or(0);
                }
            }
            if let Some(a) = s["samples"].as_array() {
                for x in a {
                    if samples.len() < 8 {
                        samples.push(x.clone());
                    }
                }
            }
            if let Some(m) = s["known"].as_object() {
                for (k, v) in m {
                    let e = known.entry(k.clone()).or_insert((0, v["detail"].as_str().unwrap_or("").to_string()));
                    e.0 += v["count"].as_u64().unwrap_or(0);
                }
            }
            max_fuel = max_fuel.max(s["max_fuel"].as_u64().unwrap_or(0));
            max_alloc = max_alloc.max(s["max_alloc"].as_u64().unwrap_or(0));
            if let Some(a) = s["violations"].as_array() {
                for v in a {
                    violations.push((v["replay"].as_str().unwrap_or("").to_string(), v["message"].as_str().unwrap_or("").to_string()));
                }
            }
            if let Some(a) = s["harness_errors"].as_array() {
                for v in a {
                    harness_errors.push(v.as_str().unwrap_or("").to_string());
                }
            }
        }
        fps.extend(o.fps.iter().copied());
    }
    // Confirm shrunk violations in a fresh process before reporting them.
    let mut confirmed: Vec<(String, String)> = vec![];
    let mut seen_paths = std::collections::HashSet::new();
    for (p, m) in violations {
        if !seen_paths.insert(p.clone()) {
            continue;
        }
        if m.starts_with("hang:") || m.starts_with("worker ") {
            confirmed.push((p, m));
            continue;
        }
        let (mut desc, mut bad, mut timed_out) = confirm_in_child(spec, tier, &p, (spec.watchdog_s * 2).max(120));
        if spec.scheduling_dependent {
            let mut tries = 1;
            while !(bad || timed_out) && tries < 6 {
                let r = confirm_in_child(spec, tier, &p, (spec.watchdog_s * 2).max(120));
                desc = r.0;
                bad = r.1;
                timed_out = r.2;
                tries += 1;
            }
            if !(bad || timed_out) {
                // the oracle of such a property compares two runs of the same deterministic
                // jobs: one observed difference is a difference, whether or not the scheduler
                // produces it again
                confirmed.push((p, format!("{} [observed once; {} isolated re-runs of the same batch did not fail again: scheduling dependent]", m, tries)));
                continue;
            }
        }
        if bad || (timed_out && spec.hang_is_violation) {
            confirmed.push((p, m));
        } else {
            inconclusive.push(format!("failure on {} did not reproduce in a fresh process ({}): {}", p, desc, m));
        }
    }

    let wall = t0.elapsed().as_secs_f64();
    let known_db = Known::load(Path::new(&format!("{}/known_findings.json", VERIF_ROOT))).unwrap_or_default();
    let known_json: Vec<Json> = known
        .iter()
        .map(|(sig, (n, d))| json!({"signature": sig, "cases": n, "example": d}))
        .collect();
    let distinct = fps.len() as u64;
    let evidence = json!({
        "property_id": spec.id,
        "tier": tier.name(),
        "seed": seed,
        "level": spec.level,
        "coverage": {
            "evaluations": evaluations,
            "distinct_nontrivial": distinct,
            "rule": spec.rule,
            "samples": samples,
            "exhaustive": spec.exhaustive,
            "class_distribution": labels,
            "max_dag_steps_per_case": max_fuel,
            "dag_step_limit": spec.fuel,
            "max_peak_alloc_bytes_per_case": max_alloc,
            "known_findings_observed": known_json,
            "worker_processes": nshards,
            "inconclusive_notes": inconclusive,
            "coverage_guided_campaign": fuzz_evidence,
        },
        "assumptions": spec.assumptions,
        "wall_s": wall,
        "violations": confirmed.len(),
    });
    let evdir = format!("{}/evidence", VERIF_ROOT);
    let _ = std::fs::create_dir_all(&evdir);
    let evpath = format!("{}/{}.json", evdir, spec.id);
    let _ = std::fs::write(&evpath, serde_json::to_vec_pretty(&evidence).unwrap());

    println!(
        "{} {}: {} cases, {} distinct non-trivial, {} worker(s), max {} DAG steps, max {} B peak alloc, {:.1}s",
        spec.id, tier.name(), evaluations, distinct, nshards, max_fuel, max_alloc, wall
    );
    let mut shown = 0;
    for (k, v) in &labels {
        if shown < 40 {
            println!("  class {:<44} {:>9} ({:.1}%)", k, v, 100.0 * *v as f64 / evaluations.max(1) as f64);
            shown += 1;
        }
    }
    for (sig, (n, d)) in &known {
        let what = known_db.lookup(spec.id, sig).map(|e| format!("{} {}", e.id, e.what)).unwrap_or_default();
        println!("KNOWN-FINDING: property={} [{}] {} ({} cases; e.g. {})", spec.id, sig, what, n, d);
    }
    for n in &inconclusive {
        println!("INCONCLUSIVE-NOTE {}", n);
    }
    for h in &harness_errors {
        println!("INCONCLUSIVE {}", h);
    }
    for (p, m) in &confirmed {
        println!("  failure: {}", m);
        println!("VIOLATION property={} replay={}", spec.id, p);
    }
    let _ = std::fs::remove_dir_all(&rundir);
    if !confirmed.is_empty() {
        1
    } else if !harness_errors.is_empty() || evaluations == 0 || outcomes.iter().any(|o| o.stats.is_none()) {
        println!("INCONCLUSIVE {}: harness errors or missing shard results", spec.id);
        2
    } else if distinct < 2 {
        println!("INCONCLUSIVE {}: fewer than two distinct non-trivial cases", spec.id);
        2
    } else {
        0
    }
}
