//! One module per property: case decoder + oracle + classifier.
use crate::engine::Spec;

pub mod c13;
pub mod c19;

pub fn all() -> Vec<&'static Spec> {
    vec![&c13::SPEC, &c19::SPEC]
}

pub fn find(id: &str) -> Option<&'static Spec> {
    all().into_iter().find(|s| s.id.eq_ignore_ascii_case(id))
}
