//! One module per property: case decoder + oracle + classifier.
use crate::engine::Spec;

pub mod exec_common;

pub mod c01;
pub mod c02;
pub mod c03;
pub mod c04;
pub mod c05;
pub mod c06;
pub mod c07;
pub mod c08;
pub mod c09;
pub mod c10;
pub mod c11;
pub mod c12;
pub mod c13;
pub mod c14;
pub mod c15;
pub mod c16;
pub mod c17;
pub mod c18;
pub mod c19;
pub mod c20;

pub fn all() -> Vec<&'static Spec> {
    vec![
        &c01::SPEC, &c02::SPEC, &c03::SPEC, &c04::SPEC, &c05::SPEC, &c06::SPEC, &c07::SPEC, &c08::SPEC, &c09::SPEC, &c10::SPEC, &c11::SPEC, &c12::SPEC, &c13::SPEC,
        &c14::SPEC, &c15::SPEC, &c16::SPEC, &c17::SPEC, &c18::SPEC, &c19::SPEC, &c20::SPEC,
    ]
}

pub fn find(id: &str) -> Option<&'static Spec> {
    all().into_iter().find(|s| s.id.eq_ignore_ascii_case(id))
}
