//! C15 The Elements environment shown to jets is the supplied transaction.
//!
//! For a generated environment description (`gen::txenv::EnvSpec`) the library environment is
//! built once and one-jet programs (`jet` or `comp (word arg) jet`) are executed on the Rust Bit
//! Machine.  Every output is compared, as a compact bit string, with an expected value computed
//! here from the Rust-side description alone, following the jet descriptions in
//! `elementsJets.c` / `elements/env.c` (what a jet returns, what exactly is hashed, how absent
//! values look).  Nothing below reads a value back from the built environment except the
//! `sighash_all()` comparison the property asks for.

use crate::engine::*;
use crate::gen::build::build_redeem;
use crate::gen::prog::{Family, Ir, JetRef, Prog};
use crate::gen::txenv::{gen_env, EnvSpec};
use serde_json::{json, Value as Json};
use simplicity::elements::bitcoin::hashes::{sha256, Hash as _};
use simplicity::elements::{self, confidential, AssetId};
use simplicity::jet::Elements as J;
use simplicity::jet::ElementsTxEnv;
use simplicity::{BitMachine, RedeemNode};
use std::cell::RefCell;
use std::collections::HashMap;
use std::sync::Arc;

pub const SPEC: Spec = Spec {
    rule: "an Elements environment description decoded from the stream by gen::txenv (1..6 inputs, 0..6 outputs, every input as current index, tx version 2/1/3/0/0xffffffff, lock times and sequences around the 500000000, 0xffffffff/0xfffffffe, 1<<31 and 1<<22 boundaries, assets/values/nonces null, explicit and confidential (valid curve points), new issuances, reissuances and non-issuances with stray entropy, peg-in inputs with a well-formed peg-in witness (and, rarely, a peg-in witness on an input whose is_pegin flag is off), script_sig / script_pubkey / range and surjection proofs / annex of 0..300 bytes, witness stacks of 0..4 items with the annex present or absent, OP_RETURN scripts with every push flavour and broken ones, control blocks with 0..8 or 128 path elements, random script root and genesis hash); the environment is built with ElementsEnv::new and 67 introspection jets are run as one-jet programs on the Bit Machine: unit-source jets once, index-taking jets on EVERY in-range index and 3 out-of-range ones drawn from {n, n+1, 6, 7, 255, 256, 65535, 65536, 2^31-1, 2^31, 2^32-2, 2^32-1}, tappath on all (or sampled) path positions and out-of-range ones, total_fee on every explicit output asset and an absent one, output_null_datum on every (output, datum) position and out-of-range ones, check_lock_* on 0, the lock value, its neighbours and the maximum. Oracle: the compact bit string of each output equals the value computed in this module from the Rust-side description per the jet descriptions in elementsJets.c/env.c (hashes = SHA-256 of the described bytes, absent = left unit); check_lock_* succeed exactly when arg <= lock value; the sig_all_hash jet output equals env.c_tx_env().sighash_all(). Not asserted: annex status of a ONE-item witness stack whose item starts with 0x50 (BIP-341 requires two items; counted). Non-trivial: >= 2 inputs or >= 2 outputs, and >= 1 issuance / peg-in / confidential asset, value or nonce / annex, and an in-range query (always). Distinct by (environment digest, out-of-range indices queried).",
    design_ref: "§6 C15",
    max_len: 900,
    quick_cases: 40_000,
    thorough_cases: 100_000,
    ..Spec::base("C15", "The Elements environment shown to jets is the supplied transaction", case)
};

/// Known-finding signature: the C environment's peg-in field is derived from the presence of a
/// well-formed peg-in witness (`TxIn::pegin_data()`), not from `TxIn::is_pegin`.
const SIG_PEGIN: &str = "pegin-derived-from-witness-not-from-is_pegin-flag";

// ---------------------------------------------------------------------------------------------
// bit strings
// ---------------------------------------------------------------------------------------------

#[derive(Clone, Default, PartialEq, Eq, Debug)]
struct Bits(Vec<bool>);

impl Bits {
    fn new() -> Bits {
        Bits(vec![])
    }
    fn bit(mut self, b: bool) -> Bits {
        self.0.push(b);
        self
    }
    /// the low `n` bits of `v`, most significant first
    fn uint(mut self, v: u64, n: usize) -> Bits {
        for i in (0..n).rev() {
            self.0.push((v >> i) & 1 == 1);
        }
        self
    }
    fn bytes(mut self, b: &[u8]) -> Bits {
        for byte in b {
            for i in (0..8).rev() {
                self.0.push((byte >> i) & 1 == 1);
            }
        }
        self
    }
    fn then(mut self, other: Bits) -> Bits {
        self.0.extend(other.0);
        self
    }
    fn render(&self) -> String {
        let mut s = String::new();
        // leading tag bits are easier to read unpacked: print bits up to the last multiple of 8
        // from the end as hex
        let head = self.0.len() % 8;
        for b in &self.0[..head] {
            s.push(if *b { '1' } else { '0' });
        }
        if head > 0 && self.0.len() > head {
            s.push('|');
        }
        let packed = crate::model::bits::pack(&self.0[head..]);
        s.push_str(&hex(&packed));
        format!("{} ({} bits)", s, self.0.len())
    }
}

fn sha(b: &[u8]) -> [u8; 32] {
    sha256::Hash::hash(b).to_byte_array()
}

fn none() -> Bits {
    Bits::new().bit(false)
}

fn some(b: Bits) -> Bits {
    Bits::new().bit(true).then(b)
}

fn opt(b: Option<Bits>) -> Bits {
    match b {
        None => none(),
        Some(b) => some(b),
    }
}

fn hash_bits(h: &[u8; 32]) -> Bits {
    Bits::new().bytes(h)
}

// ---------------------------------------------------------------------------------------------
// expected encodings of confidential things (type Conf A = (2 x 2^256) + A)
// ---------------------------------------------------------------------------------------------

/// asset : (2 x 2^256) + 2^256.  A null asset has prefix NONE and zeroed data in the C
/// structure, which `asset()` writes like an even-y commitment to zero.
fn enc_asset(a: &confidential::Asset) -> Bits {
    match a {
        confidential::Asset::Null => Bits::new().bit(false).bit(false).bytes(&[0u8; 32]),
        confidential::Asset::Explicit(id) => Bits::new().bit(true).bytes(&id.to_byte_array()),
        confidential::Asset::Confidential(g) => {
            let s = g.serialize();
            Bits::new().bit(false).bit(s[0] & 1 == 1).bytes(&s[1..])
        }
    }
}

/// amount : (2 x 2^256) + 2^64.  A null amount is marshalled as explicit zero.
fn enc_amount(v: &confidential::Value) -> Bits {
    match v {
        confidential::Value::Null => Bits::new().bit(true).uint(0, 64),
        confidential::Value::Explicit(x) => Bits::new().bit(true).uint(*x, 64),
        confidential::Value::Confidential(c) => {
            let s = c.serialize();
            Bits::new().bit(false).bit(s[0] & 1 == 1).bytes(&s[1..])
        }
    }
}

/// nonce : 1 + ((2 x 2^256) + 2^256)
fn enc_nonce(n: &confidential::Nonce) -> Bits {
    match n {
        confidential::Nonce::Null => none(),
        confidential::Nonce::Explicit(x) => some(Bits::new().bit(true).bytes(x)),
        confidential::Nonce::Confidential(pk) => {
            let s = pk.serialize();
            some(Bits::new().bit(false).bit(s[0] & 1 == 1).bytes(&s[1..]))
        }
    }
}

// ---------------------------------------------------------------------------------------------
// model of one input
// ---------------------------------------------------------------------------------------------

#[derive(Clone, Copy, PartialEq, Eq, Debug)]
enum IssKind {
    None,
    New,
    Re,
}

fn iss_kind(i: &elements::TxIn) -> IssKind {
    let iss = &i.asset_issuance;
    if iss.amount.is_null() && iss.inflation_keys.is_null() {
        IssKind::None
    } else if iss.asset_blinding_nonce.to_byte_array() == [0u8; 32] {
        IssKind::New
    } else {
        IssKind::Re
    }
}

/// (entropy, asset id, token id) of an issuance, computed with the elements crate's
/// implementation of Elements' issuance.cpp (GenerateAssetEntropy / CalculateAsset /
/// CalculateReissuanceToken).
fn iss_ids(i: &elements::TxIn) -> ([u8; 32], [u8; 32], [u8; 32]) {
    let iss = &i.asset_issuance;
    let entropy = match iss_kind(i) {
        IssKind::New => AssetId::generate_asset_entropy(i.previous_output, iss.asset_entropy.into_contract_hash()),
        _ => iss.asset_entropy,
    };
    let asset = AssetId::from_entropy(entropy);
    let token = AssetId::reissuance_token_from_entropy(entropy, iss.amount.is_confidential());
    (entropy.to_byte_array(), asset.to_byte_array(), token.to_byte_array())
}

enum Annex {
    Absent,
    Present(Vec<u8>),
    /// one-item stack whose item starts with 0x50: BIP-341 says "no annex" (an annex needs at
    /// least two witness elements), the library takes the item as annex; not asserted
    Unspecified,
}

fn annex_of(i: &elements::TxIn) -> Annex {
    let w = &i.witness.script_witness;
    let n = w.iter().count();
    match w.last() {
        Some(last) if last.first() == Some(&0x50) => {
            if n >= 2 {
                Annex::Present(last[1..].to_vec())
            } else {
                Annex::Unspecified
            }
        }
        _ => Annex::Absent,
    }
}

fn pegin_mismatch(i: &elements::TxIn) -> bool {
    !i.is_pegin && i.witness.pegin_witness.data().is_some()
}

// ---------------------------------------------------------------------------------------------
// null-data scripts (TX_NULL_DATA: OP_RETURN followed by pushes only)
// ---------------------------------------------------------------------------------------------

#[derive(Clone, Debug, PartialEq, Eq)]
enum Datum {
    /// 0 immediate, 1 OP_PUSHDATA1, 2 OP_PUSHDATA2, 3 OP_PUSHDATA4; hash of the pushed data
    Push(u8, [u8; 32]),
    Neg1,
    Reserved,
    /// OP_1 .. OP_16 as 0..15
    Num(u8),
}

fn parse_null_data(s: &[u8]) -> Option<Vec<Datum>> {
    if s.first() != Some(&0x6a) {
        return None;
    }
    let mut out = vec![];
    let mut i = 1;
    while i < s.len() {
        let code = s[i];
        i += 1;
        if code > 0x60 {
            return None;
        }
        if code >= 0x4f {
            out.push(match code {
                0x4f => Datum::Neg1,
                0x50 => Datum::Reserved,
                c => Datum::Num(c - 0x51),
            });
            continue;
        }
        let (kind, nlen) = match code {
            0x4c => (1u8, 1usize),
            0x4d => (2, 2),
            0x4e => (3, 4),
            _ => (0, 0),
        };
        let len = if kind == 0 {
            code as usize
        } else {
            if s.len() - i < nlen {
                return None;
            }
            let mut l = 0usize;
            for k in 0..nlen {
                l |= (s[i + k] as usize) << (8 * k);
            }
            i += nlen;
            l
        };
        if s.len() - i < len {
            return None;
        }
        out.push(Datum::Push(kind, sha(&s[i..i + len])));
        i += len;
    }
    Some(out)
}

/// datum : (2^2 x 2^256) + (2 + 2^4)
fn enc_datum(d: &Datum) -> Bits {
    match d {
        Datum::Push(k, h) => Bits::new().bit(false).uint(*k as u64, 2).bytes(h),
        Datum::Neg1 => Bits::new().bit(true).bit(false).bit(false),
        Datum::Reserved => Bits::new().bit(true).bit(false).bit(true),
        Datum::Num(n) => Bits::new().bit(true).bit(true).uint(*n as u64, 4),
    }
}

// ---------------------------------------------------------------------------------------------
// running one-jet programs
// ---------------------------------------------------------------------------------------------

thread_local! {
    static PROGRAMS: RefCell<HashMap<(J, Vec<bool>), Arc<RedeemNode>>> = RefCell::new(HashMap::new());
}

fn program(j: J, arg: &[bool]) -> Result<Arc<RedeemNode>, String> {
    PROGRAMS.with(|c| {
        let mut c = c.borrow_mut();
        if c.len() > 50_000 {
            c.clear();
        }
        if let Some(p) = c.get(&(j, arg.to_vec())) {
            return Ok(p.clone());
        }
        let prog = if arg.is_empty() {
            Prog { nodes: vec![Ir::Jet(JetRef::Elements(j))], root: 0, family: Family::Elements }
        } else {
            let n = arg.len().trailing_zeros() as usize;
            if 1usize << n != arg.len() {
                return Err(harness_error(format!("argument of {} bits is not a word", arg.len())));
            }
            Prog { nodes: vec![Ir::Word(n, arg.to_vec()), Ir::Jet(JetRef::Elements(j)), Ir::Comp(0, 1)], root: 2, family: Family::Elements }
        };
        let redeem = build_redeem(&prog, false, &HashMap::new()).map_err(|e| harness_error(format!("one-jet program for {} rejected: {:?}", j, e)))?;
        c.insert((j, arg.to_vec()), redeem.clone());
        Ok(redeem)
    })
}

enum Want {
    Value(Bits),
    Fails,
}

struct Ck<'a> {
    spec: &'a EnvSpec,
    env: ElementsTxEnv,
    verbose: bool,
    checks: usize,
    shown: Vec<Json>,
}

impl<'a> Ck<'a> {
    fn run(&self, j: J, arg: &Bits) -> Result<Result<Bits, String>, String> {
        let p = program(j, &arg.0)?;
        let mut mac = BitMachine::for_program(&p).map_err(|e| harness_error(format!("one-jet program for {} refused: {}", j, e)))?;
        Ok(match mac.exec(&p, &self.env) {
            Ok(v) => Ok(Bits(v.iter_compact().collect())),
            Err(e) => Err(e.to_string()),
        })
    }

    /// Err(message) on a mismatch; harness errors are messages too (prefixed).
    fn expect(&mut self, j: J, arg: Bits, want: Want) -> Result<(), String> {
        self.checks += 1;
        let got = self.run(j, &arg)?;
        if self.verbose {
            eprintln!(
                "  {}({}) = {}",
                j,
                if arg.0.is_empty() { String::new() } else { arg.render() },
                match &got {
                    Ok(b) => b.render(),
                    Err(e) => format!("fails: {}", e),
                }
            );
        }
        if self.shown.len() < 12 && (self.checks % 17 == 1) {
            self.shown.push(json!({"jet": j.to_string(), "arg": if arg.0.is_empty() { Json::Null } else { json!(arg.render()) }, "result": match &got { Ok(b) => b.render(), Err(e) => format!("fails: {}", e) }}));
        }
        let ok = match (&got, &want) {
            (Ok(g), Want::Value(w)) => g == w,
            (Err(_), Want::Fails) => true,
            _ => false,
        };
        if ok {
            return Ok(());
        }
        Err(format!(
            "jet {} on argument {} returned {} but the supplied data says {}; environment: {}",
            j,
            if arg.0.is_empty() { "()".to_string() } else { arg.render() },
            match &got {
                Ok(b) => b.render(),
                Err(e) => format!("failure ({})", e),
            },
            match &want {
                Want::Value(w) => w.render(),
                Want::Fails => "failure".to_string(),
            },
            self.spec.describe()
        ))
    }

    fn value(&mut self, j: J, arg: Bits, want: Bits) -> Result<(), String> {
        self.expect(j, arg, Want::Value(want))
    }
}

fn ix32(i: u32) -> Bits {
    Bits::new().uint(i as u64, 32)
}

const OOR: [u64; 12] = [0, 1, 6, 7, 255, 256, 65535, 65536, 0x7fff_ffff, 0x8000_0000, 0xffff_fffe, 0xffff_ffff];

/// all in-range indices and three out-of-range ones
fn indices(src: &mut Src, n: usize) -> Vec<u32> {
    let mut v: Vec<u32> = (0..n as u32).collect();
    for _ in 0..3 {
        let k = src.below(OOR.len());
        let c = match k {
            0 => n as u64,
            1 => n as u64 + 1,
            _ => OOR[k],
        };
        if c >= n as u64 && !v.contains(&(c as u32)) {
            v.push(c as u32);
        }
    }
    if v.len() == n {
        v.push(n as u32);
    }
    v
}

// ---------------------------------------------------------------------------------------------
// the case
// ---------------------------------------------------------------------------------------------

pub fn case(cx: &mut Case) -> CaseResult {
    let spec = gen_env(&mut cx.src);
    let tx = &spec.tx;
    let n_in = tx.input.len();
    let n_out = tx.output.len();
    if spec.utxos.len() != n_in || spec.ix as usize >= n_in {
        return Err(harness_error("generated environment violates the build_txEnv precondition"));
    }
    let in_idx = indices(&mut cx.src, n_in);
    let out_idx = indices(&mut cx.src, n_out);
    cx.fp.write_u64(spec.digest());
    for i in in_idx.iter().chain(out_idx.iter()) {
        cx.fp.write_u64(*i as u64);
    }

    // ---- classification -------------------------------------------------------------------
    cx.label(match n_in {
        1 => "inputs: 1",
        2..=3 => "inputs: 2-3",
        _ => "inputs: 4-6",
    });
    cx.label(match n_out {
        0 => "outputs: 0",
        1 => "outputs: 1",
        2..=3 => "outputs: 2-3",
        _ => "outputs: 4-6",
    });
    cx.label_if(spec.ix > 0, "current input is not the first");
    cx.label_if(spec.ix as usize == n_in - 1 && n_in > 1, "current input is the last");
    cx.label(match tx.version {
        2 => "version 2",
        1 => "version 1",
        3 => "version 3",
        _ => "version 0 / 0xffffffff",
    });
    let lt = tx.lock_time.to_consensus_u32();
    cx.label(if lt == 0 {
        "lock_time 0"
    } else if lt < 500_000_000 {
        "lock_time: height"
    } else {
        "lock_time: time"
    });
    cx.label_if((499_999_990..=500_000_010).contains(&lt), "lock_time within 10 of 500000000");
    let is_final = tx.input.iter().all(|i| i.sequence.0 == 0xffff_ffff);
    cx.label(if is_final { "all sequences final" } else { "some sequence non-final" });
    cx.label_if(tx.input.iter().any(|i| i.sequence.0 == 0xffff_fffe), "sequence 0xfffffffe");
    cx.label_if(tx.input.iter().any(|i| i.sequence.0 & (1 << 31) != 0 && i.sequence.0 < 0xffff_fffe), "sequence with disable flag");
    cx.label_if(tx.input.iter().any(|i| i.sequence.0 < (1 << 31) && i.sequence.0 & (1 << 22) != 0), "relative time lock");
    cx.label_if(tx.input.iter().any(|i| i.sequence.0 < (1 << 31) && i.sequence.0 & (1 << 22) == 0 && i.sequence.0 & 0xffff != 0), "relative height lock");
    let kinds: Vec<IssKind> = tx.input.iter().map(iss_kind).collect();
    let has_new = kinds.contains(&IssKind::New);
    let has_re = kinds.contains(&IssKind::Re);
    cx.label_if(has_new, "new issuance");
    cx.label_if(has_re, "reissuance");
    cx.label_if(tx.input.iter().any(|i| iss_kind(i) == IssKind::None && (i.asset_issuance.asset_entropy.to_byte_array() != [0u8; 32] || !i.asset_issuance.asset_blinding_nonce.is_null())), "no issuance but entropy/nonce set");
    cx.label_if(tx.input.iter().any(|i| iss_kind(i) != IssKind::None && i.asset_issuance.amount.is_confidential()), "issuance amount confidential");
    cx.label_if(tx.input.iter().any(|i| iss_kind(i) != IssKind::None && i.asset_issuance.amount.is_null()), "issuance amount null");
    cx.label_if(tx.input.iter().any(|i| iss_kind(i) != IssKind::None && i.asset_issuance.amount.is_explicit()), "issuance amount explicit");
    cx.label_if(tx.input.iter().any(|i| iss_kind(i) == IssKind::New && i.asset_issuance.inflation_keys.is_confidential()), "inflation keys confidential");
    cx.label_if(tx.input.iter().any(|i| iss_kind(i) == IssKind::New && i.asset_issuance.inflation_keys.is_null()), "inflation keys null");
    cx.label_if(tx.input.iter().any(|i| iss_kind(i) == IssKind::New && i.asset_issuance.inflation_keys.is_explicit()), "inflation keys explicit");
    cx.label_if(tx.input.iter().any(|i| iss_kind(i) == IssKind::Re && !i.asset_issuance.inflation_keys.is_null()), "reissuance with inflation keys set");
    cx.label_if(tx.input.iter().any(|i| !i.witness.amount_rangeproof.is_empty() || !i.witness.inflation_keys_rangeproof.is_empty()), "issuance range proof bytes present");
    let has_pegin = tx.input.iter().any(|i| i.is_pegin);
    cx.label_if(has_pegin, "peg-in input");
    let mismatch = tx.input.iter().any(pegin_mismatch);
    cx.label_if(mismatch, "peg-in witness on an input without the is_pegin flag");
    let annexes: Vec<Annex> = tx.input.iter().map(annex_of).collect();
    let has_annex = annexes.iter().any(|a| matches!(a, Annex::Present(_)));
    cx.label_if(has_annex, "annex present");
    cx.label_if(annexes.iter().any(|a| matches!(a, Annex::Present(d) if d.is_empty())), "annex present and empty");
    cx.label_if(annexes.iter().any(|a| matches!(a, Annex::Unspecified)), "one-item stack starting with 0x50 (annex status not asserted)");
    cx.label_if(tx.input.iter().any(|i| i.witness.script_witness.iter().count() >= 2 && matches!(annex_of(i), Annex::Absent)), "witness stack of >= 2 items without annex");
    cx.label_if(tx.input.iter().any(|i| i.witness.script_witness.iter().next().map(|w| w.first() == Some(&0x50)).unwrap_or(false) && matches!(annex_of(i), Annex::Absent)), "0x50 item that is not the last one");
    cx.label_if(tx.input.iter().any(|i| !i.script_sig.is_empty()), "script_sig non-empty");
    cx.label_if(tx.input.iter().any(|i| i.script_sig.len() > 75), "script_sig > 75 bytes");
    for (what, l) in [(0, "utxo asset null"), (1, "utxo asset explicit"), (2, "utxo asset confidential")] {
        cx.label_if(spec.utxos.iter().any(|u| [u.asset.is_null(), u.asset.is_explicit(), u.asset.is_confidential()][what]), l);
    }
    for (what, l) in [(0, "utxo value null"), (1, "utxo value explicit"), (2, "utxo value confidential")] {
        cx.label_if(spec.utxos.iter().any(|u| [u.value.is_null(), u.value.is_explicit(), u.value.is_confidential()][what]), l);
    }
    for (what, l) in [(0, "output asset null"), (1, "output asset explicit"), (2, "output asset confidential")] {
        cx.label_if(tx.output.iter().any(|o| [o.asset.is_null(), o.asset.is_explicit(), o.asset.is_confidential()][what]), l);
    }
    for (what, l) in [(0, "output value null"), (1, "output value explicit"), (2, "output value confidential")] {
        cx.label_if(tx.output.iter().any(|o| [o.value.is_null(), o.value.is_explicit(), o.value.is_confidential()][what]), l);
    }
    for (what, l) in [(0, "output nonce null"), (1, "output nonce explicit"), (2, "output nonce confidential")] {
        cx.label_if(tx.output.iter().any(|o| [o.nonce.is_null(), o.nonce.is_explicit(), o.nonce.is_confidential()][what]), l);
    }
    cx.label_if(tx.output.iter().any(|o| !o.witness.rangeproof.is_empty()), "output range proof bytes present");
    cx.label_if(tx.output.iter().any(|o| !o.witness.surjection_proof.is_empty()), "output surjection proof bytes present");
    cx.label_if(tx.output.iter().any(|o| !o.witness.rangeproof.is_empty() && !o.value.is_confidential()), "range proof on a non-confidential value");
    cx.label_if(tx.output.iter().any(|o| !o.witness.surjection_proof.is_empty() && !o.asset.is_confidential()), "surjection proof on a non-confidential asset");
    // The C structure has no null amount (a null value is marshalled as explicit 0), so the
    // jet's notion of a fee output (`isFee(sigOutput*)`) includes empty-script outputs with an
    // explicit asset and a NULL value; only outputs with a really explicit value are tallied.
    let is_fee = |o: &elements::TxOut| o.script_pubkey.is_empty() && o.asset.is_explicit() && o.value.is_explicit();
    let is_fee_jet = |o: &elements::TxOut| o.script_pubkey.is_empty() && o.asset.is_explicit() && !o.value.is_confidential();
    let n_fee = tx.output.iter().filter(|o| is_fee(o)).count();
    cx.label_if(n_fee >= 1, "fee output");
    cx.label_if(
        tx.output.iter().enumerate().any(|(a, o)| is_fee(o) && tx.output.iter().enumerate().any(|(b, p)| a != b && is_fee(p) && p.asset == o.asset)),
        "two fee outputs of the same asset",
    );
    let null_data: Vec<Option<Vec<Datum>>> = tx.output.iter().map(|o| parse_null_data(o.script_pubkey.as_bytes())).collect();
    cx.label_if(null_data.iter().any(|d| d.is_some()), "null-data output");
    cx.label_if(null_data.iter().any(|d| matches!(d, Some(v) if v.len() >= 2)), "null-data output with >= 2 data");
    cx.label_if(tx.output.iter().zip(null_data.iter()).any(|(o, d)| d.is_none() && o.script_pubkey.as_bytes().first() == Some(&0x6a)), "OP_RETURN script that is not null data");
    cx.label_if(tx.output.iter().any(|o| o.script_pubkey.len() > 75), "output script > 75 bytes");
    let path_len = spec.control_block.merkle_branch.as_inner().len();
    cx.label(match path_len {
        0 => "control block path: 0",
        1..=8 => "control block path: 1-8",
        _ => "control block path: 128",
    });
    cx.label_if(spec.control_block.leaf_version.as_u8() != 0xbe, "leaf version other than 0xbe");
    let has_conf = spec.utxos.iter().any(|u| u.asset.is_confidential() || u.value.is_confidential())
        || tx.output.iter().any(|o| o.asset.is_confidential() || o.value.is_confidential() || o.nonce.is_confidential())
        || tx.input.iter().any(|i| i.asset_issuance.amount.is_confidential() || i.asset_issuance.inflation_keys.is_confidential());
    cx.nontrivial = (n_in >= 2 || n_out >= 2) && (has_new || has_re || has_pegin || has_conf || has_annex);
    cx.label("query: in range");
    cx.label("query: out of range");

    // ---- build and query ------------------------------------------------------------------
    let env = spec.build();
    let mut ck = Ck { spec: &spec, env, verbose: cx.verbose, checks: 0, shown: vec![] };
    let unit = Bits::new;

    // transaction-level fields
    cx.label("jets: transaction fields");
    ck.value(J::Version, unit(), ix32(tx.version))?;
    ck.value(J::LockTime, unit(), ix32(lt))?;
    ck.value(J::NumInputs, unit(), ix32(n_in as u32))?;
    ck.value(J::NumOutputs, unit(), ix32(n_out as u32))?;
    ck.value(J::CurrentIndex, unit(), ix32(spec.ix))?;
    ck.value(J::GenesisBlockHash, unit(), hash_bits(&spec.genesis.to_byte_array()))?;
    ck.value(J::TransactionId, unit(), hash_bits(&tx.txid().to_byte_array()))?;

    // taproot
    cx.label("jets: taproot");
    let cb = &spec.control_block;
    let internal_key = cb.internal_key.serialize();
    ck.value(J::ScriptCMR, unit(), hash_bits(&spec.script_cmr))?;
    ck.value(J::InternalKey, unit(), hash_bits(&internal_key))?;
    ck.value(J::TapleafVersion, unit(), Bits::new().uint(cb.leaf_version.as_u8() as u64, 8))?;
    let path: Vec<[u8; 32]> = cb.merkle_branch.as_inner().iter().map(|h| h.to_byte_array()).collect();
    let mut tap_idx: Vec<usize> = if path.len() <= 8 { (0..path.len()).collect() } else { vec![0, 1, cx.src.below(path.len()), path.len() - 1] };
    for c in [path.len(), path.len() + 1, 128, 129, 255] {
        if c >= path.len() && c < 256 && !tap_idx.contains(&c) && (c == path.len() || cx.src.bool()) {
            tap_idx.push(c);
        }
    }
    for i in tap_idx {
        ck.value(J::Tappath, Bits::new().uint(i as u64, 8), opt(path.get(i).map(hash_bits)))?;
    }
    {
        let tag = sha(b"TapLeaf/elements");
        let mut m = vec![];
        m.extend_from_slice(&tag);
        m.extend_from_slice(&tag);
        m.push(cb.leaf_version.as_u8());
        m.push(32);
        m.extend_from_slice(&spec.script_cmr);
        let leaf = sha(&m);
        let path_hash = sha(&path.concat());
        let mut e = vec![];
        e.extend_from_slice(&leaf);
        e.extend_from_slice(&path_hash);
        e.extend_from_slice(&internal_key);
        ck.value(J::TapleafHash, unit(), hash_bits(&leaf))?;
        ck.value(J::TappathHash, unit(), hash_bits(&path_hash))?;
        ck.value(J::TapEnvHash, unit(), hash_bits(&sha(&e)))?;
    }

    // lock time
    cx.label("jets: lock time");
    let lock_height = if !is_final && lt < 500_000_000 { lt } else { 0 };
    let lock_time = if !is_final && lt >= 500_000_000 { lt } else { 0 };
    let (mut distance, mut duration) = (0u16, 0u16);
    for i in &tx.input {
        let s = i.sequence.0;
        if s < 0x8000_0000 {
            if s & (1 << 22) != 0 {
                duration = duration.max(s as u16);
            } else {
                distance = distance.max(s as u16);
            }
        }
    }
    if tx.version < 2 {
        distance = 0;
        duration = 0;
    }
    ck.value(J::TxIsFinal, unit(), Bits::new().bit(is_final))?;
    ck.value(J::TxLockHeight, unit(), ix32(lock_height))?;
    ck.value(J::TxLockTime, unit(), ix32(lock_time))?;
    ck.value(J::BrokenDoNotUseTxLockDistance, unit(), Bits::new().uint(distance as u64, 16))?;
    ck.value(J::BrokenDoNotUseTxLockDuration, unit(), Bits::new().uint(duration as u64, 16))?;
    cx.label_if(lock_height > 0, "tx_lock_height > 0");
    cx.label_if(lock_time > 0, "tx_lock_time > 0");
    cx.label_if(distance > 0, "tx_lock_distance > 0");
    cx.label_if(duration > 0, "tx_lock_duration > 0");
    for (j, v) in [(J::CheckLockHeight, lock_height), (J::CheckLockTime, lock_time)] {
        let mut xs = vec![0u32, v, v.wrapping_add(1), v.wrapping_sub(1), u32::MAX, 500_000_000, 499_999_999];
        xs.dedup();
        for x in xs {
            ck.expect(j, ix32(x), if x <= v { Want::Value(unit()) } else { Want::Fails })?;
        }
    }
    for (j, v) in [(J::BrokenDoNotUseCheckLockDistance, distance), (J::BrokenDoNotUseCheckLockDuration, duration)] {
        let mut xs = vec![0u16, v, v.wrapping_add(1), v.wrapping_sub(1), u16::MAX];
        xs.dedup();
        for x in xs {
            ck.expect(j, Bits::new().uint(x as u64, 16), if x <= v { Want::Value(unit()) } else { Want::Fails })?;
        }
    }

    // per-input expectations
    struct In {
        outpoint: Bits,
        sequence: Bits,
        pegin: Option<Bits>,
        annex: Option<Option<Bits>>, // None = not asserted
        script_sig_hash: Bits,
        asset: Bits,
        amount: Bits,
        script_hash: Bits,
        issuance: Option<Bits>,        // S 2
        entropy: Option<Bits>,         // S 2^256
        asset_id: Option<Bits>,
        token_id: Option<Bits>,
        blinding: Option<Bits>,
        contract: Option<Bits>,
        re_entropy: Option<Bits>,
        asset_amount: Option<Bits>,
        token_amount: Option<Bits>,
        asset_proof: Bits,
        token_proof: Bits,
    }
    let empty_hash = sha(&[]);
    let mut ins: Vec<In> = vec![];
    for (k, (i, u)) in tx.input.iter().zip(spec.utxos.iter()).enumerate() {
        let iss = &i.asset_issuance;
        let kind = kinds[k];
        let pegin = if i.is_pegin {
            match i.witness.pegin_witness.data() {
                Some(d) => Some(hash_bits(&d.genesis_hash.to_byte_array())),
                None => return Err(harness_error("generated a peg-in input without peg-in witness")),
            }
        } else {
            None
        };
        let (entropy, asset_id, token_id) = iss_ids(i);
        let issued = kind != IssKind::None;
        ins.push(In {
            outpoint: Bits::new().bytes(&i.previous_output.txid.to_byte_array()).uint(i.previous_output.vout as u64, 32),
            sequence: ix32(i.sequence.0),
            pegin,
            annex: match &annexes[k] {
                Annex::Absent => Some(None),
                Annex::Present(d) => Some(Some(hash_bits(&sha(d)))),
                Annex::Unspecified => None,
            },
            script_sig_hash: hash_bits(&sha(i.script_sig.as_bytes())),
            asset: enc_asset(&u.asset),
            amount: enc_amount(&u.value),
            script_hash: hash_bits(&sha(u.script_pubkey.as_bytes())),
            issuance: issued.then(|| Bits::new().bit(kind == IssKind::Re)),
            entropy: issued.then(|| hash_bits(&entropy)),
            asset_id: issued.then(|| hash_bits(&asset_id)),
            token_id: issued.then(|| hash_bits(&token_id)),
            blinding: (kind == IssKind::Re).then(|| hash_bits(&iss.asset_blinding_nonce.to_byte_array())),
            contract: (kind == IssKind::New).then(|| hash_bits(&iss.asset_entropy.to_byte_array())),
            re_entropy: (kind == IssKind::Re).then(|| hash_bits(&iss.asset_entropy.to_byte_array())),
            asset_amount: issued.then(|| enc_amount(&iss.amount)),
            token_amount: issued.then(|| if kind == IssKind::New { enc_amount(&iss.inflation_keys) } else { enc_amount(&confidential::Value::Explicit(0)) }),
            asset_proof: hash_bits(&if issued && iss.amount.is_confidential() { sha(&i.witness.amount_rangeproof.to_vec()) } else { empty_hash }),
            token_proof: hash_bits(&if kind == IssKind::New && iss.inflation_keys.is_confidential() { sha(&i.witness.inflation_keys_rangeproof.to_vec()) } else { empty_hash }),
        });
    }

    // A mismatch on a peg-in jet is the known finding only when the queried input carries a
    // peg-in witness without the flag.
    macro_rules! pegin_check {
        ($k:expr, $res:expr) => {
            match $res {
                Ok(()) => {}
                Err(m) if !m.starts_with(HARNESS_ERROR_PREFIX) && pegin_mismatch(&tx.input[$k]) => cx.known_or_fail(SIG_PEGIN, || m)?,
                Err(m) => return Err(m),
            }
        };
    }

    // current input
    cx.label("jets: current input");
    {
        let k = spec.ix as usize;
        let c = &ins[k];
        ck.value(J::CurrentPrevOutpoint, unit(), c.outpoint.clone())?;
        ck.value(J::CurrentSequence, unit(), c.sequence.clone())?;
        ck.value(J::CurrentScriptSigHash, unit(), c.script_sig_hash.clone())?;
        match &c.annex {
            Some(a) => ck.value(J::CurrentAnnexHash, unit(), opt(a.clone()))?,
            None => {
                if cx.verbose {
                    let got = ck.run(J::CurrentAnnexHash, &unit())?;
                    eprintln!("  not asserted (one-item witness stack starting with 0x50): current_annex_hash() = {}", got.map(|b| b.render()).unwrap_or_else(|e| e));
                }
            }
        }
        pegin_check!(k, ck.value(J::CurrentPegin, unit(), opt(c.pegin.clone())));
        ck.value(J::CurrentAsset, unit(), c.asset.clone())?;
        ck.value(J::CurrentAmount, unit(), c.asset.clone().then(c.amount.clone()))?;
        ck.value(J::CurrentScriptHash, unit(), c.script_hash.clone())?;
        ck.value(J::CurrentIssuanceAssetAmount, unit(), opt(c.asset_amount.clone()))?;
        ck.value(J::CurrentIssuanceTokenAmount, unit(), opt(c.token_amount.clone()))?;
        ck.value(J::CurrentIssuanceAssetProof, unit(), c.asset_proof.clone())?;
        ck.value(J::CurrentIssuanceTokenProof, unit(), c.token_proof.clone())?;
        ck.value(J::CurrentNewIssuanceContract, unit(), opt(c.contract.clone()))?;
        ck.value(J::CurrentReissuanceBlinding, unit(), opt(c.blinding.clone()))?;
        ck.value(J::CurrentReissuanceEntropy, unit(), opt(c.re_entropy.clone()))?;
    }

    // indexed inputs
    cx.label("jets: indexed input");
    cx.label("jets: issuance");
    for &i in &in_idx {
        let c = ins.get(i as usize);
        let a = ix32(i);
        ck.value(J::InputPrevOutpoint, a.clone(), opt(c.map(|c| c.outpoint.clone())))?;
        ck.value(J::InputSequence, a.clone(), opt(c.map(|c| c.sequence.clone())))?;
        match c {
            Some(c) => pegin_check!(i as usize, ck.value(J::InputPegin, a.clone(), some(opt(c.pegin.clone())))),
            None => ck.value(J::InputPegin, a.clone(), none())?,
        }
        ck.value(J::InputAsset, a.clone(), opt(c.map(|c| c.asset.clone())))?;
        ck.value(J::InputAmount, a.clone(), opt(c.map(|c| c.asset.clone().then(c.amount.clone()))))?;
        ck.value(J::InputScriptHash, a.clone(), opt(c.map(|c| c.script_hash.clone())))?;
        match c.map(|c| &c.annex) {
            Some(None) => {}
            Some(Some(x)) => ck.value(J::InputAnnexHash, a.clone(), some(opt(x.clone())))?,
            None => ck.value(J::InputAnnexHash, a.clone(), none())?,
        }
        ck.value(J::InputScriptSigHash, a.clone(), opt(c.map(|c| c.script_sig_hash.clone())))?;
        ck.value(J::Issuance, a.clone(), opt(c.map(|c| opt(c.issuance.clone()))))?;
        ck.value(J::IssuanceEntropy, a.clone(), opt(c.map(|c| opt(c.entropy.clone()))))?;
        ck.value(J::IssuanceAsset, a.clone(), opt(c.map(|c| opt(c.asset_id.clone()))))?;
        ck.value(J::IssuanceToken, a.clone(), opt(c.map(|c| opt(c.token_id.clone()))))?;
        ck.value(J::IssuanceAssetAmount, a.clone(), opt(c.map(|c| opt(c.asset_amount.clone()))))?;
        ck.value(J::IssuanceTokenAmount, a.clone(), opt(c.map(|c| opt(c.token_amount.clone()))))?;
        ck.value(J::IssuanceAssetProof, a.clone(), opt(c.map(|c| c.asset_proof.clone())))?;
        ck.value(J::IssuanceTokenProof, a.clone(), opt(c.map(|c| c.token_proof.clone())))?;
        ck.value(J::NewIssuanceContract, a.clone(), opt(c.map(|c| opt(c.contract.clone()))))?;
        ck.value(J::ReissuanceBlinding, a.clone(), opt(c.map(|c| opt(c.blinding.clone()))))?;
        ck.value(J::ReissuanceEntropy, a.clone(), opt(c.map(|c| opt(c.re_entropy.clone()))))?;
    }

    // outputs
    cx.label("jets: output");
    for &i in &out_idx {
        let o = tx.output.get(i as usize);
        let a = ix32(i);
        ck.value(J::OutputAsset, a.clone(), opt(o.map(|o| enc_asset(&o.asset))))?;
        ck.value(J::OutputAmount, a.clone(), opt(o.map(|o| enc_asset(&o.asset).then(enc_amount(&o.value)))))?;
        ck.value(J::OutputNonce, a.clone(), opt(o.map(|o| enc_nonce(&o.nonce))))?;
        ck.value(J::OutputScriptHash, a.clone(), opt(o.map(|o| hash_bits(&sha(o.script_pubkey.as_bytes())))))?;
        ck.value(J::OutputIsFee, a.clone(), opt(o.map(|o| Bits::new().bit(is_fee_jet(o)))))?;
        ck.value(
            J::OutputSurjectionProof,
            a.clone(),
            opt(o.map(|o| hash_bits(&if o.asset.is_confidential() { sha(&o.witness.surjection_proof.to_vec()) } else { empty_hash }))),
        )?;
        ck.value(
            J::OutputRangeProof,
            a.clone(),
            opt(o.map(|o| hash_bits(&if o.value.is_confidential() { sha(&o.witness.rangeproof.to_vec()) } else { empty_hash }))),
        )?;
        // null data: every datum position, then out-of-range ones
        let data = null_data.get(i as usize).cloned().flatten();
        let mut js: Vec<u32> = match &data {
            Some(d) => (0..d.len() as u32).collect(),
            None => vec![0],
        };
        let l = data.as_ref().map(|d| d.len()).unwrap_or(0) as u32;
        for c in [l, l + 1, 256, 0xffff_ffff] {
            if !js.contains(&c) && (c == l || cx.src.bool()) {
                js.push(c);
            }
        }
        for j in js {
            let want = match &data {
                None => none(),
                Some(d) => some(opt(d.get(j as usize).map(enc_datum))),
            };
            ck.value(J::OutputNullDatum, ix32(i).then(ix32(j)), want)?;
        }
    }
    cx.label_if(null_data.iter().any(|d| d.is_some()), "jets: null datum of a null-data output");

    // fees
    cx.label("jets: fee");
    {
        let mut assets: Vec<[u8; 32]> = vec![];
        for o in &tx.output {
            if let confidential::Asset::Explicit(id) = o.asset {
                if !assets.contains(&id.to_byte_array()) {
                    assets.push(id.to_byte_array());
                }
            }
        }
        let mut absent = crate::gen::txenv::expand(cx.src.u16(), 32);
        absent[0] |= 0x80;
        let mut absent_a = [0u8; 32];
        absent_a.copy_from_slice(&absent);
        if !assets.contains(&absent_a) {
            assets.push(absent_a);
        }
        if !assets.contains(&[0u8; 32]) {
            assets.push([0u8; 32]);
        }
        for id in assets {
            let mut total = 0u64;
            for o in &tx.output {
                if let (true, confidential::Asset::Explicit(a), confidential::Value::Explicit(v)) = (is_fee(o), o.asset, o.value) {
                    if a.to_byte_array() == id {
                        total = total.wrapping_add(v);
                    }
                }
            }
            cx.label_if(total > 0, "total_fee > 0");
            ck.value(J::TotalFee, hash_bits(&id), Bits::new().uint(total, 64))?;
        }
    }

    // signature hash: jet vs accessor
    cx.label("sig_all_hash jet = sighash_all()");
    let sighash = ck.env.c_tx_env().sighash_all().to_byte_array();
    ck.value(J::SigAllHash, unit(), hash_bits(&sighash))?;

    let checks = ck.checks;
    let shown = std::mem::take(&mut ck.shown);
    cx.set_sample(|| json!({"environment": spec.describe(), "queried_input_indices": in_idx, "queried_output_indices": out_idx, "jet_runs": checks, "some_results": shown}));
    Ok(())
}
