//! C04 Type inference is sound, principal and order-independent.

use super::c02::bounded_display;
#[allow(unused_imports)]
use crate::engine::Spec as _SpecAlias;
use crate::engine::*;
use crate::gen::prog::*;
use crate::gen::types::from_final;
use crate::model::layout::RTy;
use crate::model::unify::{infer, Verdict};
use serde_json::json;
use simplicity::node::{CoreConstructible, DisconnectConstructible, WitnessConstructible};
use simplicity::{types, Cmr, ConstructNode, FailEntropy};
use std::collections::HashMap;
use std::sync::Arc;

pub const SPEC: Spec = Spec {
    rule: "an untyped combinator DAG of 1..45 nodes: (a) a well-typed program from G-prog with 0-3 structural mutations (combinator swapped, child re-targeted to another node, leaf replaced), (b) a purely random DAG of <= 10 nodes, or (c) a directed shape (occurs-check cycles such as disconnect x x / pair x (take x) / case over iden, doubling chains x -> pair x x / comp x x up to 30 deep, shared nodes used at conflicting types); all combinators, words and Core/Elements jets as typed leaves, witness/fail as free leaves, disconnect with and without branch; constructed in the canonical order and in K further random topological orders (K = 4 quick, 12 thorough), each in a fresh context, stopping at the first constructor error; root finalised as a program or not (drawn). Oracle: model::unify (textbook unification over rational trees + acyclicity check): library accepts <=> finite solution; every node's arrow equals the principal arrow with variables := unit; all orders agree; every error displays within 8 MiB under the fuel limit. Non-trivial: >= 6 nodes, >= 1 binary combinator, and (rejected, or some node type is not unit). Distinct by DAG.",
    design_ref: "§6 C04",
    max_len: 1200,
    quick_cases: 60_000,
    thorough_cases: 400_000,
    hang_is_violation: true,
    fuel: 1 << 23,
    ..Spec::base("C04", "Type inference is sound, principal and order-independent", case)
};

thread_local! {
    /// number of rejected constructor calls of the current case that succeeded when repeated
    static RETRY_ACCEPTS: std::cell::Cell<u32> = const { std::cell::Cell::new(0) };
}

fn construct_one<'b>(ctx: &types::Context<'b>, prog: &Prog, built: &[Option<Arc<ConstructNode<'b>>>], i: Id) -> Result<Arc<ConstructNode<'b>>, types::Error> {
    type N<'b> = Arc<ConstructNode<'b>>;
    let get = |c: Id| built[c].clone().expect("child built before parent");
    Ok(match &prog.nodes[i] {
        Ir::Iden => N::iden(ctx),
        Ir::Unit => N::unit(ctx),
        Ir::InjL(c) => N::injl(&get(*c)),
        Ir::InjR(c) => N::injr(&get(*c)),
        Ir::Take(c) => N::take(&get(*c)),
        Ir::Drop(c) => N::drop_(&get(*c)),
        Ir::Comp(a, b) => N::comp(&get(*a), &get(*b))?,
        Ir::Case(a, b) => N::case(&get(*a), &get(*b))?,
        Ir::Pair(a, b) => N::pair(&get(*a), &get(*b))?,
        Ir::AssertL(a, h) => N::assertl(&get(*a), Cmr::from_byte_array(*h))?,
        Ir::AssertR(h, b) => N::assertr(Cmr::from_byte_array(*h), &get(*b))?,
        Ir::Disconnect(a, b) => N::disconnect(&get(*a), &b.map(|b| get(b)))?,
        Ir::Witness => N::witness(ctx, None),
        Ir::Fail(e) => N::fail(ctx, FailEntropy::from_byte_array(*e)),
        Ir::Word(n, bits) => N::const_word(ctx, make_word(*n, bits)),
        Ir::Jet(j) => N::jet(ctx, j.as_dyn()),
    })
}

/// Err((index of the failing node, its error, did the SAME constructor call succeed when it was
/// simply made again)).
#[allow(clippy::type_complexity)]
fn materialize_in_order<'b>(ctx: &types::Context<'b>, prog: &Prog, order: &[Id]) -> Result<Vec<Option<Arc<ConstructNode<'b>>>>, (Id, types::Error, bool)> {
    let mut built: Vec<Option<Arc<ConstructNode<'b>>>> = vec![None; prog.nodes.len()];
    for &i in order {
        match construct_one(ctx, prog, &built, i) {
            Ok(n) => built[i] = Some(n),
            Err(e) => {
                // a rejected constructor call must stay rejected: calling it again with the same
                // arguments in the same context may not succeed (that would let an ill-typed
                // program through on the second attempt)
                let again = construct_one(ctx, prog, &built, i).is_ok();
                return Err((i, e, again));
            }
        }
    }
    Ok(built)
}

/// Display an error under the fuel meter and the 8 MiB sink; a fuel exhaustion inside the
/// display is turned into an ordinary error message (so that it can be attributed).
fn display_checked(e: &types::Error) -> Result<(), String> {
    match std::panic::catch_unwind(std::panic::AssertUnwindSafe(|| bounded_display(e))) {
        Ok(Ok(_)) => Ok(()),
        Ok(Err(m)) => Err(format!("display-unbounded: {}", m)),
        Err(p) => {
            if p.downcast_ref::<simplicity::verif_hooks::FuelExhausted>().is_some() {
                // re-arm the meter for the rest of the case
                simplicity::verif_hooks::reset(SPEC.fuel);
                Err(format!("display-unbounded: displaying the type error needs more than {} DAG-iterator steps", SPEC.fuel))
            } else {
                std::panic::resume_unwind(p)
            }
        }
    }
}

enum LibResult {
    Accepted(HashMap<Id, (u64, u64, usize, usize)>), // per node: (src hash, tgt hash, src width, tgt width)
    Rejected(String),
}

fn run_library(prog: &Prog, order: &[Id], program: bool) -> Result<LibResult, String> {
    types::Context::with_context(|ctx| {
        let built = match materialize_in_order(&ctx, prog, order) {
            Ok(b) => b,
            Err((i, e, again)) => {
                display_checked(&e)?;
                // Observation, not a violation: the property quantifies over DAGs whose nodes are
                // each constructed once (the first error rejects the program).  On the unchanged
                // tree a rejected constructor call can succeed when it is simply made again in
                // the same context (the failed unification is not undone completely), e.g.
                // `case (pair iden (assertl iden #h)) iden`; counted under a label, see DESIGN.md 7.
                let _ = i;
                if again {
                    RETRY_ACCEPTS.with(|c| c.set(c.get() + 1));
                }
                return Ok(LibResult::Rejected(format!("constructor: {}", short(&e))));
            }
        };
        let root = built[prog.root].as_ref().unwrap();
        let r = if program { root.finalize_types() } else { root.finalize_types_non_program() };
        match r {
            Err(e) => {
                display_checked(&e)?;
                Ok(LibResult::Rejected(format!("finalize: {}", short(&e))))
            }
            Ok(commit) => {
                let mut out = HashMap::new();
                for &i in order {
                    let a = built[i].as_ref().unwrap().arrow().finalize().map_err(|e| format!("node {} does not finalise after the root did: {}", i, short(&e)))?;
                    let (s, t) = (from_final(&a.source), from_final(&a.target));
                    out.insert(i, (s.hash, t.hash, s.width, t.width));
                }
                // the commit node's root arrow is the same thing
                let (cs, ct) = (from_final(&commit.arrow().source), from_final(&commit.arrow().target));
                let r = out[&prog.root];
                if (cs.hash, ct.hash) != (r.0, r.1) {
                    return Err("commit root arrow differs from the construct node's finalised arrow".into());
                }
                Ok(LibResult::Accepted(out))
            }
        }
    })
}

fn short(e: &types::Error) -> String {
    let mut s = String::new();
    use std::fmt::Write;
    let _ = write!(s, "{:.200}", match e {
        types::Error::Bind { hint, .. } => format!("Bind ({})", hint),
        types::Error::CompleteTypeMismatch { hint, .. } => format!("CompleteTypeMismatch ({})", hint),
        types::Error::OccursCheck { .. } => "OccursCheck".to_string(),
        types::Error::InferenceContextMismatch => "InferenceContextMismatch".to_string(),
        _ => "other".to_string(),
    });
    s
}

fn topo_order(src: &mut Src, prog: &Prog, reach: &[Id]) -> Vec<Id> {
    let mut done = vec![false; prog.nodes.len()];
    let mut order = vec![];
    let mut remaining: Vec<Id> = reach.to_vec();
    while !remaining.is_empty() {
        let ready: Vec<usize> = (0..remaining.len())
            .filter(|k| {
                let (a, b) = prog.nodes[remaining[*k]].children();
                a.map(|a| done[a]).unwrap_or(true) && b.map(|b| done[b]).unwrap_or(true)
            })
            .collect();
        let k = ready[src.below(ready.len())];
        let n = remaining.remove(k);
        done[n] = true;
        order.push(n);
    }
    order
}

fn small_jets(family: Family) -> Vec<JetRef> {
    all_jets(family).into_iter().filter(|j| j.source().size < 3000 && j.target().size < 3000).collect()
}

fn random_dag(src: &mut Src, n: usize, family: Family) -> Prog {
    let jets = small_jets(family);
    let mut nodes: Vec<Ir> = vec![];
    for i in 0..n {
        let pick = |s: &mut Src| s.below(i);
        let node = if i == 0 {
            [Ir::Iden, Ir::Unit, Ir::Witness][src.below(3)].clone()
        } else {
            match src.weighted(&[3, 3, 2, 2, 2, 2, 4, 3, 4, 2, 2, 2, 1, 2, 2, 1]) {
                0 => Ir::Iden,
                1 => Ir::Unit,
                2 => Ir::InjL(pick(src)),
                3 => Ir::InjR(pick(src)),
                4 => Ir::Take(pick(src)),
                5 => Ir::Drop(pick(src)),
                6 => Ir::Comp(pick(src), pick(src)),
                7 => Ir::Case(pick(src), pick(src)),
                8 => Ir::Pair(pick(src), pick(src)),
                9 => Ir::AssertL(pick(src), src.array()),
                10 => Ir::AssertR(src.array(), pick(src)),
                11 => {
                    let a = pick(src);
                    if src.bool() {
                        Ir::Disconnect(a, Some(pick(src)))
                    } else {
                        Ir::Disconnect(a, None)
                    }
                }
                12 => Ir::Fail(src.array()),
                13 => Ir::Witness,
                14 => {
                    let k = src.below(5);
                    Ir::Word(k, (0..(1usize << k)).map(|_| src.bool()).collect())
                }
                _ => Ir::Jet(jets[src.below(jets.len())]),
            }
        };
        nodes.push(node);
    }
    Prog { root: n - 1, nodes, family }
}

fn directed_shape(src: &mut Src, family: Family) -> Prog {
    let mut nodes: Vec<Ir> = vec![];
    let mut push = |ir: Ir| {
        nodes.push(ir);
        nodes.len() - 1
    };
    match src.below(11) {
        8 => {
            // a product whose two halves are the same variable (pair x x : A -> V * V) meets a
            // complete product type with equal or unequal halves (a jet's source, or words)
            let jets: Vec<JetRef> = small_jets(family).into_iter().filter(|j| matches!(j.source().kind, crate::model::layout::RTyKind::Prod(..))).collect();
            let x = push([Ir::Iden, Ir::Witness, Ir::Unit, Ir::Word(1, vec![false; 2])][src.below(4)].clone());
            let p = push(Ir::Pair(x, x));
            let consumer = if !jets.is_empty() {
                push(Ir::Jet(jets[src.below(jets.len())]))
            } else {
                let i = push(Ir::Iden);
                push(Ir::Take(i))
            };
            push(Ir::Comp(p, consumer));
        }
        9 => {
            // a consumer whose source is V * V (pair (take x) (drop x) with one shared x) fed by a
            // complete product with equal or unequal halves
            let x = push([Ir::Iden, Ir::Unit, Ir::Witness][src.below(3)].clone());
            let t = push(Ir::Take(x));
            let d = push(Ir::Drop(x));
            let q = push(Ir::Pair(t, d));
            let ka = src.below(5);
            let kb = if src.bool() { ka } else { src.below(5) };
            let wa = push(Ir::Word(ka, vec![false; 1 << ka]));
            let wb = push(Ir::Word(kb, vec![true; 1 << kb]));
            let prod = push(Ir::Pair(wa, wb));
            push(Ir::Comp(prod, q));
        }
        10 => {
            // a sum whose two arms are the same variable (case x x : (A + A) * C -> D) fed by a
            // complete sum (a jet's target, injl/injr of words on both paths is not expressible,
            // so jets with a sum target are used) paired with unit
            let jets: Vec<JetRef> = small_jets(family).into_iter().filter(|j| matches!(j.target().kind, crate::model::layout::RTyKind::Sum(..))).collect();
            let x = push([Ir::Unit, Ir::Witness][src.below(2)].clone());
            let x = if src.bool() { x } else { let i = push(Ir::Iden); push(Ir::Take(i)) };
            let c = push(Ir::Case(x, x));
            if jets.is_empty() {
                push(Ir::Comp(c, x));
            } else {
                let j = jets[src.below(jets.len())];
                let jn = push(Ir::Jet(j));
                // feed the jet from a witness (free source), pair its result with unit
                let w = push(Ir::Witness);
                let call = push(Ir::Comp(w, jn));
                let u = push(Ir::Unit);
                let pr = push(Ir::Pair(call, u));
                push(Ir::Comp(pr, c));
            }
        }
        7 => {
            // a huge *complete* type (word doubled d times) meeting a mismatch
            // (rare and usually small: each hit of the known display finding costs a full fuel budget)
            let d = if src.chance(40) { src.range(14, 24) } else { src.range(2, 12) };
            let mut x = push(Ir::Word(0, vec![true]));
            for _ in 0..d {
                x = push(Ir::Pair(x, x));
            }
            let w = push(Ir::Word(3, vec![false; 8]));
            let t = push(if src.bool() { Ir::Take(w) } else { Ir::Drop(w) });
            push(Ir::Comp(x, t));
        }
        0 => {
            // disconnect x x  (occurs check)
            let x = push(Ir::Iden);
            push(Ir::Disconnect(x, Some(x)));
        }
        1 => {
            // pair x (take x): x's source = x's source * _
            let x = push([Ir::Iden, Ir::Witness, Ir::Unit][src.below(3)].clone());
            let t = push(if src.bool() { Ir::Take(x) } else { Ir::Drop(x) });
            push(if src.bool() { Ir::Pair(x, t) } else { Ir::Pair(t, x) });
        }
        2 => {
            // case over iden with a projected copy
            let x = push(Ir::Iden);
            let d = push(Ir::Drop(x));
            push(Ir::Case(x, d));
        }
        3 | 4 => {
            // doubling chain
            let depth = if src.bool() { src.range(1, 12) } else { src.range(10, 30) };
            let mut x = push([Ir::Iden, Ir::Witness, Ir::Word(0, vec![true]), Ir::Unit][src.below(4)].clone());
            for _ in 0..depth {
                x = match src.below(4) {
                    0 => {
                        let i = push(Ir::Iden);
                        let j = push(Ir::Iden);
                        let p = push(Ir::Pair(i, j));
                        push(Ir::Comp(x, p))
                    }
                    1 => push(Ir::Pair(x, x)),
                    2 => push(Ir::Comp(x, x)),
                    _ => {
                        let l = push(Ir::InjL(x));
                        push(Ir::Pair(l, x))
                    }
                };
            }
            match src.below(3) {
                0 => {
                    let u = push(Ir::Unit);
                    push(Ir::Comp(x, u));
                }
                1 => {
                    // force a mismatch between the (possibly huge) type and a small complete one
                    let w = push(Ir::Word(3, vec![false; 8]));
                    let t = push(Ir::Take(w));
                    push(Ir::Comp(x, t));
                }
                _ => {}
            }
        }
        5 => {
            // a shared node used at two conflicting types
            let x = push(Ir::Iden);
            let w = push(Ir::Word(src.below(4), vec![false; 1]));
            let _ = w;
            let a = push(Ir::InjL(x));
            let b = push(Ir::Take(x));
            let p = push(Ir::Pair(a, b));
            let u = push(Ir::Unit);
            push(Ir::Comp(p, u));
        }
        _ => {
            // long unary chain over a shared leaf
            let depth = src.range(5, 40);
            let mut x = push(Ir::Iden);
            for _ in 0..depth {
                x = match src.below(5) {
                    0 => push(Ir::InjL(x)),
                    1 => push(Ir::InjR(x)),
                    2 => push(Ir::Take(x)),
                    3 => push(Ir::Drop(x)),
                    _ => push(Ir::Disconnect(x, None)),
                };
            }
        }
    }
    // fix up the word in shape 5 (length must be 2^n)
    for n in nodes.iter_mut() {
        if let Ir::Word(k, bits) = n {
            if bits.len() != 1 << *k {
                *bits = vec![false; 1 << *k];
            }
        }
    }
    Prog { root: nodes.len() - 1, nodes, family }
}

fn mutate(src: &mut Src, prog: &mut Prog) {
    let reach = prog.reachable();
    let i = reach[src.below(reach.len())];
    let other = |s: &mut Src| if i == 0 { 0 } else { s.below(i) };
    prog.nodes[i] = match prog.nodes[i].clone() {
        Ir::InjL(c) => [Ir::InjR(c), Ir::Take(c), Ir::Drop(c), Ir::InjL(other(src))][src.below(4)].clone(),
        Ir::InjR(c) => [Ir::InjL(c), Ir::Take(c), Ir::Drop(c)][src.below(3)].clone(),
        Ir::Take(c) => [Ir::Drop(c), Ir::InjL(c), Ir::Take(other(src))][src.below(3)].clone(),
        Ir::Drop(c) => [Ir::Take(c), Ir::InjR(c), Ir::Drop(other(src))][src.below(3)].clone(),
        Ir::Comp(a, b) => [Ir::Pair(a, b), Ir::Comp(b, a), Ir::Case(a, b), Ir::Comp(a, other(src))][src.below(4)].clone(),
        Ir::Pair(a, b) => [Ir::Comp(a, b), Ir::Pair(b, a), Ir::Case(a, b), Ir::Pair(other(src), b)][src.below(4)].clone(),
        Ir::Case(a, b) => [Ir::Pair(a, b), Ir::Case(b, a), Ir::Comp(a, b), Ir::AssertL(a, [7; 32])][src.below(4)].clone(),
        Ir::AssertL(a, h) => [Ir::AssertR(h, a), Ir::Take(a)][src.below(2)].clone(),
        Ir::AssertR(h, a) => [Ir::AssertL(a, h), Ir::Drop(a)][src.below(2)].clone(),
        Ir::Disconnect(a, b) => [Ir::Disconnect(a, None), Ir::Take(a), Ir::Disconnect(a, b.or(Some(other(src))))][src.below(3)].clone(),
        Ir::Iden => [Ir::Unit, Ir::Witness][src.below(2)].clone(),
        Ir::Unit => [Ir::Iden, Ir::Witness][src.below(2)].clone(),
        Ir::Witness => [Ir::Iden, Ir::Unit][src.below(2)].clone(),
        Ir::Word(n, bits) => [Ir::Word(n, bits), Ir::Iden, Ir::Unit][src.below(3)].clone(),
        Ir::Jet(j) => {
            let js = small_jets(prog.family);
            [Ir::Jet(js[src.below(js.len())]), Ir::Jet(j), Ir::Iden][src.below(3)].clone()
        }
        Ir::Fail(e) => [Ir::Fail(e), Ir::Iden][src.below(2)].clone(),
    };
}

pub fn case(cx: &mut Case) -> CaseResult {
    RETRY_ACCEPTS.with(|c| c.set(0));
    let r = case_inner(cx);
    cx.label_if(RETRY_ACCEPTS.with(|c| c.get()) > 0, "observation: a rejected constructor call succeeds when repeated in the same context");
    r
}

fn case_inner(cx: &mut Case) -> CaseResult {
    let family = if cx.src.bool() { Family::Elements } else { Family::Core };
    let prog = match cx.src.weighted(&[5, 3, 3]) {
        0 => {
            cx.label("population: mutated well-typed program");
            let mut cfg = GenCfg::basic(family);
            cfg.jet_pool = Some(small_jets(family));
            cfg.max_nodes = [6usize, 15, 35][cx.src.below(3)];
            cfg.share_p = [0u32, 50, 120][cx.src.below(3)];
            cfg.max_mid_width = 24;
            let (a, b) = gen_arrow(&mut cx.src, 20);
            let mut s = cx.src.clone();
            let mut g = ProgGen::new(&mut s, cfg);
            let e = g.expr(&a, &b, 0);
            let mut p = g.finish(e);
            cx.src = s;
            // keep the node count within bounds
            if p.reachable().len() > 60 {
                p = random_dag(&mut cx.src, 6, family);
            }
            let k = cx.src.below(4);
            for _ in 0..k {
                mutate(&mut cx.src, &mut p);
            }
            cx.label_if(k == 0, "unmutated");
            p
        }
        1 => {
            cx.label("population: random DAG");
            let n = cx.src.range(1, 10);
            random_dag(&mut cx.src, n, family)
        }
        _ => {
            cx.label("population: directed shape");
            directed_shape(&mut cx.src, family)
        }
    };
    let program = cx.src.chance(90);
    let reach = prog.reachable();
    prog.fingerprint(&mut cx.fp);
    cx.fp.write_u64(program as u64);
    let model = infer(&prog, program);
    let n_binary = reach.iter().filter(|i| prog.nodes[**i].children().1.is_some()).count();
    let some_non_unit = model.arrows.values().any(|(a, b)| !a.is_unit() || !b.is_unit());
    cx.nontrivial = reach.len() >= 6 && n_binary >= 1 && (model.verdict != Verdict::WellTyped || some_non_unit);
    cx.label(match model.verdict {
        Verdict::WellTyped => "model: well-typed",
        Verdict::Clash => "model: constructor clash",
        Verdict::Infinite => "model: infinite type (occurs check)",
    });
    cx.label_if(model.max_type_size >= 1 << 16, "type with >= 2^16 tree nodes");
    cx.set_sample(|| json!({"dag": prog.render(), "as_program": program, "model": format!("{:?}", model.verdict), "root_arrow": model.arrows.get(&prog.root).map(|(a, b)| format!("{} -> {}", a.show_short(), b.show_short()))}));

    // Known finding F6 is keyed on the DAG: some sub-DAG, typed in isolation, has a complete type
    // of at least 2^16 tree nodes (its Display is not bounded).
    let huge_complete_type = || -> bool {
        reach.iter().any(|i| {
            let sub = Prog { nodes: prog.nodes.clone(), root: *i, family: prog.family };
            let m = infer(&sub, false);
            m.verdict == Verdict::WellTyped && m.max_type_size >= 1 << 16
        })
    };

    let k_orders = cx.tier.pick(4, 12);
    let mut orders: Vec<Vec<Id>> = vec![reach.clone()];
    for _ in 0..k_orders {
        let o = topo_order(&mut cx.src, &prog, &reach);
        orders.push(o);
    }
    let mut first: Option<Option<HashMap<Id, (u64, u64, usize, usize)>>> = None;
    for (oi, order) in orders.iter().enumerate() {
        let lib = match run_library(&prog, order, program) {
            Ok(l) => l,
            Err(m) => {
                // bounded_display failed or an internal inconsistency was seen
                if m.starts_with("display-unbounded") && huge_complete_type() {
                    cx.known_or_fail("type-error-display-unbounded-for-large-complete-type", || format!("{}; dag {}", m, prog.render()))?;
                    cx.label("error display unbounded (known finding)");
                    return Ok(());
                }
                return Err(format!("{}; dag {}", m, prog.render()));
            }
        };
        let this = match lib {
            LibResult::Accepted(a) => Some(a),
            LibResult::Rejected(why) => {
                if model.verdict == Verdict::WellTyped {
                    return Err(format!("library rejects ({}) a DAG whose constraints have a finite solution (construction order #{} {:?}); dag {}", why, oi, order, prog.render()));
                }
                cx.label(if why.starts_with("constructor") { "library: rejected by a constructor" } else { "library: rejected at finalisation" });
                None
            }
        };
        if let Some(arrows) = &this {
            if model.verdict != Verdict::WellTyped {
                return Err(format!("library accepts a DAG that the reference unifier rejects ({:?}) (construction order #{}); dag {}", model.verdict, oi, prog.render()));
            }
            for i in &reach {
                let (ms, mt) = &model.arrows[i];
                let (ls, lt, lsw, ltw) = arrows[i];
                if (ms.hash, mt.hash) != (ls, lt) {
                    return Err(format!("node {} ({}) has a different arrow than the principal one {} -> {} (widths: library {} -> {}, model {} -> {}), construction order #{}; dag {}", i, prog.nodes[*i].kind(), ms.show_short(), mt.show_short(), lsw, ltw, ms.width, mt.width, oi, prog.render()));
                }
            }
        }
        match &first {
            None => first = Some(this),
            Some(f) => {
                if f.is_some() != this.is_some() {
                    return Err(format!("construction orders disagree on acceptance (order #0 {}, order #{} {}); dag {}", f.is_some(), oi, this.is_some(), prog.render()));
                }
                if let (Some(a), Some(b)) = (f, &this) {
                    if a != b {
                        return Err(format!("construction orders give different arrows (order #{}); dag {}", oi, prog.render()));
                    }
                }
            }
        }
    }
    let _ = RTy::unit;
    Ok(())
}
