//! C12 Redemption programs only ever carry well-typed witnesses.

use super::c01::{decode_redeem, gen_unit_program};
use crate::engine::*;
use crate::gen::build::*;
use crate::gen::prog::*;
use crate::gen::types::{gen_bigger_ty, gen_smaller_ty, gen_ty, to_final};
use crate::gen::values::*;
use crate::model::layout::*;
use serde_json::json;
use simplicity::dag::{DagLike, InternalSharing, MaxSharing};
use simplicity::human_encoding::Forest;
use simplicity::jet::CoreEnv;
use simplicity::node::Inner;
use simplicity::{types, BitMachine, RedeemNode, Value};
use std::collections::HashMap;
use std::sync::Arc;

pub const SPEC: Spec = Spec {
    rule: "a 1->1 Core program IR with witness nodes (on executed and on unexecuted branches); for every witness node a candidate value is drawn: of the inferred target type, of a wider type, of a narrower type, of an equal-width type of different shape, unit, or missing; routes: (A) construction-time witnesses + finalize_unpruned, (B) + finalize_pruned, (C) Forest::from_program + to_witness_node(name -> value map) + finalize_unpruned / finalize_pruned. Oracle: no panic; the result is Err, or a program in which every witness value has exactly its node's target type, whose serialisation decodes back to it and whose execution does not panic. Non-trivial: >= 1 witness with a wrong-typed candidate of non-zero width. Distinct by (program, candidates).",
    design_ref: "§6 C12",
    max_len: 1500,
    quick_cases: 40_000,
    thorough_cases: 250_000,
    ..Spec::base("C12", "Redemption programs only ever carry well-typed witnesses", case)
};

#[derive(Clone, Copy, Debug, PartialEq, Eq)]
enum Cand {
    Right,
    Wider,
    Narrower,
    SameWidthOtherShape,
    UnitValue,
    Missing,
}

fn same_width_other_shape(src: &mut Src, ty: &Arc<RTy>) -> Option<Arc<RTy>> {
    // a type of the same width but different structure
    let w = ty.width;
    if w == 0 {
        return None;
    }
    for _ in 0..6 {
        let cand = match src.below(3) {
            0 => {
                // 2 * 2 * ... (w bits as a right-nested product of bits)
                let mut t = RTy::two();
                for _ in 1..w.min(64) {
                    t = RTy::prod(RTy::two(), t);
                }
                t
            }
            1 => {
                // sum with padding: (unit + X) where X has w-1 bits
                let mut t = RTy::unit();
                for _ in 0..(w - 1).min(64) {
                    t = RTy::prod(RTy::two(), t);
                }
                RTy::sum(RTy::unit(), t)
            }
            _ => gen_ty(src, w, 3),
        };
        if cand.width == w && *cand != **ty {
            return Some(cand);
        }
    }
    None
}

/// Check a finalised program: every witness well-typed; serialisation decodes back; runs.
/// Returns Ok(false) when the program is ill-typed and that is a listed known finding (the
/// program must then not be used any further).
fn check_result(what: &str, redeem: &Arc<RedeemNode>, prog: &Prog, any_wrong: bool, cx: &mut Case) -> Result<bool, String> {
    let mut mistyped = vec![];
    for d in redeem.as_ref().post_order_iter::<InternalSharing>() {
        if let Inner::Witness(v) = d.node.inner() {
            if !v.is_of_type(&d.node.arrow().target) {
                mistyped.push(format!("witness of type {} at a node with target type {}", v.ty(), d.node.arrow().target));
            }
        }
    }
    if !mistyped.is_empty() {
        if !any_wrong {
            return Err(format!("{} returned an ill-typed program although every candidate had the right type: {}", what, mistyped.join("; ")));
        }
        cx.known_or_fail("finalize-attaches-witness-without-type-check", || format!("{} returned a redemption program carrying {}; program {}", what, mistyped.join("; "), prog.render()))?;
        return Ok(false);
    }
    // own serialisation decodes back to the same bytes
    let (pb, wb) = redeem.to_vec_with_witness();
    match decode_redeem(Family::Core, &pb, &wb) {
        Ok(d) => {
            // route (D), decoding from bytes: the decoded witnesses have their node's target type
            for x in d.as_ref().post_order_iter::<InternalSharing>() {
                if let Inner::Witness(v) = x.node.inner() {
                    if !v.is_of_type(&x.node.arrow().target) {
                        return Err(format!("{}: RedeemNode::decode of the program's serialisation returns a witness of type {} at a node with target type {} (program {})", what, v.ty(), x.node.arrow().target, prog.render()));
                    }
                }
            }
            cx.label("decode route checked");
            let (pb2, wb2) = d.to_vec_with_witness();
            if pb2 != pb || wb2 != wb {
                return Err(format!("{}: the program's serialisation decodes to a different program", what));
            }
        }
        Err(e) => return Err(format!("{}: the returned program's own serialisation fails to decode: {} (program {})", what, e, prog.render())),
    }
    // execution: no panic, output of the right width (unit)
    if let Ok(mut mac) = BitMachine::for_program(redeem) {
        if let Ok(v) = mac.exec(redeem, &CoreEnv::new()) {
            if !v.is_of_type(&redeem.arrow().target) {
                return Err(format!("{}: execution produced a value of type {} for target {}", what, v.ty(), redeem.arrow().target));
            }
            cx.label("result runs");
        } else {
            cx.label("result fails at run time");
        }
    }
    Ok(true)
}

/// Run a library call that may panic on ill-typed witnesses; classify the panic.
fn guarded<T>(what: &str, any_wrong: bool, cx: &mut Case, f: impl FnOnce() -> T) -> Result<Option<T>, String> {
    match std::panic::catch_unwind(std::panic::AssertUnwindSafe(f)) {
        Ok(v) => Ok(Some(v)),
        Err(_) => {
            if any_wrong {
                cx.known_or_fail("finalize-or-prune-panics-on-ill-typed-witness", || format!("{} panicked on a program with a wrong-typed witness candidate", what))?;
                Ok(None)
            } else {
                Err(format!("{} panicked although every witness candidate had the right type", what))
            }
        }
    }
}

/// Route (E): a source text with several roots.  `main` contains 2..4 disconnect nodes whose
/// holes are named after other roots of the forest (`Forest::to_witness_node` fills each hole
/// with a copy of that root); the hole expression is polymorphic and is used at a different word
/// type at each place, either under ONE shared hole name or under a name of its own.  Each use
/// is fed by a witness of the right type from the name -> value map and its output is compared
/// with a constant by an equality jet.  All candidates are right-typed, so any Err, panic,
/// ill-typed witness or non-decodable result is a violation.
fn forest_holes_route(cx: &mut Case) -> CaseResult {
    cx.label("route E: forest with named hole expressions");
    let m = cx.src.range(2, 4);
    let shared_name = cx.src.chance(170);
    let hole_expr = cx.src.below(2); // 0: iden, 1: pair iden iden
    cx.label(if shared_name { "route E: one hole name used by several disconnect nodes" } else { "route E: one hole name per disconnect node" });
    let mut text = String::new();
    let mut witness: HashMap<Arc<str>, Value> = HashMap::new();
    let mut checks = vec![];
    let n_names = if shared_name { 1 } else { m };
    for k in 0..n_names {
        text.push_str(&format!("h{} := {}\n", k, if hole_expr == 0 { "iden" } else { "pair iden iden" }));
    }
    for i in 0..m {
        let bits = [8usize, 16, 32, 64][cx.src.below(4)];
        let v = cx.src.u64() & if bits == 64 { u64::MAX } else { (1u64 << bits) - 1 };
        let equal = cx.src.chance(200);
        let c = if equal { v } else { v ^ 1 };
        let value = match bits {
            8 => Value::u8(v as u8),
            16 => Value::u16(v as u16),
            32 => Value::u32(v as u32),
            _ => Value::u64(v),
        };
        witness.insert(Arc::from(format!("w{}", i).as_str()), value);
        let hole = if shared_name { 0 } else { i };
        let post = if hole_expr == 0 { "drop iden" } else { "drop (take iden)" };
        text.push_str(&format!("w{} := witness\n", i));
        text.push_str(&format!(
            "chk{i} := comp (pair (comp (comp w{i} (disconnect (drop (pair unit iden)) ?h{hole})) ({post})) (const 0x{c:0width$x})) jet_eq_{bits}\n",
            i = i,
            hole = hole,
            post = post,
            c = c,
            width = bits / 4,
            bits = bits
        ));
        checks.push(format!("chk{}", i));
    }
    // main := comp (pair chk0 (pair chk1 ..)) unit
    let mut acc = checks.pop().unwrap();
    while let Some(c) = checks.pop() {
        acc = format!("pair {} ({})", c, acc);
    }
    text.push_str(&format!("main := comp ({}) unit\n", acc));
    cx.fp.write(text.as_bytes());
    cx.nontrivial = true;
    cx.set_sample(|| json!({"route": "E", "text": text}));
    let forest = Forest::parse::<simplicity::jet::Core>(&text).map_err(|e| harness_error(format!("route E text rejected: {}\n{}", e, text)))?;
    let dummy = Prog { nodes: vec![Ir::Unit], root: 0, family: Family::Core };
    for pruned in [false, true] {
        let what = if pruned { "route E (to_witness_node + finalize_pruned)" } else { "route E (to_witness_node + finalize_unpruned)" };
        let r = guarded(what, false, cx, || {
            types::Context::with_context(|ctx| {
                let node = forest.to_witness_node(&ctx, &witness)?;
                Some(if pruned { node.finalize_pruned(&CoreEnv::new()).map_err(|e| e.to_string()) } else { node.finalize_unpruned().map_err(|e| e.to_string()) })
            })
        })
        .map_err(|e| format!("{}\n  text:\n{}", e, text))?;
        match r {
            Some(Some(Ok(redeem))) => {
                check_result(what, &redeem, &dummy, false, cx).map_err(|e| format!("{}\n  text:\n{}", e, text))?;
            }
            Some(Some(Err(e))) => return Err(format!("{} fails although every witness has the right type: {}\n  text:\n{}", what, e, text)),
            Some(None) => return Err(harness_error("route E: forest without main")),
            None => {}
        }
    }
    Ok(())
}

pub fn case(cx: &mut Case) -> CaseResult {
    if cx.src.chance(24) {
        return forest_holes_route(cx);
    }
    let g = gen_unit_program(cx, false, true);
    let prog = &g.prog;
    if !prog.has("witness") {
        cx.label("no witness node");
    }
    let typed = type_check(prog, true).map_err(|e| harness_error(format!("generated IR rejected: {:?}; {}", e, prog.render())))?;
    prog.fingerprint(&mut cx.fp);
    let mut vb = ValBuilder::new();
    vb.constructors_only = true; // witness values by plain constructors: the value decoders are not this check's subject (C10) and must not make the harness inconsistent
    let mut values: HashMap<Id, Value> = HashMap::new();
    let mut desc: Vec<String> = vec![];
    let mut any_wrong_nonzero = false;
    let mut any_wrong = false;
    for i in prog.reachable() {
        if !matches!(prog.nodes[i], Ir::Witness) {
            continue;
        }
        let ty = typed.arrows[&i].1.clone();
        let kind = [Cand::Right, Cand::Right, Cand::Wider, Cand::Narrower, Cand::SameWidthOtherShape, Cand::UnitValue, Cand::Missing][cx.src.below(7)];
        let cand_ty: Option<Arc<RTy>> = match kind {
            Cand::Right => Some(ty.clone()),
            Cand::Wider => {
                let t = gen_bigger_ty(&mut cx.src, &ty, 40, 200);
                Some(if *t == *ty { RTy::prod(ty.clone(), RTy::two()) } else { t })
            }
            Cand::Narrower => Some(gen_smaller_ty(&mut cx.src, &ty, 120)),
            Cand::SameWidthOtherShape => same_width_other_shape(&mut cx.src, &ty).or(Some(ty.clone())),
            Cand::UnitValue => Some(RTy::unit()),
            Cand::Missing => None,
        };
        cx.fp.write_u64(kind as u64);
        if let Some(ct) = cand_ty {
            let rv = gen_val(&mut cx.src, &ct);
            let mut tr = Trace::default();
            let mut s = cx.src.clone();
            let v = vb.build(&mut s, &ct, &rv, 1, &mut tr);
            cx.src = s;
            let wrong = *ct != *ty;
            any_wrong |= wrong;
            any_wrong_nonzero |= wrong && (ct.width > 0 || ty.width > 0);
            cx.fp.write(ct.show().as_bytes());
            desc.push(format!("node {}: target {} candidate {:?} {} : {}", i, ty.show_short(), kind, rv.show_short(&ct), ct.show_short()));
            values.insert(i, v);
            cx.label(match kind {
                Cand::Right => "candidate: right type",
                Cand::Wider => "candidate: wider",
                Cand::Narrower => "candidate: narrower",
                Cand::SameWidthOtherShape => "candidate: same width, other shape",
                Cand::UnitValue => "candidate: unit",
                Cand::Missing => "candidate: missing",
            });
        } else {
            desc.push(format!("node {}: target {} candidate missing", i, ty.show_short()));
            cx.label("candidate: missing");
        }
    }
    cx.nontrivial = any_wrong_nonzero;
    cx.label_if(any_wrong, "some candidate has the wrong type");
    cx.set_sample(|| json!({"program": prog.render(), "candidates": desc}));
    let _ = to_final;

    // Route A: finalize_unpruned
    match guarded("finalize_unpruned", any_wrong, cx, || build_redeem(prog, true, &values))? {
        Some(Ok(r)) => {
            cx.label("A: finalize_unpruned Ok");
            if check_result("finalize_unpruned", &r, prog, any_wrong, cx)? {
                // pruning the result must not panic either
                match r.prune(&CoreEnv::new()) {
                    Ok(p) => {
                        check_result("finalize_unpruned + prune", &p, prog, any_wrong, cx)?;
                    }
                    Err(_) => cx.label("A: prune reports an error"),
                }
            }
        }
        Some(Err(BuildError::Finalize(_))) => cx.label("A: finalize_unpruned Err"),
        Some(Err(BuildError::Type(e))) => return Err(harness_error(format!("route A: {}", e))),
        None => {}
    }
    // Route B: finalize_pruned
    let rb = guarded("finalize_pruned", any_wrong, cx, || {
        types::Context::with_context(|ctx| {
            let built = materialize(&ctx, prog, &values).map_err(|e| harness_error(format!("route B construction: {}", e)))?;
            let root = built[prog.root].clone().unwrap();
            root.set_arrow_to_program().map_err(|e| harness_error(format!("route B: {}", e)))?;
            Ok::<_, String>(root.finalize_pruned(&CoreEnv::new()))
        })
    })?;
    match rb {
        Some(Ok(Ok(r))) => {
            cx.label("B: finalize_pruned Ok");
            check_result("finalize_pruned", &r, prog, any_wrong, cx)?;
        }
        Some(Ok(Err(_))) => cx.label("B: finalize_pruned Err"),
        Some(Err(e)) => return Err(e),
        None => {}
    }
    // Route C: the human-readable witness map
    if !prog.has("disconnect") {
        let forest = Forest::from_program(typed.commit.clone());
        let main = forest.roots().get("main").ok_or_else(|| harness_error("forest without main"))?.clone();
        let mut names: Vec<Arc<str>> = vec![];
        for d in main.as_ref().post_order_iter::<MaxSharing<_>>() {
            if let Inner::Witness(..) = d.node.inner() {
                names.push(d.node.name().clone());
            }
        }
        let wit_ids: Vec<Id> = prog.reachable().into_iter().filter(|i| matches!(prog.nodes[*i], Ir::Witness)).collect();
        if names.len() == wit_ids.len() {
            // Witness nodes are unshared at commitment time, so there is one name per witness
            // node; candidates are assigned in order (which candidate meets which node does not
            // matter for the oracle, so a right-typed candidate may become a wrong-typed one).
            let map: HashMap<Arc<str>, Value> = names.iter().zip(wit_ids.iter()).filter_map(|(n, i)| values.get(i).map(|v| (n.clone(), v.shallow_clone()))).collect();
            let any_wrong_c = any_wrong || map.len() >= 2;
            let rc = guarded("to_witness_node + finalize", any_wrong_c, cx, || {
                types::Context::with_context(|ctx| {
                    let node = forest.to_witness_node(&ctx, &map).ok_or_else(|| harness_error("to_witness_node returned None"))?;
                    Ok::<_, String>(node.finalize_unpruned())
                })
            })?;
            match rc {
                Some(Ok(Ok(r))) => {
                    cx.label("C: witness map + finalize_unpruned Ok");
                    check_result("to_witness_node + finalize_unpruned", &r, prog, any_wrong_c, cx)?;
                }
                Some(Ok(Err(_))) => cx.label("C: finalize_unpruned Err"),
                Some(Err(e)) => return Err(e),
                None => {}
            }
            let rc2 = guarded("to_witness_node + finalize_pruned", any_wrong_c, cx, || {
                types::Context::with_context(|ctx| {
                    let node = forest.to_witness_node(&ctx, &map).ok_or_else(|| harness_error("to_witness_node returned None"))?;
                    Ok::<_, String>(node.finalize_pruned(&CoreEnv::new()))
                })
            })?;
            match rc2 {
                Some(Ok(Ok(r))) => {
                    cx.label("C: witness map + finalize_pruned Ok");
                    check_result("to_witness_node + finalize_pruned", &r, prog, any_wrong_c, cx)?;
                }
                Some(Ok(Err(_))) => cx.label("C: finalize_pruned Err"),
                Some(Err(e)) => return Err(e),
                None => {}
            }
        } else {
            cx.label("C: skipped (witness count differs under sharing)");
        }
    }
    Ok(())
}
