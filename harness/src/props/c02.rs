//! C02 Decoder is total and accepts only the canonical encoding.

use super::c01::gen_unit_program;
use crate::engine::*;
use crate::gen::build::*;
use crate::gen::prog::*;
use crate::gen::values::*;
use crate::model::bits::{pack, unpack, Bits};
use crate::model::wire::{self, JetCodes, WNode};
use serde_json::json;
use simplicity::jet::{Core, Elements};
use simplicity::{types, BitIter, CommitNode, ConstructNode, RedeemNode};

pub const SPEC: Spec = Spec {
    rule: "mode raw: arbitrary bytes split into program and witness; mode mutate: the encoding of a generated well-typed program (Core or Elements) with 1-4 mutations (bit flip, byte overwrite, truncate, extend, splice with a second program, witness edits); mode negative: one canonicity rule violated at a time, assembled with an independent bit-level writer from the wire form of a generated program (unused node inserted, two independent adjacent nodes swapped, a witness-free shared sub-expression duplicated, a hidden node repeated, trailing byte on program / witness, non-zero padding bit in program / witness, witness one byte short) - each must be rejected while its canonical twin must be accepted; mode inner-type duplicate: a hand-assembled 17-node DAG with two unshared `comp (inj a) unit` nodes of one identity hash whose inner types differ (free vs forced to a word type through a shared iden), which the redeem decoder must reject while accepting the twin with the two merged. All inputs go to RedeemNode::decode (family of the program; raw inputs: both families), CommitNode::decode and ConstructNode::decode. Oracle: no panic (overflow checks on), <= 2^28 DAG steps, peak allocation <= 96 MiB + 4096*len; Ok(p) => p.to_vec_with_witness() == input (commit: to_vec_without_witness() == input unless the reference reader sees a two-child disconnect). Non-trivial: the input decodes with >= 4 nodes, or is a directed negative derived from a program with >= 4 nodes. Distinct by input bytes.",
    design_ref: "§6 C02",
    max_len: 1500,
    quick_cases: 40_000,
    thorough_cases: 1_500_000,
    alloc_limit: 96 << 20,
    hang_is_violation: true,
    fuzz: Some(FuzzSpec { target: "c02_decode", prefix: &[0], max_len: 4096, quick_runs: 20_000, thorough_runs: 200_000, jobs: 16 }),
    ..Spec::base("C02", "Decoder is total and accepts only the canonical encoding", case)
};

thread_local! {
    static CORE_CODES: JetCodes = JetCodes::new(Family::Core);
    static ELEMENTS_CODES: JetCodes = JetCodes::new(Family::Elements);
}

fn with_codes<T>(family: Family, f: impl FnOnce(&JetCodes) -> T) -> T {
    match family {
        Family::Core => CORE_CODES.with(|c| f(c)),
        Family::Elements => ELEMENTS_CODES.with(|c| f(c)),
    }
}

#[derive(Debug)]
pub struct Verdict {
    pub redeem_ok: bool,
    pub commit_ok: bool,
    pub construct_ok: bool,
    pub nodes: usize,
}

/// Feed one (program, witness) pair to the three decoders of one family and apply the
/// canonicity oracle to whatever is accepted.
pub fn decode_all(family: Family, prog: &[u8], wit: &[u8]) -> Result<Verdict, String> {
    let mut v = Verdict { redeem_ok: false, commit_ok: false, construct_ok: false, nodes: 0 };
    let r = match family {
        Family::Core => RedeemNode::decode::<_, _, Core>(BitIter::from(prog), BitIter::from(wit)),
        Family::Elements => RedeemNode::decode::<_, _, Elements>(BitIter::from(prog), BitIter::from(wit)),
    };
    match r {
        Ok(p) => {
            v.redeem_ok = true;
            let (pb, wb) = p.to_vec_with_witness();
            if pb != prog || wb != wit {
                return Err(format!("RedeemNode::decode accepted {} / {} but the result re-encodes as {} / {}", hex(prog), hex(wit), hex(&pb), hex(&wb)));
            }
            v.nodes = simplicity::dag::DagLike::post_order_iter::<simplicity::dag::InternalSharing>(p.as_ref()).count();
            // the error path of everything displayable must terminate as well
            let _ = format!("{}", p.arrow());
        }
        Err(e) => {
            let _ = bounded_display(&e)?;
        }
    }
    let c = match family {
        Family::Core => CommitNode::decode::<_, Core>(BitIter::from(prog)),
        Family::Elements => CommitNode::decode::<_, Elements>(BitIter::from(prog)),
    };
    match c {
        Ok(p) => {
            v.commit_ok = true;
            let pb = p.to_vec_without_witness();
            if pb != prog {
                // allowed only when a disconnect node carried an attached branch
                let two_child_disconnect = with_codes(family, |codes| match wire::read_program(&unpack(prog), codes, 1 << 20) {
                    Ok((nodes, _)) => nodes.iter().any(|n| matches!(n, WNode::Disconnect(..))),
                    Err(_) => false,
                });
                if !two_child_disconnect {
                    return Err(format!("CommitNode::decode accepted {} but the result re-encodes as {}", hex(prog), hex(&pb)));
                }
            }
            v.nodes = v.nodes.max(simplicity::dag::DagLike::post_order_iter::<simplicity::dag::InternalSharing>(p.as_ref()).count());
        }
        Err(e) => {
            let _ = bounded_display(&e)?;
        }
    }
    let k = types::Context::with_context(|ctx| {
        let r = match family {
            Family::Core => ConstructNode::decode::<_, Core>(&ctx, BitIter::from(prog)),
            Family::Elements => ConstructNode::decode::<_, Elements>(&ctx, BitIter::from(prog)),
        };
        match r {
            Ok(_) => Ok(true),
            Err(e) => bounded_display(&e).map(|_| false),
        }
    })?;
    v.construct_ok = k;
    if v.commit_ok && !v.construct_ok {
        return Err("CommitNode::decode accepts what ConstructNode::decode rejects".into());
    }
    Ok(v)
}

/// Display an error into a sink that refuses more than 8 MiB.
pub fn bounded_display<T: std::fmt::Display>(e: &T) -> Result<usize, String> {
    struct Sink(usize);
    impl std::fmt::Write for Sink {
        fn write_str(&mut self, s: &str) -> std::fmt::Result {
            self.0 += s.len();
            if self.0 > 8 << 20 {
                Err(std::fmt::Error)
            } else {
                Ok(())
            }
        }
    }
    let mut s = Sink(0);
    use std::fmt::Write;
    match write!(s, "{}", e) {
        Ok(()) => Ok(s.0),
        Err(_) => Err(format!("displaying the decoder's error needs more than 8 MiB of text ({} bytes written before giving up)", s.0)),
    }
}

struct Valid {
    family: Family,
    prog: Vec<u8>,
    wit: Vec<u8>,
    ir: Prog,
}

fn gen_valid(cx: &mut Case) -> Result<Valid, String> {
    let g = gen_unit_program(cx, false, false);
    let typed = type_check(&g.prog, true).map_err(|e| harness_error(format!("generated IR rejected: {:?}", e)))?;
    let mut vb = ValBuilder::new();
    vb.constructors_only = true; // witness values by plain constructors: the value decoders are not this check's subject (C10) and must not make the harness inconsistent
    vb.allow_machine = false;
    let mut s = cx.src.clone();
    let wit = gen_witnesses(&g.prog, &typed, &mut s, &mut vb);
    cx.src = s;
    let redeem = build_redeem(&g.prog, true, &wit.values).map_err(|e| harness_error(format!("pass 2: {:?}", e)))?;
    let (prog, wit) = redeem.to_vec_with_witness();
    Ok(Valid { family: g.family, prog, wit, ir: g.prog })
}

/// A valid program whose single witness has a type of width zero with a huge tree:
/// `comp (comp (pair witness U_k) (pair (take n) (drop n))) unit` with U_0 = unit,
/// U_{j+1} = pair U_j U_j and one shared `n = iden` (which forces both components of the pair
/// to the same type 1^(2^k), k = 20..64).  Types, roots and the (empty) witness are all handled
/// in O(k) when sharing is respected; anything that walks the type as a tree needs 2^k steps.
/// The encoding must be accepted and round-trip under the usual fuel / watchdog bounds.
fn zero_width_witness(cx: &mut Case) -> CaseResult {
    cx.label("mode: witness of a huge zero-width type");
    let k = cx.src.range(20, 64);
    let mut nodes: Vec<Ir> = vec![];
    let mut push = |ir: Ir| {
        nodes.push(ir);
        nodes.len() - 1
    };
    let w = push(Ir::Witness);
    let mut u = push(Ir::Unit);
    for _ in 0..k {
        u = push(Ir::Pair(u, u));
    }
    let p = push(Ir::Pair(w, u));
    let n = push(Ir::Iden);
    let t = push(Ir::Take(n));
    let d = push(Ir::Drop(n));
    let q = push(Ir::Pair(t, d));
    let c = push(Ir::Comp(p, q));
    let un = push(Ir::Unit);
    let root = push(Ir::Comp(c, un));
    let prog = Prog { nodes, root, family: Family::Core };
    let mut v = simplicity::Value::unit();
    for _ in 0..k {
        v = simplicity::Value::product(v.shallow_clone(), v);
    }
    let mut wit = std::collections::HashMap::new();
    wit.insert(w, v);
    let redeem = build_redeem(&prog, true, &wit).map_err(|e| harness_error(format!("zero-width witness program (k = {}): {:?}", k, e)))?;
    let (pb, wb) = redeem.to_vec_with_witness();
    cx.fp.write(&pb);
    cx.fp.write_u64(k as u64);
    cx.nontrivial = true;
    cx.set_sample(|| json!({"mode": "zero-width witness type", "k": k, "program": hex(&pb), "witness": hex(&wb)}));
    let r = decode_all(Family::Core, &pb, &wb).map_err(|e| format!("{} (witness of type 1^(2^{}))", e, k))?;
    if !r.redeem_ok {
        return Err(format!("RedeemNode::decode rejects the library's own encoding of a program whose witness has type 1^(2^{}): {} / {}", k, hex(&pb), hex(&wb)));
    }
    Ok(())
}

/// Bit strings that are not a prefix of any jet code of the family although their parent is:
/// the "holes" of the code tree.  A jet node carrying such a code must be rejected (the encoder
/// never emits it, so accepting it would give one jet two encodings).
fn jet_code_holes(codes: &JetCodes) -> Vec<Vec<bool>> {
    let mut prefixes: std::collections::HashSet<Vec<bool>> = std::collections::HashSet::new();
    for (c, _) in &codes.codes {
        for i in 0..=c.len() {
            prefixes.insert(c[..i].to_vec());
        }
    }
    let mut holes: std::collections::BTreeSet<Vec<bool>> = std::collections::BTreeSet::new();
    for (c, _) in &codes.codes {
        for i in 0..c.len() {
            let mut h = c[..i].to_vec();
            h.push(!c[i]);
            if !prefixes.contains(&h) {
                holes.insert(h);
            }
        }
    }
    holes.into_iter().collect()
}

/// `comp (jet <hole>) unit`, hand-assembled: no decoder may accept it.
fn jet_code_hole(cx: &mut Case) -> CaseResult {
    cx.label("mode: jet code that the encoder never emits");
    let family = if cx.src.bool() { Family::Core } else { Family::Elements };
    let holes = with_codes(family, |codes| jet_code_holes(codes));
    if holes.is_empty() {
        cx.label("jet code tree has no holes");
        return Ok(());
    }
    cx.nontrivial = true;
    // eight holes per case, each alone and extended by every bit string of length 1 and 2 (a
    // decoder that assigns a jet to an unassigned slot may do so one or two levels below it)
    for k in 0..8 {
        let h0 = holes[cx.src.below(holes.len())].clone();
        for ext in [&[][..], &[false], &[true], &[false, false], &[false, true], &[true, false], &[true, true]] {
            let mut h = h0.clone();
            h.extend_from_slice(ext);
            let mut bits = crate::model::bits::nat_encode(3);
            bits.extend([true, true]);
            bits.extend(h.iter().copied());
            with_codes(family, |codes| {
                wire::write_node(&mut bits, 1, &WNode::Unit, codes);
                wire::write_node(&mut bits, 2, &WNode::Comp(0, 1), codes);
            });
            let prog = pack(&bits);
            cx.fp.write(&prog);
            if k == 0 && ext.is_empty() {
                cx.set_sample(|| json!({"mode": "jet code hole", "family": format!("{:?}", family), "hole": crate::model::bits::bits_to_string(&h), "program": hex(&prog)}));
            }
            let r = decode_all(family, &prog, &[]).map_err(|e| format!("{} (jet node with the unassigned code {})", e, crate::model::bits::bits_to_string(&h)))?;
            if r.redeem_ok || r.commit_ok || r.construct_ok {
                return Err(format!("a decoder accepts a jet node with the code {} that no jet of the {:?} family encodes to: {}", crate::model::bits::bits_to_string(&h), family, hex(&prog)));
            }
        }
    }
    Ok(())
}

fn mutate_bytes(src: &mut Src, bytes: &mut Vec<u8>, other: &[u8]) -> &'static str {
    match src.below(7) {
        0 => {
            if !bytes.is_empty() {
                let i = src.below(bytes.len());
                bytes[i] ^= 1 << src.below(8);
            }
            "bit flip"
        }
        1 => {
            if !bytes.is_empty() {
                let i = src.below(bytes.len());
                bytes[i] = src.u8();
            }
            "byte overwrite"
        }
        2 => {
            let n = src.below(bytes.len() + 1);
            bytes.truncate(n);
            "truncate"
        }
        3 => {
            let k = 1 + src.below(4);
            for _ in 0..k {
                bytes.push(src.u8());
            }
            "extend"
        }
        4 => {
            // splice: head of this, tail of the other program
            let i = src.below(bytes.len() + 1);
            let j = src.below(other.len() + 1);
            bytes.truncate(i);
            bytes.extend_from_slice(&other[j..]);
            "splice"
        }
        5 => {
            if !bytes.is_empty() {
                let i = src.below(bytes.len());
                bytes.remove(i);
            }
            "delete byte"
        }
        _ => {
            let i = src.below(bytes.len() + 1);
            bytes.insert(i, src.u8());
            "insert byte"
        }
    }
}

/// Two unshared nodes with one identity hash whose *inner* types differ, hand-assembled (the
/// encoder shares nodes by identity hash and cannot emit this):
///
/// ```text
///   d  = comp (inj a) unit          -- inner type 1 + B (resp. B + 1), B free, so B = 1
///   d' = comp (inj' a) unit         -- inj' is a second node object of the same combinator that
///                                      is also used in `comp inj' iden`, where the same `iden`
///                                      follows `inj~ (word T)`: B = T there
///   root = comp (pair (pair d d') (pair m1 m2)) unit
/// ```
///
/// d and d' have the same identity Merkle root and the same arrow 1 -> 1, hence the same
/// identity hash, but different annotated roots.  A decoder whose post-decode sharing check is
/// keyed on anything finer than the identity hash accepts the pair.  Returns the negative, its
/// canonical twin (d' replaced by a second reference to d) and a description.
pub fn inner_type_duplicate(src: &mut Src, family: Family) -> (Vec<u8>, Vec<u8>, String) {
    let left = src.bool();
    let k = src.below(7); // forced type 2^(2^k): 1 .. 64 bits
    let a_iden = src.bool();
    let swap_d = src.bool();
    let m_first = src.bool();
    let bits: Vec<bool> = (0..(1usize << k)).map(|_| src.bool()).collect();
    let inj = |left: bool, c: usize| if left { WNode::InjL(c) } else { WNode::InjR(c) };
    let mut g: Vec<WNode> = vec![];
    let mut push = |n: WNode| {
        g.push(n);
        g.len() - 1
    };
    let a = push(if a_iden { WNode::Iden } else { WNode::Unit }); // 1 -> 1 either way
    let b = push(inj(left, a));
    let c = push(WNode::Unit);
    let d = push(WNode::Comp(b, c));
    let b2 = push(inj(left, a));
    let w = push(WNode::Word(k, bits));
    let r = push(inj(!left, w));
    let i = push(WNode::Iden);
    let m1 = push(WNode::Comp(r, i));
    let m2 = push(WNode::Comp(b2, i));
    let c2 = push(WNode::Unit);
    let d2 = push(WNode::Comp(b2, c2));
    let pd = if swap_d { push(WNode::Pair(d2, d)) } else { push(WNode::Pair(d, d2)) };
    let pm = push(WNode::Pair(m1, m2));
    let p = if m_first { push(WNode::Pair(pm, pd)) } else { push(WNode::Pair(pd, pm)) };
    let u = push(WNode::Unit);
    let root = push(WNode::Comp(p, u));
    let neg = wire::canonicalize(&g, root);
    let mut t = g.clone();
    t[pd] = WNode::Pair(d, d);
    let twin = wire::canonicalize(&t, root);
    let desc = format!(
        "comp ({} a) unit twice, once with the free inner type and once with it forced to 2^{} through a shared iden (a = {}, d' {} d, forcing pair {})",
        if left { "injl" } else { "injr" },
        1usize << k,
        if a_iden { "iden" } else { "unit" },
        if swap_d { "before" } else { "after" },
        if m_first { "first" } else { "last" }
    );
    with_codes(family, |codes| (pack(&wire::write_program(&neg, codes)), pack(&wire::write_program(&twin, codes)), desc))
}

fn inner_type_duplicate_case(cx: &mut Case) -> CaseResult {
    cx.label("mode: equal identity hash, different inner types");
    let family = if cx.src.bool() { Family::Core } else { Family::Elements };
    let mut s = cx.src.clone();
    let (neg, twin, desc) = inner_type_duplicate(&mut s, family);
    cx.src = s;
    cx.fp.write(&neg);
    cx.nontrivial = true;
    cx.set_sample(|| json!({"mode": "negative", "rule": "unshared nodes of equal identity hash with different inner types", "program": hex(&neg), "twin": hex(&twin), "shape": desc}));
    let t = decode_all(family, &twin, &[])?;
    if !t.redeem_ok {
        return Err(harness_error(format!("canonical twin of an inner-type duplicate is not accepted: {} ({})", hex(&twin), desc)));
    }
    let r = decode_all(family, &neg, &[])?;
    if r.redeem_ok {
        return Err(format!("RedeemNode::decode accepts two unshared nodes with the same identity hash (their inner types differ): {} ({})", hex(&neg), desc));
    }
    cx.label_if(r.commit_ok, "inner-type duplicate: commit decoder accepts (not asserted)");
    Ok(())
}

/// Is the node's arrow a complete type determined by the sub-expression alone?
fn closed_arrow(nodes: &[WNode], n: usize) -> bool {
    match &nodes[n] {
        WNode::Jet(_) | WNode::Word(..) => true,
        WNode::Comp(a, b) | WNode::Pair(a, b) => closed_arrow(nodes, *a) && closed_arrow(nodes, *b),
        _ => false,
    }
}

#[allow(dead_code)]
fn subtree_has_witness(nodes: &[WNode], n: usize) -> bool {
    let mut st = vec![n];
    let mut seen = vec![false; nodes.len()];
    while let Some(k) = st.pop() {
        if seen[k] {
            continue;
        }
        seen[k] = true;
        if matches!(nodes[k], WNode::Witness | WNode::Disconnect(..) | WNode::Disconnect1(..)) {
            return true;
        }
        st.extend(nodes[k].children());
    }
    false
}

/// Build one directed negative.  Returns (kind, program bytes, witness bytes, twin program bytes).
fn directed_negative(src: &mut Src, v: &Valid, nodes: &[WNode], codes: &JetCodes) -> Option<(&'static str, Vec<u8>, Vec<u8>, Vec<u8>)> {
    let n = nodes.len();
    let twin = v.prog.clone();
    // The structural violations (order, duplicate, hidden) are applicable to few programs, the
    // others to all: half of the time the structural ones are tried first.
    let order: Vec<usize> = {
        let structural = [[1usize, 2, 3], [2, 3, 1], [3, 1, 2], [3, 2, 1], [1, 3, 2], [2, 1, 3]][src.below(6)];
        let always = [0usize, 4, 5, 6, 8];
        let start = src.below(always.len());
        let rest: Vec<usize> = (0..always.len()).map(|i| always[(start + i) % always.len()]).collect();
        if src.bool() {
            structural.iter().copied().chain(rest).collect()
        } else {
            rest.into_iter().chain(structural.iter().copied()).collect()
        }
    };
    for kind in order {
        match kind {
            0 => {
                // unused node inserted at position k
                let k = src.below(n);
                let extra = [WNode::Unit, WNode::Iden, WNode::Witness][src.below(3)].clone();
                if extra == WNode::Witness && !v.wit.is_empty() {
                    continue;
                }
                let mut out: Vec<WNode> = vec![];
                for (i, nd) in nodes.iter().enumerate() {
                    if i == k {
                        out.push(extra.clone());
                    }
                    out.push(wire::map_children(nd, &|c| if c >= k { c + 1 } else { c }));
                }
                return Some(("unused node", pack(&wire::write_program(&out, codes)), v.wit.clone(), twin));
            }
            1 => {
                // swap two adjacent independent nodes
                let cands: Vec<usize> = (0..n.saturating_sub(1)).filter(|i| !nodes[i + 1].children().contains(i)).collect();
                if cands.is_empty() {
                    continue;
                }
                let i = cands[src.below(cands.len())];
                // witness order would change as well; keep it simple: only witness-free programs
                if !v.wit.is_empty() && (matches!(nodes[i], WNode::Witness) || matches!(nodes[i + 1], WNode::Witness)) {
                    continue;
                }
                let mut out: Vec<WNode> = nodes.to_vec();
                out.swap(i, i + 1);
                let f = |c: usize| if c == i { i + 1 } else if c == i + 1 { i } else { c };
                let out: Vec<WNode> = out.iter().map(|nd| wire::map_children(nd, &f)).collect();
                if wire::is_canonical_order(&out) {
                    continue;
                }
                return Some(("non-canonical order", pack(&wire::write_program(&out, codes)), v.wit.clone(), twin));
            }
            2 => {
                // duplicate a shared, witness-free sub-expression node
                let mut indeg = vec![0usize; n];
                for nd in nodes {
                    for c in nd.children() {
                        indeg[c] += 1;
                    }
                }
                // only sub-expressions whose arrow is fully determined by themselves (jets, words and
                // comp/pair of such): un-sharing any other node can legitimately change its type
                // (sharing adds constraints), after which the copies are no longer duplicates
                let cands: Vec<usize> = (0..n).filter(|i| indeg[*i] >= 2 && closed_arrow(nodes, *i)).collect();
                if cands.is_empty() {
                    continue;
                }
                let k = cands[src.below(cands.len())];
                // the last parent of k is redirected to a copy appended at the end
                let parent = (0..n).rev().find(|p| nodes[*p].children().contains(&k))?;
                let mut g: Vec<WNode> = nodes.to_vec();
                g.push(nodes[k].clone());
                let copy = g.len() - 1;
                let mut first = true;
                // redirect only the last reference inside that parent
                let ch = nodes[parent].children();
                let last_pos = ch.iter().rposition(|c| *c == k)?;
                let mut pos = 0usize;
                let redirected = match &nodes[parent] {
                    WNode::Comp(a, b) | WNode::Case(a, b) | WNode::Pair(a, b) | WNode::Disconnect(a, b) => {
                        let (na, nb) = if last_pos == 1 { (*a, copy) } else { (copy, *b) };
                        match &nodes[parent] {
                            WNode::Comp(..) => WNode::Comp(na, nb),
                            WNode::Case(..) => WNode::Case(na, nb),
                            WNode::Pair(..) => WNode::Pair(na, nb),
                            _ => WNode::Disconnect(na, nb),
                        }
                    }
                    other => wire::map_children(other, &|c| if c == k { copy } else { c }),
                };
                let _ = (&mut first, &mut pos);
                g[parent] = redirected;
                let out = wire::canonicalize(&g, n - 1);
                if out.len() != n + 1 {
                    continue;
                }
                return Some(("unshared duplicate", pack(&wire::write_program(&out, codes)), v.wit.clone(), twin));
            }
            3 => {
                // repeated hidden node: two hidden nodes made equal
                let hid: Vec<usize> = (0..n).filter(|i| matches!(nodes[*i], WNode::Hidden(_))).collect();
                if hid.len() < 2 {
                    continue;
                }
                let (a, b) = (hid[0], hid[1 + src.below(hid.len() - 1)]);
                let mut g: Vec<WNode> = nodes.to_vec();
                g[b] = g[a].clone();
                let neg = pack(&wire::write_program(&g, codes));
                // twin: the second hidden node is replaced by a reference to the first
                let mut t: Vec<WNode> = nodes.iter().map(|nd| wire::map_children(nd, &|c| if c == b { a } else { c })).collect();
                t[b] = t[a].clone();
                let t = wire::canonicalize(&t, n - 1);
                return Some(("repeated hidden node", neg, v.wit.clone(), pack(&wire::write_program(&t, codes))));
            }
            4 => {
                let mut p = v.prog.clone();
                p.push(0);
                return Some(("program: trailing byte", p, v.wit.clone(), twin));
            }
            5 => {
                let mut w = v.wit.clone();
                w.push(0);
                return Some(("witness: trailing byte", v.prog.clone(), w, twin));
            }
            6 => {
                // non-zero padding bit in the program stream
                let bits = wire::write_program(nodes, codes);
                let pad = (8 - bits.len() % 8) % 8;
                if pad == 0 {
                    continue;
                }
                let mut b: Bits = bits.clone();
                let k = src.below(pad);
                for i in 0..pad {
                    b.push(i == k);
                }
                return Some(("program: non-zero padding", pack(&b), v.wit.clone(), twin));
            }
            7 => {
                // non-zero padding in the witness stream: only if the last witness byte has padding;
                // the number of witness bits is not known here, so flip the lowest bit and require
                // that the result is rejected OR decodes to exactly these bytes (checked by the
                // canonicity oracle); a guaranteed negative is built only when the last byte is 0x80-aligned
                continue;
            }
            _ => {
                if v.wit.is_empty() {
                    continue;
                }
                let mut w = v.wit.clone();
                w.pop();
                return Some(("witness: one byte short", v.prog.clone(), w, twin));
            }
        }
    }
    None
}

pub fn case(cx: &mut Case) -> CaseResult {
    let mode = cx.src.weighted(&[30, 40, 40, 3, 3, 3]);
    match mode {
        3 => zero_width_witness(cx),
        4 => jet_code_hole(cx),
        5 => inner_type_duplicate_case(cx),
        0 => {
            cx.label("mode: raw bytes");
            let split = cx.src.u8() as usize;
            let rest = cx.src.rest().to_vec();
            let cut = if rest.is_empty() { 0 } else { (split * (rest.len() + 1)) >> 8 };
            let (prog, wit) = rest.split_at(cut.min(rest.len()));
            // most raw inputs carry no witness at all
            let (prog, wit): (&[u8], &[u8]) = if split < 128 { (&rest[..], &[]) } else { (prog, wit) };
            cx.fp.write(prog);
            cx.fp.write_u64(0xffff);
            cx.fp.write(wit);
            let mut any_nodes = 0;
            for family in [Family::Core, Family::Elements] {
                let v = decode_all(family, prog, wit)?;
                any_nodes = any_nodes.max(v.nodes);
                cx.label_if(v.redeem_ok, "raw: redeem decoder accepts");
                cx.label_if(v.commit_ok, "raw: commit decoder accepts");
                cx.label_if(v.construct_ok, "raw: construct decoder accepts");
            }
            cx.nontrivial = any_nodes >= 4;
            cx.set_sample(|| json!({"mode": "raw", "program": hex(prog), "witness": hex(wit)}));
            Ok(())
        }
        1 => {
            cx.label("mode: mutated valid encoding");
            let v = gen_valid(cx)?;
            let other = if cx.src.chance(60) { gen_valid(cx)?.prog } else { v.prog.clone() };
            let mut prog = v.prog.clone();
            let mut wit = v.wit.clone();
            let k = 1 + cx.src.below(4);
            let mut what = vec![];
            for _ in 0..k {
                if cx.src.chance(60) && !wit.is_empty() {
                    what.push(format!("witness {}", mutate_bytes(&mut cx.src, &mut wit, &[])));
                } else {
                    what.push(format!("program {}", mutate_bytes(&mut cx.src, &mut prog, &other)));
                }
            }
            cx.fp.write(&prog);
            cx.fp.write_u64(0xffff);
            cx.fp.write(&wit);
            let r = decode_all(v.family, &prog, &wit).map_err(|e| format!("{} (mutations {:?} of the encoding of {})", e, what, v.ir.render()))?;
            cx.label_if(r.redeem_ok, "mutant accepted by redeem decoder");
            cx.label_if(!r.redeem_ok, "mutant rejected by redeem decoder");
            cx.label_if(r.commit_ok, "mutant accepted by commit decoder");
            cx.nontrivial = r.nodes >= 4;
            cx.set_sample(|| json!({"mode": "mutate", "mutations": what, "program": hex(&prog), "witness": hex(&wit), "accepted": r.redeem_ok}));
            Ok(())
        }
        _ => {
            cx.label("mode: directed negative");
            let v = gen_valid(cx)?;
            let family = v.family;
            let result = with_codes(family, |codes| -> Result<Option<(&'static str, Vec<u8>, Vec<u8>, Vec<u8>)>, String> {
                let bits = unpack(&v.prog);
                let (nodes, used) = wire::read_program(&bits, codes, 1 << 20).map_err(|e| harness_error(format!("reference reader rejects a valid encoding: {:?} ({})", e, hex(&v.prog))))?;
                // the independent writer reproduces the library's bytes
                let again = wire::write_program(&nodes, codes);
                if again.len() != used || pack(&again) != v.prog {
                    return Err(harness_error(format!("reference writer disagrees with the encoder: {} vs {}", hex(&pack(&again)), hex(&v.prog))));
                }
                if !wire::is_canonical_order(&nodes) {
                    return Err(format!("the encoder emitted a program that is not in canonical order: {}", wire::render(&nodes)));
                }
                let mut s = cx.src.clone();
                let r = directed_negative(&mut s, &v, &nodes, codes);
                cx.src = s;
                Ok(r)
            })?;
            let (kind, nprog, nwit, twin) = match result {
                Some(x) => x,
                None => {
                    cx.label("negative: none applicable");
                    return Ok(());
                }
            };
            cx.label(match kind {
                "unused node" => "negative: unused node",
                "non-canonical order" => "negative: non-canonical order",
                "unshared duplicate" => "negative: unshared duplicate",
                "repeated hidden node" => "negative: repeated hidden node",
                "program: trailing byte" => "negative: program trailing byte",
                "witness: trailing byte" => "negative: witness trailing byte",
                "program: non-zero padding" => "negative: program padding bit",
                _ => "negative: witness short",
            });
            cx.fp.write(&nprog);
            cx.fp.write_u64(0xffff);
            cx.fp.write(&nwit);
            cx.nontrivial = v.ir.reachable().len() >= 4;
            cx.set_sample(|| json!({"mode": "negative", "rule": kind, "program": hex(&nprog), "witness": hex(&nwit), "from": v.ir.render()}));
            // canonical twin accepted (otherwise the harness is wrong, not the library)
            let t = decode_all(family, &twin, &v.wit)?;
            if !t.redeem_ok {
                if kind == "repeated hidden node" {
                    // making two hidden roots equal can make two assertions identical, so that the
                    // twin itself is not maximally shared: not a usable pair
                    cx.label("negative: twin not canonical (skipped)");
                    return Ok(());
                }
                return Err(harness_error(format!("canonical twin of a {} negative is not accepted: {} / {}", kind, hex(&twin), hex(&v.wit))));
            }
            let r = decode_all(family, &nprog, &nwit)?;
            if r.redeem_ok {
                return Err(format!("RedeemNode::decode accepts an encoding that violates a canonicity rule ({}): {} / {} (derived from {})", kind, hex(&nprog), hex(&nwit), v.ir.render()));
            }
            if r.commit_ok && !kind.starts_with("witness") {
                // the commit decoder must reject program-level violations too, unless the program
                // contains witness/disconnect nodes, which it never shares
                let has_wd = v.ir.has("witness") || v.ir.has("disconnect");
                if !(has_wd && (kind == "unshared duplicate")) {
                    return Err(format!("CommitNode::decode accepts an encoding that violates a canonicity rule ({}): {}", kind, hex(&nprog)));
                }
            }
            Ok(())
        }
    }
}
