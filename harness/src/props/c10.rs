//! C10 Value encodings, accessors and pruning follow the type's bit layout.

use crate::engine::*;
use crate::gen::types::{gen_smaller_ty, gen_ty, to_final};
use crate::gen::values::*;
use crate::model::bits::{self, pack, Bits};
use crate::model::layout::*;
use serde_json::json;
use simplicity::{BitIter, BitWriter, Value};
use std::sync::Arc;

pub const SPEC: Spec = Spec {
    rule: "a type from G-ty (nested sums of unequal width, unit-heavy products, words to 2^1024, buffer/ctx8 types, shared sub-types; width <= 4096 quick / 65536 thorough), a value of it as a model tree, materialised through a drawn production history (constructors, word constructors, from_compact_bits, from_padded_bits with garbage padding, sub-value extraction from a container, prune from a bigger type, Value::zero, Bit Machine output), then: widths, padded/compact iterators, both decoders with consumption counts, encode_value, accessors/constructors, prune to smaller/equal/incompatible targets, two-step = one-step prune. Oracle: model::layout. Non-trivial: the type has padding or width%8 != 0, and the value has >= 1 sum tag. Distinct by (type, value, history set).",
    design_ref: "§6 C10",
    max_len: 700,
    quick_cases: 200_000,
    thorough_cases: 1_000_000,
    ..Spec::base("C10", "Value encodings, accessors and pruning follow the type's bit layout", case)
};

fn sem(v: &Value) -> (Arc<RTy>, Bits) {
    let ty = crate::gen::types::from_final(v.ty());
    (ty, v.iter_compact().collect())
}

/// Check that a library value denotes (ty, val): type by TMR and structure, bits by the model.
pub fn check_denotes(what: &str, value: &Value, ty: &Arc<RTy>, val: &RVal) -> CaseResult {
    let f = to_final(ty);
    if !value.is_of_type(&f) {
        return Err(format!("{}: value has type {} but should have {}", what, value.ty(), ty.show_short()));
    }
    if *crate::gen::types::from_final(value.ty()) != **ty {
        return Err(format!("{}: the structure of the value's type differs from {}", what, ty.show_short()));
    }
    if value.ty().bit_width() != ty.width {
        return Err(format!("{}: type width {} vs model {}", what, value.ty().bit_width(), ty.width));
    }
    if value.ty().has_padding() != ty.has_padding() {
        return Err(format!("{}: has_padding {} vs model {}", what, value.ty().has_padding(), ty.has_padding()));
    }
    let padded: Bits = value.iter_padded().collect();
    if padded.len() != ty.width {
        return Err(format!("{}: iter_padded yields {} bits, type width is {}", what, padded.len(), ty.width));
    }
    if value.padded_len() != ty.width {
        return Err(format!("{}: padded_len {} vs width {}", what, value.padded_len(), ty.width));
    }
    let want = padded_bits(ty, val);
    let mask = padding_mask(ty, val);
    for i in 0..want.len() {
        if !mask[i] && want[i] != padded[i] {
            return Err(format!("{}: padded bit {} is {}, layout of {} : {} says {}", what, i, padded[i] as u8, val.show_short(ty), ty.show_short(), want[i] as u8));
        }
    }
    let compact: Bits = value.iter_compact().collect();
    let cwant = compact_bits(ty, val);
    if compact != cwant {
        return Err(format!("{}: iter_compact = {}, model compact layout = {} for {} : {}", what, bits::bits_to_string(&compact), bits::bits_to_string(&cwant), val.show_short(ty), ty.show_short()));
    }
    if value.compact_len() != cwant.len() {
        return Err(format!("{}: compact_len {} vs {}", what, value.compact_len(), cwant.len()));
    }
    if value.is_empty() != (ty.width == 0) || value.is_unit() != ty.is_unit() {
        return Err(format!("{}: is_empty/is_unit disagree with the type", what));
    }
    Ok(())
}

fn check_accessors(value: &Value, ty: &Arc<RTy>, val: &RVal, depth: usize) -> CaseResult {
    // walk the whole value through the accessors; wrong accessors must say None
    let r = value.as_ref();
    match (&ty.kind, val) {
        (RTyKind::Unit, _) => {
            if r.as_left().is_some() || r.as_right().is_some() || r.as_product().is_some() {
                return Err("accessor returned a part of a unit value".into());
            }
        }
        (RTyKind::Sum(a, b), RVal::L(x)) => {
            if r.as_right().is_some() || r.as_product().is_some() {
                return Err(format!("as_right/as_product succeeded on a left value of {}", ty.show_short()));
            }
            let part = r.as_left().ok_or_else(|| format!("as_left failed on a left value of {}", ty.show_short()))?.to_value();
            check_denotes("as_left part", &part, a, x)?;
            // constructor inverts accessor
            let rebuilt = Value::left(part.shallow_clone(), to_final(b));
            check_denotes("left(as_left part)", &rebuilt, ty, val)?;
            if depth < 6 {
                check_accessors(&part, a, x, depth + 1)?;
            }
        }
        (RTyKind::Sum(a, b), RVal::R(x)) => {
            if r.as_left().is_some() || r.as_product().is_some() {
                return Err(format!("as_left/as_product succeeded on a right value of {}", ty.show_short()));
            }
            let part = r.as_right().ok_or_else(|| format!("as_right failed on a right value of {}", ty.show_short()))?.to_value();
            check_denotes("as_right part", &part, b, x)?;
            let rebuilt = Value::right(to_final(a), part.shallow_clone());
            check_denotes("right(as_right part)", &rebuilt, ty, val)?;
            if depth < 6 {
                check_accessors(&part, b, x, depth + 1)?;
            }
        }
        (RTyKind::Prod(a, b), RVal::Pair(x, y)) => {
            if r.as_left().is_some() || r.as_right().is_some() {
                return Err(format!("as_left/as_right succeeded on a product value of {}", ty.show_short()));
            }
            let (pl, pr) = r.as_product().ok_or_else(|| format!("as_product failed on a product value of {}", ty.show_short()))?;
            let (pl, pr) = (pl.to_value(), pr.to_value());
            check_denotes("as_product.0", &pl, a, x)?;
            check_denotes("as_product.1", &pr, b, y)?;
            let rebuilt = Value::product(pl.shallow_clone(), pr.shallow_clone());
            check_denotes("product(as_product parts)", &rebuilt, ty, val)?;
            if depth < 6 && ty.size < 400 {
                check_accessors(&pl, a, x, depth + 1)?;
                check_accessors(&pr, b, y, depth + 1)?;
            }
        }
        _ => return Err(harness_error("ill-typed model value")),
    }
    Ok(())
}

/// A target type that is incompatible with `ty` somewhere: returns the target.
fn gen_incompatible_ty(src: &mut Src, ty: &Arc<RTy>) -> Arc<RTy> {
    // mutate one node: swap sum<->product, or put a non-unit where the source has unit
    match &ty.kind {
        RTyKind::Unit => {
            if src.bool() {
                RTy::two()
            } else {
                RTy::prod(RTy::two(), RTy::unit())
            }
        }
        RTyKind::Sum(a, b) => match src.below(4) {
            0 => RTy::prod(a.clone(), b.clone()),
            1 => RTy::sum(gen_incompatible_ty(src, a), b.clone()),
            2 => RTy::sum(a.clone(), gen_incompatible_ty(src, b)),
            _ => RTy::sum(gen_incompatible_ty(src, a), gen_incompatible_ty(src, b)),
        },
        RTyKind::Prod(a, b) => match src.below(4) {
            0 => RTy::sum(a.clone(), b.clone()),
            1 => RTy::prod(gen_incompatible_ty(src, a), b.clone()),
            2 => RTy::prod(a.clone(), gen_incompatible_ty(src, b)),
            _ => RTy::prod(gen_smaller_ty(src, a, 60), gen_incompatible_ty(src, b)),
        },
    }
}

pub fn case(cx: &mut Case) -> CaseResult {
    let max_w = cx.tier.pick(4096, 65536);
    let wcap = match cx.src.below(4) {
        0 => 16,
        1 => 96,
        2 => 600,
        _ => max_w,
    };
    let ty = gen_ty(&mut cx.src, wcap, 0);
    let val = gen_val(&mut cx.src, &ty);
    let mut vb = ValBuilder::new();
    let mut tr = Trace::default();
    let mut src = cx.src.clone();
    let value = vb.build(&mut src, &ty, &val, 0, &mut tr);
    cx.src = src;
    for h in &tr.used {
        cx.label(h.name());
    }
    let f = to_final(&ty);
    cx.fp.write(ty.show().as_bytes());
    cx.fp.write(&pack(&compact_bits(&ty, &val)));
    for h in &tr.used {
        cx.fp.write_u64(*h as u64);
    }
    let tags = val.count_tags();
    cx.nontrivial = (ty.has_padding() || ty.width % 8 != 0) && tags >= 1;
    cx.label_if(ty.has_padding(), "type has padding");
    cx.label_if(ty.width % 8 != 0, "width % 8 != 0");
    cx.label_if(ty.width >= 1024, "width >= 1024");
    cx.label_if(ty.width == 0, "zero-width type");
    cx.set_sample(|| json!({"type": ty.show_short(), "value": val.show_short(&ty), "width": ty.width, "histories": tr.used.iter().map(|h| h.name()).collect::<Vec<_>>()}));

    // 1. the built value denotes (ty, val)
    check_denotes("built value", &value, &ty, &val)?;

    // 2. decoders: compact and padded (with garbage padding), consuming exactly the bits
    let cbits = compact_bits(&ty, &val);
    {
        // append junk so that over-reading is visible
        let mut stream = cbits.clone();
        stream.extend([true, false, true, true, false, true, false, false, true]);
        let bytes = pack(&stream);
        let mut it = BitIter::from(bytes.as_slice());
        let d = Value::from_compact_bits(&mut it, &f).map_err(|e| format!("from_compact_bits failed on a valid encoding: {:?}", e))?;
        if it.n_total_read() != cbits.len() {
            return Err(format!("from_compact_bits consumed {} bits, encoding has {}", it.n_total_read(), cbits.len()));
        }
        check_denotes("from_compact_bits result", &d, &ty, &val)?;
        // truncated stream must be rejected, not mis-decoded
        if !cbits.is_empty() {
            let cut = cx.src.below(cbits.len());
            let tb = pack(&cbits[..cut]);
            // a truncated encoding may still decode if the cut lands in the byte padding;
            // only streams with fewer whole bytes than needed are certain to fail
            let mut it = BitIter::from(tb.as_slice());
            if let Ok(d2) = Value::from_compact_bits(&mut it, &f) {
                // whatever it decoded must be a well-formed value of the type
                let (t2, c2) = sem(&d2);
                if *t2 != *ty || parse_compact(&ty, &c2).map(|(_, k)| k) != Some(c2.len()) {
                    return Err("from_compact_bits on a truncated stream returned a malformed value".into());
                }
                if tb.len() * 8 < c2.len() {
                    return Err("from_compact_bits read more bits than the stream has".into());
                }
            }
        }
    }
    {
        let mut stream = Vec::with_capacity(ty.width + 9);
        let mut k = 0u32;
        padded_bits_with(&ty, &val, &mut || {
            k = k.wrapping_mul(1103515245).wrapping_add(12345);
            (k >> 16) & 1 == 1
        }, &mut stream);
        stream.extend([true, true, false, true, false, false, true, false, true]);
        let bytes = pack(&stream);
        let mut it = BitIter::from(bytes.as_slice());
        let d = Value::from_padded_bits(&mut it, &f).map_err(|e| format!("from_padded_bits failed: {:?}", e))?;
        if it.n_total_read() != ty.width {
            return Err(format!("from_padded_bits consumed {} bits, type width is {}", it.n_total_read(), ty.width));
        }
        check_denotes("from_padded_bits result (garbage padding)", &d, &ty, &val)?;
        // decode at a non-zero bit position of the stream
        let shift = 1 + cx.src.below(7);
        let mut s2: Bits = (0..shift).map(|i| i % 2 == 0).collect();
        s2.extend_from_slice(&stream);
        let b2 = pack(&s2);
        let mut it = BitIter::from(b2.as_slice());
        for _ in 0..shift {
            it.next();
        }
        let d = Value::from_padded_bits(&mut it, &f).map_err(|e| format!("from_padded_bits (unaligned) failed: {:?}", e))?;
        check_denotes("from_padded_bits at unaligned stream position", &d, &ty, &val)?;
        let mut it = BitIter::from(b2.as_slice());
        for _ in 0..shift {
            it.next();
        }
        let mut cs: Bits = (0..shift).map(|i| i % 2 == 0).collect();
        cs.extend_from_slice(&cbits);
        cs.extend([false, true, true]);
        let cb = pack(&cs);
        let mut it2 = BitIter::from(cb.as_slice());
        for _ in 0..shift {
            it2.next();
        }
        let d = Value::from_compact_bits(&mut it2, &f).map_err(|e| format!("from_compact_bits (unaligned) failed: {:?}", e))?;
        if it2.n_total_read() != shift + cbits.len() {
            return Err("from_compact_bits (unaligned) consumed the wrong number of bits".into());
        }
        check_denotes("from_compact_bits at unaligned stream position", &d, &ty, &val)?;
        let _ = it;
    }
    // 3. encode_value writes the compact bits
    {
        let mut sink = Vec::new();
        let mut w = BitWriter::new(&mut sink);
        let n = simplicity::encode_value(&value, &mut w).expect("vec");
        w.flush_all().expect("flush");
        if n != cbits.len() || sink != pack(&cbits) {
            return Err(format!("encode_value wrote {} bits {}, model {}", n, hex(&sink), hex(&pack(&cbits))));
        }
    }
    // 4. accessors and constructors
    check_accessors(&value, &ty, &val, 0)?;

    // 5. Value::zero
    {
        let z = Value::zero(&f);
        check_denotes("Value::zero", &z, &ty, &zero_value(&ty))?;
        if z.iter_padded().any(|b| b) {
            return Err("Value::zero has a one bit".into());
        }
    }
    // 6. to_word
    match (ty.as_word(), value.to_word()) {
        (Some(n), Some(w)) if n < 32 => {
            if w.n() != n || w.len() != (1usize << n) || w.iter().collect::<Bits>() != cbits {
                return Err(format!("to_word: n {} len {} or bits differ (model n {})", w.n(), w.len(), n));
            }
        }
        (None, None) => {}
        (Some(n), None) if n >= 32 => {}
        (m, l) => return Err(format!("to_word: model says {:?}, library {:?}", m, l.map(|w| w.n()))),
    }

    // 7. prune
    let mode = cx.src.below(4);
    match mode {
        0 | 1 => {
            // smaller-or-equal target; two-step = one-step
            let p = if mode == 0 { 30 } else { 90 };
            let t1 = gen_smaller_ty(&mut cx.src, &ty, p);
            let t2 = gen_smaller_ty(&mut cx.src, &t1, p);
            cx.label_if(*t1 == *ty, "prune: equal target");
            cx.label_if(*t1 != *ty, "prune: smaller target");
            let want1 = prune_value(&ty, &val, &t1).ok_or_else(|| harness_error("model prune to smaller type failed"))?;
            let want2 = prune_value(&ty, &val, &t2).ok_or_else(|| harness_error("model prune to smaller type failed"))?;
            let p1 = value.prune(&to_final(&t1)).ok_or_else(|| format!("prune of {} : {} to the smaller type {} returned None", val.show_short(&ty), ty.show_short(), t1.show_short()))?;
            check_denotes("prune result", &p1, &t1, &want1)?;
            let p12 = p1.prune(&to_final(&t2)).ok_or_else(|| "second prune step returned None".to_string())?;
            let p2 = value.prune(&to_final(&t2)).ok_or_else(|| "one-step prune returned None".to_string())?;
            check_denotes("two-step prune", &p12, &t2, &want2)?;
            check_denotes("one-step prune", &p2, &t2, &want2)?;
            if p12.iter_compact().collect::<Bits>() != p2.iter_compact().collect::<Bits>() {
                return Err("two-step prune differs from one-step prune".into());
            }
            // pruning to its own type is the identity
            let same = value.prune(&f).ok_or_else(|| "prune to own type returned None".to_string())?;
            check_denotes("prune to own type", &same, &ty, &val)?;
            // to unit
            let u = value.prune(&to_final(&RTy::unit())).ok_or_else(|| "prune to unit returned None".to_string())?;
            check_denotes("prune to unit", &u, &RTy::unit(), &RVal::Unit)?;
        }
        _ => {
            let t = gen_incompatible_ty(&mut cx.src, &ty);
            let m = prune_value(&ty, &val, &t);
            let got = value.prune(&to_final(&t));
            match (&m, &got) {
                (None, None) => cx.label("prune: incompatible on taken path -> None"),
                (None, Some(g)) => {
                    return Err(format!("prune of {} : {} to incompatible target {} returned a value of type {}", val.show_short(&ty), ty.show_short(), t.show_short(), g.ty()));
                }
                (Some(_), None) => {
                    // compatible along the taken path; the library may also refuse (ty not <= globally)
                    if ty_le(&t, &ty) {
                        return Err(format!("prune to a smaller type {} returned None", t.show_short()));
                    }
                    cx.label("prune: incompatible off path -> None");
                }
                (Some(w), Some(g)) => {
                    // must be well-formed, of exactly the target type, agreeing where data is kept
                    check_denotes("prune to partially incompatible target", g, &t, w)?;
                    cx.label("prune: incompatible off path -> well-formed value");
                }
            }
        }
    }
    // 8. Display / Debug terminate and are bounded (value rendering is linear in the value)
    if ty.width <= 2048 {
        let s = format!("{}", value);
        if s.is_empty() {
            return Err("Display of a value is empty".into());
        }
    }
    Ok(())
}
