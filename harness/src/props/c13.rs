//! C13 Bit streams and natural numbers code exactly.

use crate::engine::*;
use crate::model::bits::{self, nat_decode, nat_encode, NatErr};
use serde_json::json;
use simplicity::{BitCollector, BitIter, BitWriter};
use std::io::Write;

pub const SPEC: Spec = Spec {
    rule: "mode 0/1: a natural n (exhaustive 1..2^17, +-2000 around every power of two up to 2^33, random elsewhere) is encoded with encode_natural, compared bit-for-bit with the reference code, and decoded at 12 integer result types x up to 6 bounds; mode 2: arbitrary bytes decoded as a natural and compared with the reference decoder; mode 3: random interleavings of write_bit/write_bits_be/Write::write/flush_all read back with next/read_bit/read_u2/read_u8/read_cmr/read_fail_entropy/read_natural against a Vec<bool> model incl. counters and close(); mode 4: byte_slice_window(start,end) over random slices; mode 5: collect_bits. Non-trivial: natural >= 16, or an op sequence crossing >= 2 byte boundaries at an unaligned position, or a window with start%8 != 0 spanning >= 2 bytes. Distinct by a hash of the decoded case.",
    design_ref: "§6 C13",
    max_len: 400,
    quick_cases: 300_000,
    thorough_cases: 3_000_000,
    fixed: Some(fixed),
    fuzz: Some(FuzzSpec { target: "c13_bits", prefix: &[], max_len: 512, quick_runs: 50_000, thorough_runs: 1_000_000, jobs: 16 }),
    ..Spec::base("C13", "Bit streams and natural numbers code exactly", case)
};

fn fixed(tier: Tier, emit: &mut dyn FnMut(&[u8])) {
    let mut one = |n: u64| {
        let mut s = vec![0u8];
        s.extend_from_slice(&n.to_be_bytes());
        emit(&s);
    };
    let small = tier.pick(1u64 << 17, 1u64 << 21);
    for n in 1..=small {
        one(n);
    }
    let around = tier.pick(2000u64, 20000u64);
    for p in 11..=33u32 {
        let c = 1u64 << p;
        for n in c.saturating_sub(around)..=c + around {
            if n > small {
                one(n);
            }
        }
    }
    // usize values >= 2^32 up to 2^64-1
    for p in 34..64u32 {
        one((1u64 << p) - 1);
        one(1u64 << p);
        one((1u64 << p) + 1);
    }
    one(u64::MAX);
    one(u64::MAX - 1);
}

fn lib_encode(n: usize) -> (Vec<u8>, usize) {
    let mut sink = Vec::<u8>::new();
    let mut w = BitWriter::new(&mut sink);
    let len = simplicity::encode_natural(n, &mut w).expect("vec write");
    assert_eq!(len, w.n_total_written());
    w.flush_all().expect("flush");
    (sink, len)
}

/// Decode `bytes` at result type T with the given bound; check against the model value `n`
/// whose reference encoding has `len` bits.
macro_rules! check_typed {
    ($t:ty, $bytes:expr, $n:expr, $len:expr, $cx:expr) => {{
        let n: u128 = $n;
        let tmax = <$t>::MAX as u128;
        let mut bounds: Vec<Option<$t>> = vec![None, Some(<$t>::MAX)];
        for cand in [n.wrapping_sub(1), n, n + 1] {
            if cand <= tmax && cand != u128::MAX {
                bounds.push(Some(cand as $t));
            }
        }
        #[allow(unused_comparisons)]
        if <$t>::MIN < 0 as $t {
            bounds.push(Some(<$t>::MIN));
            bounds.push(Some(0 as $t));
        }
        for b in bounds {
            let mut it = BitIter::from($bytes.as_slice());
            let r = it.read_natural::<$t>(b);
            // bound as a model number; negative bounds admit nothing
            #[allow(unused_comparisons)]
            let bound_ok = match b {
                None => true,
                Some(bv) => bv >= 0 as $t && n <= (bv as u128),
            };
            let expect_ok = n <= tmax && bound_ok;
            match r {
                Ok(v) => {
                    #[allow(unused_comparisons)]
                    let vm = if v < 0 as $t { u128::MAX } else { v as u128 };
                    if vm != n {
                        return Err(format!("read_natural::<{}>({:?}) of the encoding of {} returned {} (truncated or wrong)", stringify!($t), b, n, v));
                    }
                    if !expect_ok {
                        return Err(format!("read_natural::<{}>({:?}) accepted {} which is out of bound/range", stringify!($t), b, n));
                    }
                    if it.n_total_read() != $len {
                        return Err(format!("read_natural::<{}> of {} consumed {} bits, encoding has {}", stringify!($t), n, it.n_total_read(), $len));
                    }
                }
                Err(e) => {
                    if expect_ok && n < (1u128 << 31) {
                        return Err(format!("read_natural::<{}>({:?}) rejected in-range natural {}: {:?}", stringify!($t), b, n, e));
                    }
                }
            }
        }
        $cx.label(concat!("typed:", stringify!($t)));
    }};
}

fn natural_case(cx: &mut Case, n: u64) -> CaseResult {
    let n = n.max(1);
    cx.fp.write_u64(1);
    cx.fp.write_u64(n);
    cx.nontrivial = n >= 16;
    cx.label_if(n >= (1 << 31), "natural >= 2^31");
    cx.label_if(n >= (1 << 32), "natural >= 2^32");
    cx.label_if(n < (1 << 31), "natural in 1..2^31-1");
    let model = nat_encode(n as u128);
    let (bytes, len) = lib_encode(n as usize);
    let lib_bits = bits::unpack(&bytes);
    if len != model.len() || lib_bits[..len.min(lib_bits.len())] != model[..] {
        return Err(format!("encode_natural({}) = {} ({} bits), reference code is {}", n, bits::bits_to_string(&lib_bits[..len.min(lib_bits.len())]), len, bits::bits_to_string(&model)));
    }
    if lib_bits[len..].iter().any(|b| *b) {
        return Err(format!("encode_natural({}) left non-zero padding after flush", n));
    }
    cx.set_sample(|| json!({"mode": "natural", "n": n, "encoding": bits::bits_to_string(&model)}));
    let n128 = n as u128;
    check_typed!(u8, bytes, n128, len, cx);
    check_typed!(u16, bytes, n128, len, cx);
    check_typed!(u32, bytes, n128, len, cx);
    check_typed!(u64, bytes, n128, len, cx);
    check_typed!(u128, bytes, n128, len, cx);
    check_typed!(usize, bytes, n128, len, cx);
    check_typed!(i8, bytes, n128, len, cx);
    check_typed!(i16, bytes, n128, len, cx);
    check_typed!(i32, bytes, n128, len, cx);
    check_typed!(i64, bytes, n128, len, cx);
    check_typed!(i128, bytes, n128, len, cx);
    check_typed!(isize, bytes, n128, len, cx);
    // Decoding must not depend on what follows the number or on alignment: prepend k junk
    // bits, append junk, decode after skipping k bits.
    let k = (n % 8) as usize;
    let mut shifted: bits::Bits = (0..k).map(|i| (n >> i) & 1 == 1).collect();
    shifted.extend_from_slice(&model);
    shifted.extend((0..13).map(|i| (n >> (i % 7)) & 1 == 0));
    let sb = bits::pack(&shifted);
    let mut it = BitIter::from(sb.as_slice());
    for _ in 0..k {
        it.next();
    }
    match it.read_natural::<u64>(None) {
        Ok(v) if v == n && it.n_total_read() == k + len => {}
        Ok(v) => return Err(format!("unaligned decode of {} at bit offset {} gave {} after {} bits", n, k, v, it.n_total_read())),
        Err(e) => {
            if n < (1 << 31) {
                return Err(format!("unaligned decode of {} at offset {} failed: {:?}", n, k, e));
            }
        }
    }
    Ok(())
}

fn arbitrary_decode_case(cx: &mut Case) -> CaseResult {
    let bytes = cx.src.rest().to_vec();
    cx.fp.write_u64(2);
    cx.fp.write(&bytes);
    let all = bits::unpack(&bytes);
    let model = nat_decode(&all);
    let mut it = BitIter::from(bytes.as_slice());
    let r = it.read_natural::<usize>(None);
    match (&r, &model) {
        (Ok(v), Ok((n, k))) => {
            if *v as u128 != *n || it.n_total_read() != *k {
                return Err(format!("decoding {} gave {} after {} bits; reference gives {} after {} bits", hex(&bytes), v, it.n_total_read(), n, k));
            }
            // uniqueness: the number's encoding is the consumed prefix
            let re = nat_encode(*n);
            if re[..] != all[..*k] {
                return Err(format!("bit string {} decodes to {} whose encoding is a different string", bits::bits_to_string(&all[..*k]), n));
            }
            let (lb, ll) = lib_encode(*v);
            if ll != *k || bits::unpack(&lb)[..ll] != all[..*k] {
                return Err(format!("decoded {} from {} bits but encode_natural gives {} bits", v, k, ll));
            }
            cx.nontrivial = *n >= 16;
            cx.label("bytes decode: ok");
        }
        (Ok(v), Err(e)) => return Err(format!("decoding {} gave {} but the reference decoder says {:?}", hex(&bytes), v, e)),
        (Err(e), Ok((n, _))) => {
            if *n < (1u128 << 31) {
                return Err(format!("decoding {} failed ({:?}) but it encodes the in-range natural {}", hex(&bytes), e, n));
            }
            cx.label("bytes decode: rejected large");
        }
        (Err(_), Err(NatErr::EndOfStream)) | (Err(_), Err(NatErr::Huge)) => cx.label("bytes decode: both reject"),
    }
    cx.set_sample(|| json!({"mode": "bytes-as-natural", "bytes": hex(&bytes), "library": format!("{:?}", r), "reference": format!("{:?}", model)}));
    Ok(())
}

struct SharedVec(std::rc::Rc<std::cell::RefCell<Vec<u8>>>);
impl Write for SharedVec {
    fn write(&mut self, b: &[u8]) -> std::io::Result<usize> {
        self.0.borrow_mut().extend_from_slice(b);
        Ok(b.len())
    }
    fn flush(&mut self) -> std::io::Result<()> {
        Ok(())
    }
}

fn stream_ops_case(cx: &mut Case) -> CaseResult {
    cx.fp.write_u64(3);
    let sink = std::rc::Rc::new(std::cell::RefCell::new(Vec::<u8>::new()));
    let mut w = BitWriter::new(SharedVec(sink.clone()));
    let mut model: bits::Bits = vec![]; // every bit that reaches the byte stream, incl. flush padding
    let mut written = 0usize; // n_total_written model (padding not counted)
    let n_ops = cx.src.range(1, 40);
    let mut unaligned_crossings = 0;
    let mut ops_desc: Vec<String> = vec![];
    for _ in 0..n_ops {
        let before = model.len();
        match cx.src.weighted(&[4, 4, 2, 1, 2]) {
            0 => {
                let b = cx.src.bool();
                w.write_bit(b).unwrap();
                model.push(b);
                written += 1;
                ops_desc.push(format!("bit {}", b as u8));
            }
            1 => {
                let len = cx.src.range(0, 64);
                let v = cx.src.u64();
                let r = w.write_bits_be(v, len).unwrap();
                if r != len {
                    return Err(format!("write_bits_be(_, {}) returned {}", len, r));
                }
                bits::push_be(&mut model, v as u128, len);
                written += len;
                ops_desc.push(format!("bits_be {:#x}/{}", v, len));
            }
            2 => {
                let k = cx.src.range(0, 5);
                let bs = cx.src.bytes(k);
                let r = w.write(&bs).unwrap();
                if r != k {
                    return Err(format!("Write::write of {} bytes returned {}", k, r));
                }
                model.extend(bits::unpack(&bs));
                written += 8 * k;
                ops_desc.push(format!("write {}", hex(&bs)));
            }
            3 => {
                w.flush_all().unwrap();
                while model.len() % 8 != 0 {
                    model.push(false);
                }
                ops_desc.push("flush_all".into());
            }
            _ => {
                let n = match cx.src.below(3) {
                    0 => cx.src.range(1, 40),
                    1 => cx.src.range(1, 70000),
                    _ => (cx.src.u32() as usize >> cx.src.below(31)).max(1),
                };
                let r = simplicity::encode_natural(n, &mut w).unwrap();
                let e = nat_encode(n as u128);
                if r != e.len() {
                    return Err(format!("encode_natural({}) reported {} bits, reference {}", n, r, e.len()));
                }
                written += e.len();
                model.extend(e);
                ops_desc.push(format!("natural {}", n));
            }
        }
        if before % 8 != 0 && model.len() / 8 > before / 8 + 1 {
            unaligned_crossings += 1;
        }
        if w.n_total_written() != written {
            return Err(format!("n_total_written {} after ops {:?}, model {}", w.n_total_written(), ops_desc, written));
        }
    }
    w.flush_all().unwrap();
    while model.len() % 8 != 0 {
        model.push(false);
    }
    let bytes = sink.borrow().clone();
    if bytes != bits::pack(&model) {
        return Err(format!("writer produced {} for ops {:?}, model {}", hex(&bytes), ops_desc, hex(&bits::pack(&model))));
    }
    cx.fp.write(&bytes);
    // read back
    let mut it = BitIter::from(bytes.as_slice());
    let mut pos = 0usize;
    let n_reads = cx.src.range(0, 60);
    let mut rdesc: Vec<String> = vec![];
    let mut read_crossings = 0;
    for _ in 0..n_reads {
        let rem = model.len() - pos;
        let before = pos;
        match cx.src.weighted(&[4, 3, 3, 4, 1, 1, 2]) {
            0 => {
                let r = it.next();
                let m = model.get(pos).copied();
                if r != m {
                    return Err(format!("next() at bit {} gave {:?}, model {:?}", pos, r, m));
                }
                if m.is_some() {
                    pos += 1;
                } else {
                    break;
                }
                rdesc.push("next".into());
            }
            1 => {
                let r = it.read_bit();
                match (r, model.get(pos)) {
                    (Ok(b), Some(m)) if b == *m => pos += 1,
                    (Err(_), None) => break,
                    (r, m) => return Err(format!("read_bit() at bit {} gave {:?}, model {:?}", pos, r, m)),
                }
                rdesc.push("read_bit".into());
            }
            2 => {
                let r = it.read_u2();
                if rem >= 2 {
                    let m = (model[pos] as u8) * 2 + model[pos + 1] as u8;
                    match r {
                        Ok(v) if u8::from(v) == m => pos += 2,
                        _ => return Err(format!("read_u2() at bit {} gave {:?}, model {}", pos, r, m)),
                    }
                } else {
                    if r.is_ok() {
                        return Err(format!("read_u2() at bit {} succeeded with {} bits left", pos, rem));
                    }
                    break;
                }
                rdesc.push("read_u2".into());
            }
            3 => {
                let r = it.read_u8();
                if rem >= 8 {
                    let m = bits::pack(&model[pos..pos + 8])[0];
                    match r {
                        Ok(v) if v == m => pos += 8,
                        _ => return Err(format!("read_u8() at bit {} gave {:?}, model {:#x}", pos, r, m)),
                    }
                } else {
                    if r.is_ok() {
                        return Err(format!("read_u8() at bit {} succeeded with {} bits left", pos, rem));
                    }
                    break;
                }
                rdesc.push("read_u8".into());
            }
            4 => {
                let r = it.read_cmr();
                if rem >= 256 {
                    let m = bits::pack(&model[pos..pos + 256]);
                    match r {
                        Ok(v) if v.as_ref() == &m[..] => pos += 256,
                        _ => return Err(format!("read_cmr() at bit {} gave {:?}, model {}", pos, r, hex(&m))),
                    }
                } else {
                    if r.is_ok() {
                        return Err(format!("read_cmr() at bit {} succeeded with {} bits left", pos, rem));
                    }
                    break;
                }
                rdesc.push("read_cmr".into());
            }
            5 => {
                let r = it.read_fail_entropy();
                if rem >= 512 {
                    let m = bits::pack(&model[pos..pos + 512]);
                    match r {
                        Ok(v) if v.as_ref() == &m[..] => pos += 512,
                        _ => return Err(format!("read_fail_entropy() at bit {} mismatch", pos)),
                    }
                } else {
                    if r.is_ok() {
                        return Err(format!("read_fail_entropy() at bit {} succeeded with {} bits left", pos, rem));
                    }
                    break;
                }
                rdesc.push("read_fail_entropy".into());
            }
            _ => {
                let r = it.read_natural::<u64>(None);
                match (r, nat_decode(&model[pos..])) {
                    (Ok(v), Ok((n, k))) if v as u128 == n => pos += k,
                    (Err(_), Err(_)) => break,
                    (Err(_), Ok((n, _))) if n >= (1u128 << 31) => break,
                    (r, m) => return Err(format!("read_natural at bit {} gave {:?}, reference {:?}", pos, r, m)),
                }
                rdesc.push("read_natural".into());
            }
        }
        if before % 8 != 0 && pos / 8 > before / 8 + 1 {
            read_crossings += 1;
        }
        if it.n_total_read() != pos {
            return Err(format!("n_total_read {} after {:?}, model {}", it.n_total_read(), rdesc, pos));
        }
    }
    // close: succeeds iff fewer than 8 unread bits remain and all are zero
    if it.n_total_read() == pos {
        let rem = &model[pos..];
        let expect = rem.len() < 8 && rem.iter().all(|b| !*b);
        let got = it.close();
        if got.is_ok() != expect {
            return Err(format!("close() with {} unread bits {} returned {:?}", rem.len(), bits::bits_to_string(&rem[..rem.len().min(16)]), got));
        }
        cx.label(if expect { "close: ok" } else { "close: rejected" });
    }
    cx.nontrivial = unaligned_crossings + read_crossings >= 2;
    cx.label_if(unaligned_crossings > 0, "ops: unaligned multi-byte write");
    cx.label_if(read_crossings > 0, "ops: unaligned multi-byte read");
    cx.set_sample(|| json!({"mode": "ops", "writes": ops_desc, "reads": rdesc, "bytes": hex(&bytes)}));
    Ok(())
}

fn window_case(cx: &mut Case) -> CaseResult {
    cx.fp.write_u64(4);
    let len = cx.src.range(0, 24);
    let sl = cx.src.bytes(len);
    let end = cx.src.range(0, 8 * len);
    let start = cx.src.range(0, end);
    cx.fp.write(&sl);
    cx.fp.write_u64(start as u64);
    cx.fp.write_u64(end as u64);
    let all = bits::unpack(&sl);
    let want = &all[start..end];
    let mut it = BitIter::byte_slice_window(&sl, start, end);
    let mut got = vec![];
    while let Some(b) = it.next() {
        got.push(b);
        if it.n_total_read() != got.len() {
            return Err(format!("window({},{}) n_total_read {} after {} bits", start, end, it.n_total_read(), got.len()));
        }
        if got.len() > 8 * len + 8 {
            return Err("window iterator does not terminate".into());
        }
    }
    cx.nontrivial = start % 8 != 0 && end / 8 > start / 8 + 1;
    cx.label_if(start % 8 != 0, "window: start unaligned");
    cx.label_if(end % 8 != 0, "window: end unaligned");
    cx.set_sample(|| json!({"mode": "window", "slice": hex(&sl), "start": start, "end": end, "yielded_bits": got.len()}));
    if got.len() < want.len() || got[..want.len()] != want[..] {
        return Err(format!("window({},{}) over {} yielded {}, expected prefix {}", start, end, hex(&sl), bits::bits_to_string(&got), bits::bits_to_string(want)));
    }
    if got.len() != want.len() {
        // F12: bits beyond `end` up to the end of the last byte are yielded as well.
        let extra_within_last_byte = end % 8 != 0 && got.len() == want.len() + (8 - end % 8) && got[..] == all[start..end.div_ceil(8) * 8];
        let sig = if extra_within_last_byte { "window-yields-past-end-within-last-byte" } else { "window-wrong-length" };
        return cx.known_or_fail(sig, || format!("byte_slice_window(_, {}, {}) yielded {} bits instead of {}", start, end, got.len(), want.len()));
    }
    Ok(())
}

fn collect_case(cx: &mut Case) -> CaseResult {
    cx.fp.write_u64(5);
    let n = cx.src.range(0, 100);
    let bs: bits::Bits = (0..n).map(|_| cx.src.bool()).collect();
    let (bytes, len) = bs.iter().copied().collect_bits();
    cx.fp.write(&bits::pack(&bs));
    cx.fp.write_u64(n as u64);
    if len != n || bytes != bits::pack(&bs) {
        return Err(format!("collect_bits of {} gave ({}, {})", bits::bits_to_string(&bs), hex(&bytes), len));
    }
    let t = bs.iter().copied().try_collect_bytes();
    if t.is_ok() != (n % 8 == 0) || t.as_ref().map(|b| b != &bits::pack(&bs)).unwrap_or(false) {
        return Err(format!("try_collect_bytes of {} bits gave {:?}", n, t));
    }
    // and BitIter over the packed bytes gives the bits back
    let back: bits::Bits = BitIter::from(bytes.as_slice()).take(n).collect();
    if back != bs {
        return Err("BitIter over collected bytes differs".into());
    }
    cx.nontrivial = n > 16 && n % 8 != 0;
    cx.label("collect_bits");
    cx.set_sample(|| json!({"mode": "collect_bits", "bits": bits::bits_to_string(&bs)}));
    Ok(())
}

pub fn case(cx: &mut Case) -> CaseResult {
    match cx.src.below(7) {
        0 => {
            // exact value (also used by the exhaustive enumeration)
            let n = cx.src.u64();
            cx.label("mode: natural (exact)");
            natural_case(cx, n)
        }
        1 => {
            // value from a magnitude class: 2^k + small offset, or 2^k - small offset
            let k = cx.src.range(0, 63) as u32;
            let off = cx.src.below(5000) as u64;
            let n = if cx.src.bool() { (1u64 << k).saturating_add(off) } else { (1u64 << k).saturating_sub(off).max(1) };
            cx.label("mode: natural (around power of two)");
            natural_case(cx, n)
        }
        2 => {
            cx.label("mode: bytes as natural");
            arbitrary_decode_case(cx)
        }
        3 | 4 => {
            cx.label("mode: write/read ops");
            stream_ops_case(cx)
        }
        5 => {
            cx.label("mode: window");
            window_case(cx)
        }
        _ => {
            cx.label("mode: collect_bits");
            collect_case(cx)
        }
    }
}
