//! C14 Jet tables and foreign bindings match libsimplicity.
//!
//! Finite domain, enumerated completely by `fixed`:
//!   stream = [0, family, hi, lo]   jet `ALL[index]` of family 0 = Core, 1 = Elements, 2 = Bitcoin
//!   stream = [1, 0, hi, lo]        foreign function declaration number `index` (sorted by symbol)
//!   stream = [1, 1, hi, lo]        foreign static number `index` (informational only: the property
//!                                  speaks about functions; nothing about statics is asserted)
//! Random streams (first byte >= 2) re-check a random element of the same sets.
//!
//! Relation between the families' codes (read off `src/jet/init/{core,elements}.rs` and
//! `depend/simplicity/elements/primitive.c: decodePrimitive`): a Core code carries no family
//! bit; the Elements code of a jet that also exists in Core is the single bit `0` followed by
//! exactly the Core code (same integer, length + 1), Elements-specific jets start with `1`.
//!
//! Relation between costs: `analyseBounds` gives a JET node the cost
//! `bounded_add(overhead, dag[i].cost)` with `overhead = 100` milliweight (`bounded.h`), so for a
//! one-node program `cost bound == 100 + jet.cost()`; `dag[0].cost == jet.cost()` is read directly
//! from the decoded node as well.

use crate::engine::*;
use crate::gen::prog::{Family, JetRef};
use crate::model::bits::{self, Bits};
use crate::model::c14_decls::{self as decls, Kind, Tables, Verdict, Widths};
use crate::model::wire::{write_program, JetCodes, WNode};
use serde_json::json;
use simplicity::ffi::ffi::{c_size_t, ubounded, UBOUNDED_MAX, UWORD};
use simplicity::ffi::tests::ffi::bitstream::{simplicity_closeBitstream, CBitstream};
use simplicity::ffi::tests::ffi::dag::{CCombinatorCounters, CDagNode, CTag};
use simplicity::ffi::tests::ffi::deserialize::simplicity_decodeMallocDag;
use simplicity::ffi::tests::ffi::elements::{simplicity_elements_decodeJet, simplicity_elements_mallocBoundVars};
use simplicity::ffi::tests::ffi::eval::simplicity_analyseBounds;
use simplicity::ffi::tests::ffi::ty::CType;
use simplicity::ffi::tests::ffi::type_inference::simplicity_mallocTypeInference;
use simplicity::ffi::tests::ffi::SimplicityErr;
use simplicity::jet::type_name::TypeName;
use simplicity::jet::{Bitcoin, Core, Elements, Jet};
use simplicity::{BitIter, BitWriter};
use std::sync::OnceLock;

pub const SPEC: Spec = Spec {
    rule: "exhaustive enumeration (fixed hook) of every jet of Core / Elements / Bitcoin (`ALL`) and of every foreign function declaration (extern blocks, #[no_mangle] exports, callback type aliases) and foreign static found by a textual parser under /repo/simplicity-sys/src; plus a few hundred random re-checks of random members of the same sets. Per jet: encode->decode identity with exact bit consumption (also with trailing junk), code prefix-free against all other codes of the family, name parses back and is unique, type names build and agree on bit width / TMR; Core: Elements namesake has the same type names and code = 0 ++ Core code; Elements: one-node program through the C decoder, C type inference and analyseBounds, C CMR / source+target TMR and bit size / node cost / cost bound (100 + cost) equal the Rust table; Bitcoin: codes, names, type names only (cmr/cost never called). Per declaration: arity and per-parameter / return type compatibility against every C prototype/definition/typedef of the same symbol found under depend/** (WRAP_ macro expanded textually), with integer widths taken from the C sizeof constants of this target; unparsed or unknown types are counted, never reported. Per #[repr(C)] struct passed by pointer (raw Elements buffer / output / input / transaction / tap env, txEnv, frameItem, bitstream, bitstring, combinator_counters, sha256_midstate): number of fields, per-position layout compatibility (scalar width, pointer vs value, nested by-value structs recursively; a pointer field with another pointee is only counted) and no two positions that carry each other's C field name. Every jet / declaration case is non-trivial; distinct by (mode, family, index).",
    design_ref: "§6 C14",
    max_len: 8,
    quick_cases: 200,
    thorough_cases: 2000,
    fixed: Some(fixed),
    exhaustive: true,
    ..Spec::base("C14", "Jet tables and foreign bindings match libsimplicity", case)
};

const SIG_EVAL: &str = "evalTCOExpression-binding-lacks-minCost";
const SIG_BOUND_VARS_RET: &str = "mallocBoundVars-binding-returns-SimplicityErr";
const SIG_DECODE_DAG_RET: &str = "decodeMallocDag-binding-returns-i32";

/// The property's wording is "arity and parameter types".  Return types are compared as well;
/// with `true` an incompatible return type is a violation (routed through `known_or_fail` for the
/// two instances present in the pinned tree), with `false` it is only counted under a label.
const ASSERT_RETURN_TYPES: bool = false;

/// `enum { overhead = 100 }` in depend/simplicity/bounded.h (milli weight units)
const C_OVERHEAD: u64 = 100;

// ------------------------------------------------------------------------------------------
// per-process tables

struct Fam {
    codes: Vec<Bits>,
    names: Vec<String>,
}

fn encode_bits<J: Jet>(j: &J) -> Result<Bits, String> {
    let mut sink = Vec::<u8>::new();
    let n;
    {
        let mut w = BitWriter::new(&mut sink as &mut dyn std::io::Write);
        n = j.encode(&mut w).map_err(|e| format!("encode of {} failed: {}", j, e))?;
        if n != w.n_total_written() {
            return Err(format!("encode of {} returned {} but wrote {} bits", j, n, w.n_total_written()));
        }
        w.flush_all().map_err(|e| format!("flush: {}", e))?;
    }
    let all = bits::unpack(&sink);
    if all.len() < n {
        return Err(format!("encode of {} reported {} bits but only {} reached the sink", j, n, all.len()));
    }
    Ok(all[..n].to_vec())
}

fn build_fam<J: Jet>(all: &[J]) -> Result<Fam, String> {
    let mut codes = vec![];
    let mut names = vec![];
    for j in all {
        codes.push(encode_bits(j)?);
        names.push(j.to_string());
    }
    Ok(Fam { codes, names })
}

fn core_fam() -> &'static Result<Fam, String> {
    static F: OnceLock<Result<Fam, String>> = OnceLock::new();
    F.get_or_init(|| build_fam(&Core::ALL[..]))
}
fn elements_fam() -> &'static Result<Fam, String> {
    static F: OnceLock<Result<Fam, String>> = OnceLock::new();
    F.get_or_init(|| build_fam(&Elements::ALL[..]))
}
fn bitcoin_fam() -> &'static Result<Fam, String> {
    static F: OnceLock<Result<Fam, String>> = OnceLock::new();
    F.get_or_init(|| build_fam(&Bitcoin::ALL[..]))
}

fn elements_wire_codes() -> &'static JetCodes {
    static C: OnceLock<JetCodes> = OnceLock::new();
    C.get_or_init(|| JetCodes::new(Family::Elements))
}

fn tables() -> &'static Result<Tables, String> {
    static T: OnceLock<Result<Tables, String>> = OnceLock::new();
    T.get_or_init(decls::load)
}

fn struct_pairs() -> &'static Result<Vec<decls::StructPair>, String> {
    static T: OnceLock<Result<Vec<decls::StructPair>, String>> = OnceLock::new();
    T.get_or_init(decls::load_struct_pairs)
}

fn widths() -> Widths {
    use simplicity::ffi::ffi as f;
    use std::mem::size_of;
    // SAFETY: immutable constants defined in depend/wrapper.c
    unsafe {
        Widths {
            c_uchar: f::c_sizeof_uchar,
            c_int: f::c_sizeof_int,
            c_uint: f::c_sizeof_uint,
            c_size_t: f::c_sizeof_size_t,
            c_fast8: f::c_sizeof_uint_fast8_t,
            c_fast16: f::c_sizeof_uint_fast16_t,
            c_fast32: f::c_sizeof_uint_fast32_t,
            c_fast64: f::c_sizeof_uint_fast64_t,
            c_least32: f::c_sizeof_uint_least32_t,
            c_ubounded: f::c_sizeof_ubounded,
            c_uword: f::c_sizeof_UWORD,
            c_simplicity_err: simplicity::ffi::tests::ffi::c_sizeof_simplicity_err,
            r_usize: size_of::<usize>(),
            r_uword: size_of::<UWORD>(),
            r_fast8: size_of::<f::c_uint_fast8_t>(),
            r_fast16: size_of::<f::c_uint_fast16_t>(),
            r_fast32: size_of::<f::c_uint_fast32_t>(),
            r_fast64: size_of::<f::c_uint_fast64_t>(),
            r_simplicity_err: size_of::<SimplicityErr>(),
        }
    }
}

// ------------------------------------------------------------------------------------------
// enumeration

fn fixed(_tier: Tier, emit: &mut dyn FnMut(&[u8])) {
    // If the sources cannot be read the first declaration case reports a harness error.
    let (n_fns, n_statics) = match tables() {
        Ok(t) => (t.fns.len(), t.statics.len()),
        Err(_) => (1, 0),
    };
    // (mode, family byte, size); the five sets are emitted round-robin so that every worker
    // (and the evidence samples, which are the first cases of the first workers) sees all kinds
    let n_structs = struct_pairs().as_ref().map(|v| v.len()).unwrap_or(0);
    let sets: [(u8, u8, usize); 6] = [(0, 0, Core::ALL.len()), (0, 1, Elements::ALL.len()), (0, 2, Bitcoin::ALL.len()), (1, 0, n_fns), (1, 1, n_statics), (2, 0, n_structs)];
    let longest = sets.iter().map(|s| s.2).max().unwrap_or(0);
    for i in 0..longest {
        for (mode, fam, n) in sets {
            if i < n {
                emit(&[mode, fam, (i >> 8) as u8, i as u8]);
            }
        }
    }
}

pub fn case(cx: &mut Case) -> CaseResult {
    let mode = cx.src.u8();
    let (mode, fam, idx) = match mode {
        0 | 1 | 2 => {
            let fam = cx.src.u8();
            let idx = cx.src.u16() as usize;
            (mode, fam, idx)
        }
        _ => {
            // random member of the union of the five sets
            let (nf, ns) = match tables() {
                Ok(t) => (t.fns.len(), t.statics.len()),
                Err(_) => (1, 0),
            };
            let sizes = [Core::ALL.len(), Elements::ALL.len(), Bitcoin::ALL.len(), nf, ns];
            let mut k = cx.src.below(sizes.iter().sum());
            let mut set = 0;
            while k >= sizes[set] {
                k -= sizes[set];
                set += 1;
            }
            cx.label("random re-check");
            if set < 3 {
                (0, set as u8, k)
            } else {
                (1, (set - 3) as u8, k)
            }
        }
    };
    if mode == 2 {
        cx.fp.write(&[2, 0]);
        cx.fp.write_u64(idx as u64);
        return struct_case(cx, idx);
    }
    if mode == 0 {
        let fam = fam.min(2);
        cx.fp.write(&[0, fam]);
        match fam {
            0 => {
                let i = idx.min(Core::ALL.len() - 1);
                cx.fp.write_u64(i as u64);
                jet_case(cx, FamId::Core, &Core::ALL[..], i, core_fam())
            }
            1 => {
                let i = idx.min(Elements::ALL.len() - 1);
                cx.fp.write_u64(i as u64);
                jet_case(cx, FamId::Elements, &Elements::ALL[..], i, elements_fam())
            }
            _ => {
                let i = idx.min(Bitcoin::ALL.len() - 1);
                cx.fp.write_u64(i as u64);
                jet_case(cx, FamId::Bitcoin, &Bitcoin::ALL[..], i, bitcoin_fam())
            }
        }
    } else {
        let t = match tables() {
            Ok(t) => t,
            Err(e) => return Err(harness_error(format!("cannot read the declarations: {}", e))),
        };
        if t.fns.is_empty() {
            return Err(harness_error("no foreign function declaration found under /repo/simplicity-sys/src"));
        }
        let fam = fam.min(1);
        if fam == 1 && !t.statics.is_empty() {
            let i = idx.min(t.statics.len() - 1);
            cx.fp.write(&[1, 1]);
            cx.fp.write_u64(i as u64);
            static_case(cx, t, i)
        } else {
            let i = idx.min(t.fns.len() - 1);
            cx.fp.write(&[1, 0]);
            cx.fp.write_u64(i as u64);
            decl_case(cx, t, i)
        }
    }
}

// ------------------------------------------------------------------------------------------
// jets

#[derive(Copy, Clone, PartialEq, Eq, Debug)]
enum FamId {
    Core,
    Elements,
    Bitcoin,
}

/// Static label text per family.
macro_rules! fam_label {
    ($fam:expr, $text:literal) => {
        match $fam {
            FamId::Core => concat!("core: ", $text),
            FamId::Elements => concat!("elements: ", $text),
            FamId::Bitcoin => concat!("bitcoin: ", $text),
        }
    };
}

fn type_name_str(t: &TypeName) -> String {
    String::from_utf8_lossy(t.0).into_owned()
}

/// Type-name clause: the name builds a type and the three readings (type, bit width, TMR) agree.
fn check_type_name(jet: &str, which: &str, t: &TypeName) -> Result<(usize, [u8; 32]), String> {
    let fin = t.to_final();
    let w = t.to_bit_width();
    if w != fin.bit_width() {
        return Err(format!("{} type `{}` of {}: to_bit_width() = {} but to_final().bit_width() = {}", which, type_name_str(t), jet, w, fin.bit_width()));
    }
    if t.tmr() != fin.tmr() {
        return Err(format!("{} type `{}` of {}: TypeName::tmr() differs from to_final().tmr()", which, type_name_str(t), jet));
    }
    Ok((w, fin.tmr().to_byte_array()))
}

fn is_prefix(a: &[bool], b: &[bool]) -> bool {
    a.len() <= b.len() && b[..a.len()] == a[..]
}

fn jet_case<J: Jet + Copy + PartialEq>(cx: &mut Case, fam: FamId, all: &[J], i: usize, table: &'static Result<Fam, String>) -> CaseResult {
    cx.nontrivial = true;
    let table = match table {
        Ok(t) => t,
        Err(e) => return Err(format!("building the code table of the family failed: {}", e)),
    };
    let jet = all[i];
    let name = jet.to_string();

    // 1. encode -> decode
    let code = encode_bits(&jet)?;
    if code != table.codes[i] {
        return Err(format!("encode of {} is not deterministic", name));
    }
    if code.is_empty() {
        return Err(format!("{} has the empty code", name));
    }
    for (variant, junk) in [("no trailing bits", vec![]), ("trailing ones", vec![true; 9]), ("trailing zeros", vec![false; 9]), ("trailing pattern", (0..17).map(|k| (i >> (k % 9)) & 1 == 1).collect::<Vec<bool>>())] {
        let mut stream = code.clone();
        stream.extend(junk);
        let bytes = bits::pack(&stream);
        let mut it = BitIter::from(bytes.as_slice());
        match J::decode(&mut it) {
            Ok(back) => {
                if back != jet {
                    return Err(format!("code {} of {} decodes to {} ({})", bits::bits_to_string(&code), name, back, variant));
                }
                if it.n_total_read() != code.len() {
                    return Err(format!("decoding {} consumed {} bits, its code has {} ({})", name, it.n_total_read(), code.len(), variant));
                }
            }
            Err(e) => return Err(format!("code {} of {} does not decode: {:?} ({})", bits::bits_to_string(&code), name, e, variant)),
        }
    }
    cx.label(fam_label!(fam, "encode -> decode identity, exact consumption"));

    // 2. prefix-freeness against every other jet of the family
    for (k, other) in table.codes.iter().enumerate() {
        if k != i && (is_prefix(&code, other) || is_prefix(other, &code)) {
            return Err(format!("code {} of {} and code {} of {} are prefix-related", bits::bits_to_string(&code), name, bits::bits_to_string(other), table.names[k]));
        }
    }
    cx.label(fam_label!(fam, "code prefix-free against all others"));

    // 3. name
    match J::parse(&name) {
        Ok(back) if back == jet => {}
        Ok(back) => return Err(format!("name `{}` parses to a different jet ({})", name, back)),
        Err(e) => return Err(format!("name `{}` does not parse: {:?}", name, e)),
    }
    if let Some(k) = table.names.iter().enumerate().position(|(k, n)| k != i && *n == name) {
        return Err(format!("name `{}` is shared by entries {} and {} of ALL", name, i, k));
    }
    cx.label(fam_label!(fam, "name parses back, unique"));

    // 4. type names
    let (src_t, tgt_t) = (jet.source_ty(), jet.target_ty());
    let (src_w, src_tmr) = check_type_name(&name, "source", &src_t)?;
    let (tgt_w, tgt_tmr) = check_type_name(&name, "target", &tgt_t)?;
    cx.label(fam_label!(fam, "type names build, widths and TMRs agree"));

    let mut sample = json!({
        "family": format!("{:?}", fam), "index": i, "jet": name, "code": bits::bits_to_string(&code),
        "source_ty": type_name_str(&src_t), "source_bits": src_w, "target_ty": type_name_str(&tgt_t), "target_bits": tgt_w,
    });

    match fam {
        FamId::Bitcoin => {
            // cmr() and cost() are `unimplemented!()` in this revision: never called.
            // (covered by the four bitcoin labels above)
        }
        FamId::Core => {
            let efam = match elements_fam() {
                Ok(t) => t,
                Err(e) => return Err(format!("building the Elements code table failed: {}", e)),
            };
            let e = match Elements::parse(&name) {
                Ok(e) => e,
                Err(err) => return Err(format!("Core jet {} has no Elements namesake: {:?}", name, err)),
            };
            if e.to_string() != name {
                return Err(format!("Elements::parse({:?}) displays as {}", name, e));
            }
            if e.source_ty() != src_t || e.target_ty() != tgt_t {
                return Err(format!(
                    "Core {} : {} -> {} but Elements {} : {} -> {}",
                    name,
                    type_name_str(&src_t),
                    type_name_str(&tgt_t),
                    name,
                    type_name_str(&e.source_ty()),
                    type_name_str(&e.target_ty())
                ));
            }
            let ei = Elements::ALL.iter().position(|x| *x == e).ok_or_else(|| format!("Elements::{:?} is not in Elements::ALL", e))?;
            let ecode = &efam.codes[ei];
            // Elements code == `0` ++ Core code
            if ecode.len() != code.len() + 1 || ecode[0] || ecode[1..] != code[..] {
                return Err(format!("Core code of {} is {} but the Elements code is {} (expected 0 followed by the Core code)", name, bits::bits_to_string(&code), bits::bits_to_string(ecode)));
            }
            cx.label("core: Elements namesake has equal type names and code = 0 ++ Core code");
            // informational: the families' cost tables (hence roots) are generated independently
            let core_cmr = jet.cmr().to_byte_array();
            let core_cost = cost_mw(&jet.cost().to_string())?;
            let same_cost = core_cost == cost_mw(&e.cost().to_string())?;
            let same_cmr = core_cmr == e.cmr().to_byte_array();
            cx.label(match (same_cost, same_cmr) {
                (true, true) => "core (info): cost and cmr equal the Elements namesake's",
                (false, false) => "core (info): cost and cmr differ from the Elements namesake's",
                (true, false) => "core (info): cost equal, cmr differs from the Elements namesake's",
                (false, true) => "core (info): cost differs, cmr equal to the Elements namesake's",
            });
            sample["cmr"] = json!(hex(&core_cmr));
            sample["cost_milliweight"] = json!(core_cost);
            sample["elements_code"] = json!(bits::bits_to_string(ecode));
        }
        FamId::Elements => {
            cx.label(if code[0] { "elements: Elements-specific jet (code starts with 1)" } else { "elements: jet shared with Core (code starts with 0)" });
            let ej = Elements::ALL[i];
            let rust_cmr = jet.cmr().to_byte_array();
            let rust_cost = cost_mw(&jet.cost().to_string())?;
            let c = c_one_jet(ej).map_err(|e| format!("Elements jet {} (code {}): {}", name, bits::bits_to_string(&code), e))?;
            if c.cmr != rust_cmr {
                return Err(format!("cmr of {}: Rust {} C {}", name, hex(&rust_cmr), hex(&c.cmr)));
            }
            if c.node_cost as u64 != rust_cost {
                return Err(format!("cost of {}: Rust {} milliweight, C table {}", name, rust_cost, c.node_cost));
            }
            match c.cost_bound {
                Ok(b) if b as u64 == C_OVERHEAD + rust_cost => {}
                other => return Err(format!("analyseBounds of the one-node program {}: {:?}, expected overhead {} + cost {}", name, other, C_OVERHEAD, rust_cost)),
            }
            if c.src_tmr != src_tmr || c.src_bits as usize != src_w {
                return Err(format!("source type of {}: Rust `{}` ({} bits, tmr {}), C {} bits, tmr {}", name, type_name_str(&src_t), src_w, hex(&src_tmr), c.src_bits, hex(&c.src_tmr)));
            }
            if c.tgt_tmr != tgt_tmr || c.tgt_bits as usize != tgt_w {
                return Err(format!("target type of {}: Rust `{}` ({} bits, tmr {}), C {} bits, tmr {}", name, type_name_str(&tgt_t), tgt_w, hex(&tgt_tmr), c.tgt_bits, hex(&c.tgt_tmr)));
            }
            cx.label("elements: C cmr, source/target type roots and sizes, cost equal the Rust table");
            // informational: the jet's C wrapper is declared on the Rust side and defined in C
            if let Ok(t) = tables() {
                let sym = format!("rustsimplicity_0_7_c_{}", name);
                let declared = t.fns.iter().any(|f| f.symbol == sym);
                let defined = t.c_fns.contains_key(&sym);
                cx.label(if declared && defined { "elements (info): wrapper rustsimplicity_0_7_c_<name> declared in Rust and defined in C" } else { "elements (info): wrapper declaration or C definition not found" });
            }
            sample["cmr"] = json!(hex(&rust_cmr));
            sample["cost_milliweight"] = json!(rust_cost);
            sample["c"] = json!({"cmr": hex(&c.cmr), "node_cost": c.node_cost, "cost_bound": format!("{:?}", c.cost_bound), "source_tmr": hex(&c.src_tmr), "source_bits": c.src_bits, "target_tmr": hex(&c.tgt_tmr), "target_bits": c.tgt_bits});
        }
    }
    cx.set_sample(|| sample);
    Ok(())
}

fn cost_mw(s: &str) -> Result<u64, String> {
    s.parse::<u64>().map_err(|_| harness_error(format!("Cost displays as {:?}, not an integer", s)))
}

struct FreeOnDrop(*mut u8);
impl Drop for FreeOnDrop {
    fn drop(&mut self) {
        unsafe { simplicity::ffi::alloc::rust_0_7_free(self.0) }
    }
}

fn root_bytes(m: &simplicity::ffi::ffi::sha256::CSha256Midstate) -> [u8; 32] {
    let mut a = [0u8; 32];
    for i in 0..8 {
        a[4 * i..4 * i + 4].copy_from_slice(&m.s[i].to_be_bytes());
    }
    a
}

struct CJet {
    cmr: [u8; 32],
    node_cost: ubounded,
    cost_bound: Result<ubounded, SimplicityErr>,
    src_tmr: [u8; 32],
    src_bits: ubounded,
    tgt_tmr: [u8; 32],
    tgt_bits: ubounded,
}

/// The one-node program consisting of `jet` through libsimplicity: decodeMallocDag (Elements
/// jet decoder), closeBitstream, mallocTypeInference, analyseBounds.  Modelled on `cbind::run`.
fn c_one_jet(jet: Elements) -> Result<CJet, String> {
    let program = bits::pack(&write_program(&[WNode::Jet(JetRef::Elements(jet))], elements_wire_codes()));
    let mut stream = CBitstream::from(program.as_slice());
    let mut census = CCombinatorCounters::default();
    unsafe {
        let mut dag: *mut CDagNode = std::ptr::null_mut();
        let r = simplicity_decodeMallocDag(&mut dag, simplicity_elements_decodeJet, &mut census, &mut stream);
        let len = match SimplicityErr::from_i32(r) {
            Ok(n) => n as usize,
            Err(e) => return Err(format!("the C decoder rejects the one-node program {}: {:?}", hex(&program), e)),
        };
        let _d1 = FreeOnDrop(dag as *mut u8);
        if len != 1 || dag.is_null() {
            return Err(format!("the C decoder returned {} nodes for a one-node program", len));
        }
        if let Err(e) = SimplicityErr::from_i32(simplicity_closeBitstream(&mut stream)) {
            return Err(format!("the C decoder did not consume exactly the jet's code: closeBitstream {:?}", e));
        }
        let node = &*dag;
        if node.tag != CTag::JET {
            return Err(format!("the C decoder produced a {:?} node", node.tag));
        }
        let cmr = root_bytes(&node.cmr);
        let node_cost = node.cost;
        let mut type_dag: *mut CType = std::ptr::null_mut();
        if let Err(e) = simplicity_mallocTypeInference(&mut type_dag, simplicity_elements_mallocBoundVars, dag, len as c_size_t, &census).into_result() {
            return Err(format!("C type inference fails: {:?}", e));
        }
        if type_dag.is_null() {
            return Err(harness_error("mallocTypeInference returned a NULL type dag (allocation failure)"));
        }
        let _d2 = FreeOnDrop(type_dag as *mut u8);
        let node = &*dag;
        let (six, tix) = (node.aux_types.types[0], node.aux_types.types[1]);
        let (st, tt) = (&*type_dag.add(six), &*type_dag.add(tix));
        let (mut cb, mut wb, mut fb, mut cost): (ubounded, ubounded, ubounded, ubounded) = (0, 0, 0, 0);
        let cost_bound = simplicity_analyseBounds(&mut cb, &mut wb, &mut fb, &mut cost, UBOUNDED_MAX, 0, UBOUNDED_MAX, dag, type_dag, len as c_size_t).into_result().map(|_| cost);
        Ok(CJet { cmr, node_cost, cost_bound, src_tmr: root_bytes(&st.type_merkle_root), src_bits: st.bit_size, tgt_tmr: root_bytes(&tt.type_merkle_root), tgt_bits: tt.bit_size })
    }
}

// ------------------------------------------------------------------------------------------
// declarations

fn kind_label(k: Kind) -> &'static str {
    match k {
        Kind::Import => "declaration: function in an extern block",
        Kind::Export => "declaration: #[no_mangle] function exported to C",
        Kind::Callback => "declaration: callback type alias",
    }
}

fn note_label(n: &'static str) -> &'static str {
    if n == decls::NOTE_VOID {
        "declaration (note): untyped pointer on one side"
    } else if n == decls::NOTE_RUST_CONST_C_MUT {
        "declaration (note): Rust *const / & where C takes a non-const pointer"
    } else if n == decls::NOTE_RUST_MUT_C_CONST {
        "declaration (note): Rust *mut where C takes a const pointer"
    } else if n == decls::NOTE_SIGN {
        "declaration (note): signedness differs"
    } else if n == decls::NOTE_PLATFORM {
        "declaration (note): fixed Rust width for a C type of platform-dependent width (equal on this target)"
    } else {
        "declaration (note): simplicity_err returned as plain i32"
    }
}

fn decl_case(cx: &mut Case, t: &Tables, i: usize) -> CaseResult {
    cx.nontrivial = true;
    let f = &t.fns[i];
    let w = widths();
    cx.label(kind_label(f.kind));
    cx.label_if(f.file.ends_with("jets_ffi.rs"), "declaration: jet wrapper (jets_ffi.rs)");
    let protos: &[decls::CFn] = t.c_fns.get(&f.symbol).map(|v| v.as_slice()).unwrap_or(&[]);
    let rust_sig = format!("{} [{}; symbol {}]", f.text, f.file, f.symbol);
    let c_sigs: Vec<String> = protos.iter().map(|p| format!("{} [{}: {}]", p.text, p.file, p.origin)).collect();
    cx.note(|| format!("Rust: {}\n        C: {:?}", rust_sig, c_sigs));
    cx.set_sample(|| json!({"declaration": i, "kind": f.kind.name(), "symbol": f.symbol, "rust": rust_sig, "rust_params": f.params, "rust_ret": f.ret, "c": c_sigs}));

    if !f.problems.is_empty() {
        cx.label("declaration: Rust side not parsed with confidence (skipped)");
        cx.note(|| format!("problems: {:?}", f.problems));
        return Ok(());
    }
    if protos.is_empty() {
        cx.label("declaration: C prototype not found (skipped)");
        return Ok(());
    }
    cx.label_if(protos.iter().any(|p| p.origin.contains("expansion of")), "declaration: C definition obtained by macro expansion");
    let c_arity = protos[0].params.len();
    if protos.iter().any(|p| p.params.len() != c_arity) {
        cx.label("declaration: C prototypes disagree among themselves (skipped)");
        return Ok(());
    }
    cx.label("declaration: matched with a C prototype");

    // arity
    if f.params.len() != c_arity {
        let detail = || format!("arity differs: Rust declares {} parameters, C has {}.\n  Rust: {}\n  C:    {}", f.params.len(), c_arity, rust_sig, c_sigs.join("\n        "));
        if f.symbol == "rustsimplicity_0_7_evalTCOExpression" && f.params.len() == 8 {
            return cx.known_or_fail(SIG_EVAL, detail);
        }
        return Err(detail());
    }
    cx.label("declaration: arity equal");

    let mut mismatches: Vec<String> = vec![];
    let mut ret_mismatches: Vec<String> = vec![];
    let mut unknown = false;
    for p in protos {
        for (k, (rt, ct)) in f.params.iter().zip(&p.params).enumerate() {
            match decls::compare(rt, ct, true, &w) {
                Verdict::Compatible(notes) => {
                    for n in notes {
                        cx.label(note_label(n));
                    }
                }
                Verdict::Unknown(why) => {
                    unknown = true;
                    cx.note(|| format!("parameter {}: {}", k, why));
                }
                Verdict::Mismatch(m) => mismatches.push(format!("parameter {} (`{}`): {} [{}]", k, f.param_names.get(k).cloned().unwrap_or_default(), m, p.file)),
            }
        }
        match decls::compare(&f.ret, &p.ret, false, &w) {
            Verdict::Compatible(notes) => {
                for n in notes {
                    cx.label(note_label(n));
                }
            }
            Verdict::Unknown(why) => {
                unknown = true;
                cx.note(|| format!("return type: {}", why));
            }
            Verdict::Mismatch(m) => ret_mismatches.push(format!("return type: {} [{}]", m, p.file)),
        }
    }
    cx.label_if(unknown, "declaration: some type not in the table (that position skipped)");
    if !mismatches.is_empty() {
        mismatches.sort();
        mismatches.dedup();
        return Err(format!("parameter types differ:\n  {}\n  Rust: {}\n  C:    {}", mismatches.join("\n  "), rust_sig, c_sigs.join("\n        ")));
    }
    cx.label_if(!unknown, "declaration: all parameter types compatible");
    if !ret_mismatches.is_empty() && !ASSERT_RETURN_TYPES {
        cx.label("declaration (note): RETURN TYPE DIFFERS (not asserted)");
        cx.note(|| format!("{:?}", ret_mismatches));
        return Ok(());
    }
    if !ret_mismatches.is_empty() {
        ret_mismatches.sort();
        ret_mismatches.dedup();
        let detail = || format!("{}\n  Rust: {}\n  C:    {}", ret_mismatches.join("\n  "), rust_sig, c_sigs.join("\n        "));
        // Case predicates of the two return-type defects present in the pinned tree.
        let is_bound_vars = (f.symbol == "rustsimplicity_0_7_elements_mallocBoundVars" || f.symbol == "rustsimplicity_0_7_callback_mallocBoundVars") && f.ret == "SimplicityErr";
        let is_decode_dag = f.symbol == "rustsimplicity_0_7_decodeMallocDag" && f.ret == "i32";
        if is_bound_vars {
            return cx.known_or_fail(SIG_BOUND_VARS_RET, detail);
        }
        if is_decode_dag {
            return cx.known_or_fail(SIG_DECODE_DAG_RET, detail);
        }
        return Err(detail());
    }
    cx.label_if(!unknown, "declaration: return type compatible");
    Ok(())
}

/// Foreign statics: compared for information only (the property is about functions).
fn static_case(cx: &mut Case, t: &Tables, i: usize) -> CaseResult {
    cx.nontrivial = true;
    let s = &t.statics[i];
    let w = widths();
    let vars: &[decls::CVar] = t.c_vars.get(&s.symbol).map(|v| v.as_slice()).unwrap_or(&[]);
    let c_texts: Vec<String> = vars.iter().map(|v| format!("{} [{}]", v.text, v.file)).collect();
    cx.set_sample(|| json!({"static": i, "symbol": s.symbol, "rust": format!("static {}: {} [{}]", s.rust_name, s.ty, s.file), "c": c_texts}));
    if vars.is_empty() {
        cx.label("static (info): C definition not found");
        return Ok(());
    }
    let rust_array = decls::parse_rust_type(&s.ty).array;
    let mut verdicts = vec![];
    for v in vars {
        if v.is_array != rust_array {
            verdicts.push(Verdict::Mismatch(format!("array on one side only: Rust `{}`, C `{}`", s.ty, v.text)));
        } else {
            verdicts.push(decls::compare(&s.ty, &v.ty, false, &w));
        }
    }
    if verdicts.iter().any(|v| matches!(v, Verdict::Mismatch(_))) {
        cx.label("static (info): TYPE DIFFERS from the C definition (nothing asserted; see replay)");
        cx.note(|| format!("static {}: {} vs {:?}: {:?}", s.symbol, s.ty, c_texts, verdicts));
    } else if verdicts.iter().any(|v| matches!(v, Verdict::Unknown(_))) {
        cx.label("static (info): type not in the table");
    } else {
        cx.label("static (info): type compatible with the C definition");
    }
    Ok(())
}

#[cfg(test)]
mod survey {
    //! `cargo test --release --offline c14_survey -- --nocapture`: prints every declaration with
    //! its verdicts (a reading aid for the parser; asserts nothing).
    use super::*;

    #[test]
    fn c14_compare_table() {
        let w = widths();
        let mis = |r: &str, c: &str| matches!(decls::compare(r, c, true, &w), Verdict::Mismatch(_));
        let ok = |r: &str, c: &str| matches!(decls::compare(r, c, true, &w), Verdict::Compatible(_));
        assert!(ok("*mut CFrameItem", "frameItem* dst"));
        assert!(ok("*const CFrameItem", "const frameItem* src"));
        assert!(ok("&mut CFrameItem", "frameItem *frame"));
        assert!(ok("*const elements::CTxEnv", "const txEnv* env"));
        assert!(ok("c_uchar", "flags_type anti_dos_checks"));
        assert!(ok("c_size_t", "const size_t len"));
        assert!(ok("ubounded", "ubounded minCost"));
        assert!(ok("*const c_uchar", "const unsigned char *genesisHash"));
        assert!(ok("c_uint", "unsigned int ix"));
        assert!(ok("*mut *mut CDagNode", "dag_node** dag"));
        assert!(mis("*const ubounded", "ubounded minCost"));
        assert!(mis("ubounded", "const ubounded* budget"));
        assert!(mis("*const CTxEnv", "const frameItem* src"));
        assert!(mis("*mut CDagNode", "dag_node** dag"));
        assert!(mis("c_uchar", "size_t n"));
        assert!(mis("u32", "uint64_t x"));
        assert!(mis("bool", "int x"));
        assert!(mis("SimplicityErr", "size_t"));
        assert!(matches!(decls::compare("Foo", "size_t n", true, &w), Verdict::Unknown(_)));
        assert!(matches!(decls::compare("u32", "struct foo x[3]", true, &w), Verdict::Unknown(_)));
        assert!(matches!(decls::compare("", "void", false, &w), Verdict::Compatible(_)));
        assert!(mis("", "int"));
    }

    #[test]
    fn c14_survey() {
        let t = tables().as_ref().expect("tables");
        let w = widths();
        println!("widths: {:?}", w);
        println!("rust files {}, c files {}, fns {}, statics {}, macro expansions {}", t.rust_files, t.c_files, t.fns.len(), t.statics.len(), t.macros_expanded);
        println!("unparsed extern items: {:?}", t.rust_unparsed_items);
        let mut found = 0;
        for (i, f) in t.fns.iter().enumerate() {
            let protos = t.c_fns.get(&f.symbol).cloned().unwrap_or_default();
            if !protos.is_empty() {
                found += 1;
            }
            let jet = f.file.ends_with("jets_ffi.rs");
            let mut lines = vec![];
            for p in &protos {
                if p.params.len() != f.params.len() {
                    lines.push(format!("   ARITY {} vs {} [{}]", f.params.len(), p.params.len(), p.file));
                    continue;
                }
                for (k, (rt, ct)) in f.params.iter().zip(&p.params).enumerate() {
                    let v = decls::compare(rt, ct, true, &w);
                    if v != Verdict::Compatible(vec![]) {
                        lines.push(format!("   param {}: {} | {} -> {:?}", k, rt, ct, v));
                    }
                }
                let v = decls::compare(&f.ret, &p.ret, false, &w);
                if v != Verdict::Compatible(vec![]) {
                    lines.push(format!("   ret: {} | {} -> {:?}", f.ret, p.ret, v));
                }
            }
            lines.sort();
            lines.dedup();
            if !jet || protos.len() != 1 || lines.iter().any(|l| !l.contains("untyped")) || !f.problems.is_empty() {
                println!("[{}] {:?} {} <{}> problems {:?}", i, f.kind, f.text, f.file, f.problems);
                for p in &protos {
                    println!("     C: {} <{}: {}>", p.text, p.file, p.origin);
                }
                for l in lines {
                    println!("{}", l);
                }
            }
        }
        println!("declarations with a C prototype: {} of {}", found, t.fns.len());
        for (i, s) in t.statics.iter().enumerate() {
            let vars = t.c_vars.get(&s.symbol).cloned().unwrap_or_default();
            let vs: Vec<String> = vars.iter().map(|v| format!("{} <{}> {:?}", v.text, v.file, decls::compare(&s.ty, &v.ty, false, &w))).collect();
            println!("static [{}] {}: {} <{}>  C: {:?}", i, s.symbol, s.ty, s.file, vs);
        }
    }
}

// ------------------------------------------------------------------------------------------
// struct layouts

/// Field-by-field comparison of a `#[repr(C)]` struct that crosses the boundary by pointer with
/// the C struct it stands for: number of fields, per-position type compatibility (the table of
/// the declaration comparison; by-value nested structs recursively), and no crosswise names (two
/// positions of which each carries the name of the other's C field).  Anything not understood is
/// counted, never reported.
fn compare_fields(cx: &mut Case, path: &str, rust: &[(String, String)], c: &[decls::CField], w: &Widths, depth: usize) -> Result<(), String> {
    if rust.len() != c.len() {
        return Err(format!("{}: Rust declares {} fields ({}), C {} ({})", path, rust.len(), rust.iter().map(|f| f.0.as_str()).collect::<Vec<_>>().join(", "), c.len(), c.iter().map(|f| f.name.as_str()).collect::<Vec<_>>().join(", ")));
    }
    for (i, ((rn, rt), cf)) in rust.iter().zip(c).enumerate() {
        let rt = decls::normalize_rust_field_type(rt);
        match &cf.ty {
            decls::CFieldTy::Nested(inner) => {
                let base = rt.trim();
                match decls::find_rust_struct(base) {
                    Some(rf) if depth < 4 => compare_fields(cx, &format!("{}.{}", path, cf.name), &rf, inner, w, depth + 1)?,
                    _ => {
                        if decls::parse_rust_type(base).ptr > 0 || matches!(decls::rust_class(base, w), decls::Class::Int { .. } | decls::Class::Bool) {
                            return Err(format!("{}: field {} (`{}: {}`) is a scalar or pointer where C has a nested struct `{}`", path, i, rn, rt, cf.name));
                        }
                        cx.label("struct: nested Rust struct not found (skipped)");
                    }
                }
            }
            decls::CFieldTy::Decl(d) => match decls::compare(&rt, d, true, w) {
                Verdict::Compatible(_) => cx.label("struct: field type compatible"),
                Verdict::Unknown(_) => cx.label("struct: field type not in the table (skipped)"),
                // a pointer field whose pointee differs has the same layout: counted only
                Verdict::Mismatch(m) if m.starts_with("different pointee") || m.starts_with("pointer depth differs") => cx.label("struct (note): pointer field with another pointee type (layout unaffected, not asserted)"),
                Verdict::Mismatch(m) => return Err(format!("{}: field {} (`{}` vs `{}`): {}", path, i, rn, d, m)),
            },
        }
    }
    // crosswise names
    for i in 0..rust.len() {
        for j in (i + 1)..rust.len() {
            let (ri, rj, ci, cj) = (&rust[i].0, &rust[j].0, &c[i].name, &c[j].name);
            if !decls::names_related(ri, ci) && !decls::names_related(rj, cj) && decls::names_related(ri, cj) && decls::names_related(rj, ci) {
                return Err(format!("{}: fields {} and {} are declared crosswise: Rust `{}`, `{}` at the positions of C `{}`, `{}`", path, i, j, ri, rj, ci, cj));
            }
        }
    }
    Ok(())
}

fn struct_case(cx: &mut Case, idx: usize) -> CaseResult {
    let pairs = match struct_pairs() {
        Ok(p) => p,
        Err(e) => return Err(harness_error(format!("cannot read the struct definitions: {}", e))),
    };
    if pairs.is_empty() {
        cx.label("struct: no pair found (skipped)");
        return Ok(());
    }
    let p = &pairs[idx.min(pairs.len() - 1)];
    cx.nontrivial = true;
    cx.label("struct: repr(C) struct compared field by field with the C struct");
    cx.set_sample(|| json!({"kind": "struct", "rust": p.rust_name, "c": p.c_name, "rust_file": p.rust_file, "c_file": p.c_file, "rust_fields": p.rust_fields, "c_fields": p.c_fields.iter().map(|f| f.name.clone()).collect::<Vec<_>>()}));
    let w = widths();
    compare_fields(cx, &format!("{} / {}", p.rust_name, p.c_name), &p.rust_fields, &p.c_fields, &w, 0)
}
