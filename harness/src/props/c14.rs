//! C14 (stub; being written)
use crate::engine::*;

pub const SPEC: Spec = Spec { rule: "stub", ..Spec::base("C14", "stub", case) };

pub fn case(_cx: &mut Case) -> CaseResult {
    Ok(())
}
