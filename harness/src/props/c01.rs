//! C01 Program and witness bit-encoding round-trips.

use super::exec_common::*;
use crate::engine::*;
use crate::gen::build::*;
use crate::gen::prog::*;
use crate::gen::values::*;
use crate::model::layout::*;
use serde_json::json;
use simplicity::dag::{DagLike, MaxSharing};
use simplicity::jet::{Core, CoreEnv, Elements};
use simplicity::node::{Commit, Inner, Redeem};
use simplicity::{BitIter, CommitNode, RedeemNode};
use std::collections::HashMap;
use std::sync::Arc;

pub const SPEC: Spec = Spec {
    rule: "a 1->1 program IR (an expression of a drawn arrow A->B wrapped as comp (comp const e) unit), Core or Elements jet family, 4..150 nodes, all combinator kinds, sharing probability swept 0..0.6. (a) commit time: disconnect without branch, witness/disconnect-bearing sub-expressions never shared; construct -> finalize_types -> to_vec_without_witness -> CommitNode::decode. (b) redemption time: witnesses generated for the inferred types; finalize_unpruned (and prune, when the Core program runs) -> to_vec_with_witness -> RedeemNode::decode. Oracle (round-trip): MaxSharing post-order walks of original and decoded program agree element-wise in combinator, payload, child indices, cmr, arrow, ihr/amr where defined and witness bits; re-encoding reproduces the bytes. (c) 0.8% of the cases: sizes the type-directed generator does not reach - constant words of 2^10..2^13 bits, and programs of 10 000..18 000 encoded nodes (balanced pair tree over distinct 32-bit words) - through both round trips. Non-trivial: >= 8 encoded nodes and at least one of {in-degree >= 2, non-empty witness value, hidden branch, disconnect, duplicates merged by the encoder}. Distinct by (program bytes, witness bytes).",
    design_ref: "§6 C01",
    max_len: 1500,
    quick_cases: 40_000,
    thorough_cases: 300_000,
    ..Spec::base("C01", "Program and witness bit-encoding round-trips", case)
};

thread_local! {
    static CORE_JETS: Vec<JetRef> = all_jets(Family::Core);
    static ELEMENTS_JETS: Vec<JetRef> = all_jets(Family::Elements);
    static CORE_MODELLED: Vec<JetRef> = modelled_core_jets();
}

pub fn payload<C, X, W>(inner: &Inner<C, X, W>) -> String {
    match inner {
        Inner::AssertL(_, c) => format!("assertl #{}", c),
        Inner::AssertR(c, _) => format!("assertr #{}", c),
        Inner::Fail(e) => format!("fail {}", e),
        other => other.to_string(),
    }
}

#[derive(Debug, PartialEq, Eq, Clone)]
pub struct NodeSig {
    pub what: String,
    pub left: Option<usize>,
    pub right: Option<usize>,
    pub cmr: String,
    pub arrow: String,
    pub src_tmr: [u8; 32],
    pub tgt_tmr: [u8; 32],
    pub ihr: Option<String>,
    pub amr: Option<String>,
    pub witness: Option<(Vec<bool>, [u8; 32])>,
}

pub fn walk_commit(n: &CommitNode) -> Vec<NodeSig> {
    n.post_order_iter::<MaxSharing<Commit>>()
        .map(|d| NodeSig {
            what: payload(d.node.inner()),
            left: d.left_index,
            right: d.right_index,
            cmr: d.node.cmr().to_string(),
            arrow: String::new(),
            src_tmr: d.node.arrow().source.tmr().to_byte_array(),
            tgt_tmr: d.node.arrow().target.tmr().to_byte_array(),
            ihr: d.node.ihr().map(|x| x.to_string()),
            amr: d.node.amr().map(|x| x.to_string()),
            witness: None,
        })
        .collect()
}

pub fn walk_redeem(n: &RedeemNode) -> Vec<NodeSig> {
    n.post_order_iter::<MaxSharing<Redeem>>()
        .map(|d| NodeSig {
            what: payload(d.node.inner()),
            left: d.left_index,
            right: d.right_index,
            cmr: d.node.cmr().to_string(),
            arrow: String::new(),
            src_tmr: d.node.arrow().source.tmr().to_byte_array(),
            tgt_tmr: d.node.arrow().target.tmr().to_byte_array(),
            ihr: Some(d.node.ihr().to_string()),
            amr: Some(d.node.amr().to_string()),
            witness: match d.node.inner() {
                Inner::Witness(v) => Some((v.iter_compact().collect(), v.ty().tmr().to_byte_array())),
                _ => None,
            },
        })
        .collect()
}

pub fn diff_walks(a: &[NodeSig], b: &[NodeSig]) -> Option<String> {
    if a.len() != b.len() {
        return Some(format!("original has {} nodes under maximal sharing, decoded has {}", a.len(), b.len()));
    }
    for (i, (x, y)) in a.iter().zip(b.iter()).enumerate() {
        if x != y {
            let field = if x.what != y.what {
                "combinator/payload"
            } else if x.left != y.left || x.right != y.right {
                "child indices"
            } else if x.cmr != y.cmr {
                "cmr"
            } else if x.src_tmr != y.src_tmr || x.tgt_tmr != y.tgt_tmr {
                "source/target type"
            } else if x.ihr != y.ihr {
                "ihr"
            } else if x.amr != y.amr {
                "amr"
            } else {
                "witness value"
            };
            return Some(format!("node {} differs in {}: original {:?}, decoded {:?}", i, field, x, y));
        }
    }
    None
}

pub struct Generated {
    pub prog: Prog,
    pub family: Family,
}

/// A 1 -> 1 program IR.  `commit_mode`: disconnect without branch, unique witness sub-expressions.
pub fn gen_unit_program(cx: &mut Case, commit_mode: bool, executable: bool) -> Generated {
    let family = if executable || cx.src.bool() { Family::Core } else { Family::Elements };
    let mut cfg = GenCfg::basic(family);
    cfg.jet_pool = Some(match (family, executable) {
        (Family::Core, true) => CORE_MODELLED.with(|j| j.clone()),
        (Family::Core, false) => CORE_JETS.with(|j| j.clone()),
        (Family::Elements, _) => ELEMENTS_JETS.with(|j| j.clone()),
    });
    cfg.max_nodes = match cx.src.below(4) {
        0 => 6,
        1 => 20,
        2 => 60,
        _ => 150,
    };
    cfg.share_p = [0u32, 20, 60, 110, 154][cx.src.below(5)];
    cfg.max_mid_width = [8usize, 40, 130][cx.src.below(3)];
    if commit_mode {
        cfg.disconnect_has_branch = false;
        cfg.unique_witness_subexprs = true;
    }
    let wmax = [4usize, 30, 120][cx.src.below(3)];
    let (a, b) = gen_arrow(&mut cx.src, wmax);
    let mut src = cx.src.clone();
    let mut g = ProgGen::new(&mut src, cfg);
    let e = g.expr(&a, &b, 0);
    let root = g.wrap_program(e, &a, &b, None);
    let prog = g.finish(root);
    cx.src = src;
    cx.label(if family == Family::Core { "family: Core" } else { "family: Elements" });
    Generated { prog, family }
}

fn label_kinds(cx: &mut Case, prog: &Prog) {
    cx.label_if(prog.has("witness"), "has witness");
    cx.label_if(prog.has("disconnect") || prog.has("disconnect1"), "has disconnect");
    cx.label_if(prog.has("assertl") || prog.has("assertr"), "has hidden branch");
    cx.label_if(prog.has("fail"), "has fail");
    cx.label_if(prog.has("word"), "has word");
    cx.label_if(prog.has("jet"), "has jet");
    cx.label_if(prog.has("case"), "has case");
    cx.label_if(prog.in_degrees().iter().any(|d| *d >= 2), "has node with in-degree >= 2");
}

fn decode_commit(family: Family, bytes: &[u8]) -> Result<Arc<CommitNode>, simplicity::DecodeError> {
    match family {
        Family::Core => CommitNode::decode::<_, Core>(BitIter::from(bytes)),
        Family::Elements => CommitNode::decode::<_, Elements>(BitIter::from(bytes)),
    }
}

pub fn decode_redeem(family: Family, prog: &[u8], wit: &[u8]) -> Result<Arc<RedeemNode>, simplicity::DecodeError> {
    match family {
        Family::Core => RedeemNode::decode::<_, _, Core>(BitIter::from(prog), BitIter::from(wit)),
        Family::Elements => RedeemNode::decode::<_, _, Elements>(BitIter::from(prog), BitIter::from(wit)),
    }
}

fn roundtrip_redeem(cx: &mut Case, what: &str, family: Family, redeem: &Arc<RedeemNode>, prog: &Prog) -> Result<(Vec<u8>, Vec<u8>, usize), String> {
    let (pb, wb) = redeem.to_vec_with_witness();
    if cx.verbose {
        eprintln!("  {}: nodes of the program being encoded (MaxSharing post-order):", what);
        for d in redeem.as_ref().post_order_iter::<MaxSharing<Redeem>>() {
            let w = match d.node.inner() {
                Inner::Witness(v) => format!(" value {} : {}", v, v.ty()),
                _ => String::new(),
            };
            eprintln!("    {}: {} ({:?},{:?}) : {}{}", d.index, payload(d.node.inner()), d.left_index, d.right_index, d.node.arrow(), w);
        }
    }
    let decoded = decode_redeem(family, &pb, &wb).map_err(|e| format!("{}: RedeemNode::decode rejects the library's own encoding: {}\n  program bytes {}\n  witness bytes {}\n  program: {}", what, e, hex(&pb), hex(&wb), prog.render()))?;
    let wa = walk_redeem(redeem);
    let wd = walk_redeem(&decoded);
    if let Some(d) = diff_walks(&wa, &wd) {
        return Err(format!("{}: {}\n  program bytes {}\n  witness bytes {}\n  program: {}", what, d, hex(&pb), hex(&wb), prog.render()));
    }
    let (pb2, wb2) = decoded.to_vec_with_witness();
    if pb2 != pb || wb2 != wb {
        return Err(format!("{}: re-encoding the decoded program gives different bytes: {} / {} vs {} / {}", what, hex(&pb2), hex(&wb2), hex(&pb), hex(&wb)));
    }
    // without-witness encoding of a redeem program equals the program stream
    if redeem.to_vec_without_witness() != pb {
        return Err(format!("{}: to_vec_without_witness differs from the program stream of to_vec_with_witness", what));
    }
    let _ = cx;
    Ok((pb, wb, wa.len()))
}

/// Sizes that the type-directed generator never reaches: constant words wider than the widest
/// word constructor (2^10 .. 2^13 bits) and programs of more than ten thousand encoded nodes (a
/// balanced tree of pairs over distinct 32-bit words, depth 14).  Both round trips.
fn large_program(cx: &mut Case) -> CaseResult {
    let family = if cx.src.bool() { Family::Core } else { Family::Elements };
    let mut nodes: Vec<Ir> = vec![];
    let body = if cx.src.bool() {
        cx.label("mode: constant word wider than 512 bits");
        let k = 1 + cx.src.below(3);
        let mut ids = vec![];
        for _ in 0..k {
            let n = 10 + cx.src.below(4);
            let fill = cx.src.u8();
            let bits: Vec<bool> = (0..(1usize << n)).map(|i| if i < 64 { cx.src.bool() } else { (fill >> (i % 8)) & 1 == 1 }).collect();
            nodes.push(Ir::Word(n, bits));
            ids.push(nodes.len() - 1);
        }
        let mut acc = ids[0];
        for id in &ids[1..] {
            nodes.push(Ir::Pair(acc, *id));
            acc = nodes.len() - 1;
        }
        acc
    } else {
        cx.label("mode: more than 10000 encoded nodes");
        let leaves = 5001 + cx.src.below(4000);
        let salt = cx.src.u16() as u32;
        let mut layer: Vec<usize> = (0..leaves as u32)
            .map(|i| {
                let v = i.wrapping_mul(0x9e37_79b9).wrapping_add(salt) ^ (i << 7);
                nodes.push(Ir::Word(5, (0..32).map(|b| (v >> (31 - b)) & 1 == 1).collect()));
                nodes.len() - 1
            })
            .collect();
        while layer.len() > 1 {
            let mut next = vec![];
            for pair in layer.chunks(2) {
                if pair.len() == 2 {
                    nodes.push(Ir::Pair(pair[0], pair[1]));
                    next.push(nodes.len() - 1);
                } else {
                    next.push(pair[0]);
                }
            }
            layer = next;
        }
        layer[0]
    };
    nodes.push(Ir::Unit);
    let u = nodes.len() - 1;
    nodes.push(Ir::Comp(body, u));
    let root = nodes.len() - 1;
    let prog = Prog { nodes, root, family };
    cx.nontrivial = true;
    // commit time
    let typed = type_check(&prog, true).map_err(|e| harness_error(format!("large program rejected: {:?}", e)))?;
    let commit = typed.commit.clone();
    let bytes = commit.to_vec_without_witness();
    cx.fp.write(&bytes);
    let n_nodes = walk_commit(&commit).len();
    cx.set_sample(|| json!({"mode": "large", "family": format!("{:?}", family), "encoded_nodes": n_nodes, "bytes": bytes.len(), "first_bytes": hex(&bytes[..bytes.len().min(48)])}));
    let decoded = decode_commit(family, &bytes).map_err(|e| format!("CommitNode::decode rejects the library's own encoding of a program with {} nodes ({} bytes, widest word {} bits): {}", n_nodes, bytes.len(), prog.nodes.iter().map(|n| if let Ir::Word(k, _) = n { 1usize << k } else { 0 }).max().unwrap_or(0), e))?;
    if let Some(d) = diff_walks(&walk_commit(&commit), &walk_commit(&decoded)) {
        return Err(format!("commit-time round trip of a program with {} nodes: {}", n_nodes, d));
    }
    if decoded.to_vec_without_witness() != bytes {
        return Err(format!("re-encoding the decoded commit program with {} nodes gives other bytes", n_nodes));
    }
    // redemption time
    let redeem = build_redeem(&prog, true, &HashMap::new()).map_err(|e| harness_error(format!("large program, pass 2: {:?}", e)))?;
    let (pb, wb) = redeem.to_vec_with_witness();
    let back = decode_redeem(family, &pb, &wb).map_err(|e| format!("RedeemNode::decode rejects the library's own encoding of a program with {} nodes ({} bytes): {}", n_nodes, pb.len(), e))?;
    if let Some(d) = diff_walks(&walk_redeem(&redeem), &walk_redeem(&back)) {
        return Err(format!("redemption-time round trip of a program with {} nodes: {}", n_nodes, d));
    }
    let (pb2, wb2) = back.to_vec_with_witness();
    if pb2 != pb || wb2 != wb {
        return Err(format!("re-encoding the decoded redeem program with {} nodes gives other bytes", n_nodes));
    }
    Ok(())
}

pub fn case(cx: &mut Case) -> CaseResult {
    if cx.src.chance(2) {
        return large_program(cx);
    }
    let commit_time = cx.src.chance(100);
    if commit_time {
        cx.label("mode: commit time");
        let g = gen_unit_program(cx, true, false);
        let prog = &g.prog;
        label_kinds(cx, prog);
        let typed = type_check(prog, true).map_err(|e| harness_error(format!("generated IR rejected: {:?}; {}", e, prog.render())))?;
        let commit = typed.commit.clone();
        let bytes = commit.to_vec_without_witness();
        cx.fp.write(&bytes);
        let decoded = decode_commit(g.family, &bytes).map_err(|e| format!("CommitNode::decode rejects the library's own encoding: {}\n  bytes {}\n  program: {}", e, hex(&bytes), prog.render()))?;
        let wa = walk_commit(&commit);
        let wd = walk_commit(&decoded);
        let n_nodes = wd.len();
        let merged = prog.reachable().len() > wa.len();
        cx.label_if(merged, "encoder merged equal-IHR duplicates");
        cx.nontrivial = n_nodes >= 8 && (merged || prog.in_degrees().iter().any(|d| *d >= 2) || prog.has("assertl") || prog.has("assertr") || prog.has("disconnect1"));
        cx.set_sample(|| json!({"mode": "commit", "family": format!("{:?}", g.family), "program": prog.render(), "bytes": hex(&bytes), "encoded_nodes": n_nodes}));
        if let Some(d) = diff_walks(&wa, &wd) {
            return Err(format!("commit-time round trip: {}\n  bytes {}\n  program: {}", d, hex(&bytes), prog.render()));
        }
        if commit.cmr() != decoded.cmr() {
            return Err("commit-time round trip changed the root cmr".into());
        }
        let again = decoded.to_vec_without_witness();
        if again != bytes {
            return Err(format!("re-encoding the decoded commit program gives {} instead of {}", hex(&again), hex(&bytes)));
        }
        return Ok(());
    }
    cx.label("mode: redemption time");
    let executable = cx.src.bool();
    // one case in seven: a single witness whose type (exact widths, padded sums, equal-width
    // arms) is pinned completely by the program, see c03::gen_pinned_witness_program
    let g = if cx.src.chance(36) { super::c03::gen_pinned_witness_program(cx) } else { gen_unit_program(cx, false, executable) };
    let prog = &g.prog;
    label_kinds(cx, prog);
    let typed = type_check(prog, true).map_err(|e| harness_error(format!("generated IR rejected: {:?}; {}", e, prog.render())))?;
    let mut vb = ValBuilder::new();
    // witness values are built with the plain constructors: the decoders of Value are part of
    // what this round trip tests (RedeemNode::decode reads witnesses with from_compact_bits)
    vb.constructors_only = true;
    let mut s = cx.src.clone();
    let wit = gen_witnesses(prog, &typed, &mut s, &mut vb);
    cx.src = s;
    let redeem = build_redeem(prog, true, &wit.values).map_err(|e| harness_error(format!("pass 2 failed: {:?}; {}", e, prog.render())))?;
    // the walk of the owned program (Arc) and of the borrowed one agree item by item (the two
    // have separate DagLike implementations, e.g. for the children of a disconnect node)
    {
        use simplicity::dag::{DagLike, InternalSharing};
        let owned: Vec<(usize, Option<usize>, Option<usize>)> = Arc::clone(&redeem).post_order_iter::<InternalSharing>().map(|d| (Arc::as_ptr(&d.node) as usize, d.left_index, d.right_index)).collect();
        let borrowed: Vec<(usize, Option<usize>, Option<usize>)> = redeem.as_ref().post_order_iter::<InternalSharing>().map(|d| (d.node as *const simplicity::RedeemNode as usize, d.left_index, d.right_index)).collect();
        if owned != borrowed {
            let i = owned.iter().zip(borrowed.iter()).position(|(a, b)| a != b).unwrap_or(owned.len().min(borrowed.len()));
            return Err(format!("post-order walk of Arc<RedeemNode> and of &RedeemNode differ at item {} ({} vs {} items); program {}", i, owned.len(), borrowed.len(), prog.render()));
        }
    }
    let (pb, wb, n_nodes) = roundtrip_redeem(cx, "unpruned redeem round trip", g.family, &redeem, prog)?;
    cx.fp.write(&pb);
    cx.fp.write(&wb);
    let merged = prog.reachable().len() > n_nodes;
    cx.label_if(merged, "encoder merged equal-IHR duplicates");
    cx.label_if(!wb.is_empty(), "non-empty witness stream");
    cx.nontrivial = n_nodes >= 8 && (merged || !wb.is_empty() || prog.in_degrees().iter().any(|d| *d >= 2) || prog.has("assertl") || prog.has("assertr") || prog.has("disconnect"));
    cx.set_sample(|| {
        json!({"mode": "redeem", "family": format!("{:?}", g.family), "program": prog.render(), "program_bytes": hex(&pb), "witness_bytes": hex(&wb), "encoded_nodes": n_nodes,
            "witnesses": wit.model.iter().map(|(k, v)| format!("{}: {}", k, v.show_short(&wit.types[k]))).collect::<Vec<_>>()})
    });
    // the witness values that come back are the generated ones (through the IR's own order)
    {
        let expected: HashMap<Vec<bool>, usize> = wit.model.iter().fold(HashMap::new(), |mut m, (k, v)| {
            *m.entry(compact_bits(&wit.types[k], v)).or_insert(0) += 1;
            m
        });
        for sig in walk_redeem(&redeem) {
            if let Some((bits, _)) = sig.witness {
                if !expected.contains_key(&bits) {
                    return Err(harness_error("redeem program carries a witness value that was not generated"));
                }
            }
        }
    }
    // Pruned programs are *not* part of this property's domain: `prune` re-infers types in a
    // context that also holds the pruned-away branches (an "abandoned sibling constraining a
    // shared node"), which the quantifier excludes.  Their serialisation is checked by C08/C12.
    let _ = (executable, CoreEnv::new());
    Ok(())
}
