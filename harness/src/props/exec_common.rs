//! Shared machinery for the execution properties (C05, C07, C08, C12): run a redemption
//! program on the Bit Machine, run the tree-model evaluator on the same IR, compare.

use crate::engine::*;
use crate::gen::prog::*;
use crate::model::eval::*;
use crate::model::layout::*;
use simplicity::bit_machine::ExecutionError;
use simplicity::jet::{Core, CoreEnv};
use simplicity::{BitMachine, RedeemNode, Value};
use std::collections::HashMap;
use std::sync::Arc;

/// Jet specification hook for the evaluator, backed by model::jets.
pub fn jet_spec(j: &JetRef, input: &RVal) -> Result<Result<RVal, ()>, String> {
    let name = j.name();
    let mut bits = vec![];
    flat_bits(input, &mut bits);
    let src = j.source();
    if bits.len() != src.width {
        return Err(format!("!model input of {} has {} bits, source type has {}", name, bits.len(), src.width));
    }
    match crate::model::jets::model(&name, &bits) {
        None => Err(name),
        Some(Err(())) => Ok(Err(())),
        Some(Ok(out)) => {
            let t = j.target();
            match from_flat(&t, &out) {
                Some(v) => Ok(Ok(v)),
                None => Err(format!("!model output of {} has {} bits, target type {} has {}", name, out.len(), t.show_short(), t.width)),
            }
        }
    }
}

/// Core jets that have a functional model.
pub fn modelled_core_jets() -> Vec<JetRef> {
    Core::ALL
        .iter()
        .map(|j| JetRef::Core(*j))
        .filter(|j| {
            let s = j.source();
            s.width <= 512 && !s.has_padding() && crate::model::jets::model(&j.name(), &vec![false; s.width]).is_some()
        })
        .collect()
}

#[derive(Debug)]
pub enum MachineOutcome {
    Ok(Value),
    Err(ExecutionError),
    /// the machine refused the program (hard limits)
    Refused(String),
}

pub struct Observed {
    pub outcome: MachineOutcome,
    /// (max cells in use, max frames alive), hook values
    pub high_water: (usize, usize),
    /// (buffer bits, frame stack capacity) the machine was created with
    pub capacity: (usize, usize),
}

/// Execute on a fresh machine with the Core environment.
pub fn run_core(redeem: &Arc<RedeemNode>, input: Option<&Value>) -> Observed {
    let mut mac = match BitMachine::for_program(redeem) {
        Ok(m) => m,
        Err(e) => return Observed { outcome: MachineOutcome::Refused(e.to_string()), high_water: (0, 0), capacity: (0, 0) },
    };
    let capacity = mac.verif_capacity();
    if let Some(v) = input {
        if let Err(e) = mac.input(v) {
            return Observed { outcome: MachineOutcome::Err(e), high_water: mac.verif_high_water(), capacity };
        }
    }
    let r = mac.exec(redeem, &CoreEnv::new());
    let high_water = mac.verif_high_water();
    Observed { outcome: match r { Ok(v) => MachineOutcome::Ok(v), Err(e) => MachineOutcome::Err(e) }, high_water, capacity }
}

pub struct ModelRun {
    pub result: Result<RVal, EvalError>,
    pub trace: EvalTrace,
}

pub fn run_model(prog: &Prog, cmrs: &[[u8; 32]], witnesses: &HashMap<Id, RVal>, input: &RVal) -> ModelRun {
    let spec = |j: &JetRef, v: &RVal| jet_spec(j, v);
    let mut ev = Evaluator { prog, witnesses, jet_spec: &spec, cmrs, trace: EvalTrace::default(), step_limit: 2_000_000 };
    let result = ev.eval(prog.root, input);
    ModelRun { result, trace: ev.trace }
}

/// Compare a machine outcome with the model result.  `tgt` is the program's actual target type.
/// Returns Ok(label) on agreement.
pub fn compare(outcome: &MachineOutcome, model: &Result<RVal, EvalError>, tgt: &Arc<RTy>) -> Result<&'static str, String> {
    match (outcome, model) {
        (_, Err(EvalError::Stuck(m))) => Err(harness_error(format!("model evaluator stuck: {}", m))),
        (_, Err(EvalError::UnmodelledJet(n))) => {
            if let Some(m) = n.strip_prefix('!') {
                Err(harness_error(m))
            } else {
                Ok("run: unmodelled jet (skipped)")
            }
        }
        (MachineOutcome::Refused(m), _) => Err(format!("machine refused a small program: {}", m)),
        (MachineOutcome::Ok(v), Ok(want)) => {
            let f = crate::gen::types::to_final(tgt);
            if !v.is_of_type(&f) {
                return Err(format!("machine output has type {}, program target type is {}", v.ty(), tgt.show_short()));
            }
            let bits: Vec<bool> = v.iter_padded().collect();
            if bits.len() != tgt.width {
                return Err(format!("machine output has {} bits, target width is {}", bits.len(), tgt.width));
            }
            let got = parse_padded(tgt, &bits).ok_or_else(|| "output too short".to_string())?;
            if got != *want {
                return Err(format!("machine output {} differs from the semantics' value {} (target type {})", got.show_short(tgt), want.show_short(tgt), tgt.show_short()));
            }
            // the compact view must agree as well
            let compact: Vec<bool> = v.iter_compact().collect();
            if compact != compact_bits(tgt, want) {
                return Err("compact view of the machine output differs from the model value".into());
            }
            Ok("run: success")
        }
        (MachineOutcome::Err(ExecutionError::ReachedPrunedBranch(c)), Err(EvalError::Fail(Failure::PrunedBranch(h)))) => {
            if c.to_byte_array() == *h {
                Ok("run: assertion failed")
            } else {
                Err(format!("machine reports pruned branch {} but the semantics reach hidden branch {}", c, hex(h)))
            }
        }
        (MachineOutcome::Err(ExecutionError::ReachedFailNode(_)), Err(EvalError::Fail(Failure::FailNode))) => Ok("run: fail node"),
        (MachineOutcome::Err(ExecutionError::JetFailed(_)), Err(EvalError::Fail(Failure::JetFailed))) => Ok("run: jet failed"),
        (m, w) => Err(format!(
            "machine and semantics disagree: machine {}, semantics {}",
            match m {
                MachineOutcome::Ok(v) => format!("Ok({})", v),
                MachineOutcome::Err(e) => format!("Err({})", e),
                MachineOutcome::Refused(e) => format!("refused({})", e),
            },
            match w {
                Ok(v) => format!("Ok({})", v.show_short(tgt)),
                Err(e) => format!("{:?}", e),
            }
        )),
    }
}
