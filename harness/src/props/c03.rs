//! C03 Validity, Merkle roots and cost agree with libsimplicity.

use super::c01::gen_unit_program;
use crate::cbind::{self, SimplicityErr, Stage};
use crate::engine::*;
use crate::gen::build::*;
use crate::gen::env::dummy_env;
use crate::gen::prog::*;
use crate::gen::values::*;
use crate::model::bits::unpack;
use crate::model::layout::RTy;
use crate::model::wire;
use serde_json::json;
use simplicity::jet::Elements;
use simplicity::{BitIter, RedeemNode};

pub const SPEC: Spec = Spec {
    rule: "Elements family only. mode valid: the (program, witness) encoding of a generated well-typed program with all combinator kinds (and, when it runs in a minimal environment, of its pruned form); mode mutate: 1-4 byte-level mutations of such an encoding (bit flip, overwrite, truncate, extend, splice, insert, delete; program or witness); mode raw: arbitrary bytes; mode inner-type duplicate: a hand-assembled DAG with two unshared nodes of one identity hash whose inner types (and annotated roots) differ, and its canonical twin; mode expression (12% of the non-raw cases): a generated expression A -> B that is not wrapped as a program, built by Rust, serialised and given to C, which computes all roots before its 1->1 check - cmr/amr/ihr of the expression (source type differs from target type in most) must equal C's. Oracle (differential against the vendored C pipeline: decodeMallocDag, closeBitstream, mallocTypeInference, fillWitnessData, closeBitstream, computeAnnotatedMerkleRoot, verifyNoDuplicateIdentityHashes, analyseBounds, 1->1 check): RedeemNode::decode::<Elements> is Ok exactly when C accepts, except C FailCode (designed) and C Malloc/ExecMemory refusals (outside libsimplicity's limits, counted); when both accept, cmr/amr/ihr are byte-identical, the cmr and amr of every node equal those of the C DAG node at the same position (C numbering minus hidden nodes = canonical post-order), and bounds().cost equals the C cost bound whenever analyseBounds(CELLS_MAX) succeeds. Inputs whose declared node count cannot fit in the available bits are only given to Rust (the C decoder allocates from the length prefix). Non-trivial: both accept and >= 6 nodes. Distinct by input bytes.",
    design_ref: "§6 C03",
    max_len: 1500,
    quick_cases: 30_000,
    thorough_cases: 1_000_000,
    alloc_limit: 512 << 20,
    fuzz: Some(FuzzSpec { target: "c03_differential", prefix: &[255], max_len: 4096, quick_runs: 20_000, thorough_runs: 250_000, jobs: 16 }),
    ..Spec::base("C03", "Validity, Merkle roots and cost agree with libsimplicity", case)
};

pub fn compare(cx: &mut Case, prog: &[u8], wit: &[u8], origin: &str) -> CaseResult {
    let rust = RedeemNode::decode::<_, _, Elements>(BitIter::from(prog), BitIter::from(wit));
    // pre-filter: declared length vs available bits (every node needs >= 5 bits)
    let bits = unpack(prog);
    match wire::read_len(&bits) {
        Ok((len, used)) => {
            if len.saturating_mul(5) > (bits.len() - used) as u128 {
                cx.label("C not called: declared length exceeds input");
                if rust.is_ok() {
                    return Err(format!("Rust accepts a program whose declared node count {} cannot fit in {} bits: {}", len, bits.len(), hex(prog)));
                }
                return Ok(());
            }
        }
        Err(_) => {
            cx.label("C not called: no length prefix");
            if rust.is_ok() {
                return Err(format!("Rust accepts a program without a complete length prefix: {}", hex(prog)));
            }
            return Ok(());
        }
    }
    let c = cbind::run(prog, wit, None);
    let ctx = || format!("{} program {} witness {}", origin, hex(prog), hex(wit));
    match (&rust, &c.rejected) {
        (Ok(r), None) => {
            cx.label("both accept");
            let n = simplicity::dag::DagLike::post_order_iter::<simplicity::dag::InternalSharing>(r.as_ref()).count();
            if n >= 6 {
                cx.nontrivial = true;
            }
            // (C counts hidden nodes as DAG nodes, Rust folds them into assertions: no count check)
            if r.cmr().to_byte_array() != c.cmr {
                return Err(format!("cmr differs: Rust {} C {}; {}", r.cmr(), hex(&c.cmr), ctx()));
            }
            if r.amr().to_byte_array() != c.amr {
                return Err(format!("amr differs: Rust {} C {}; {}", r.amr(), hex(&c.amr), ctx()));
            }
            if r.ihr().to_byte_array() != c.ihr {
                return Err(format!("ihr differs: Rust {} C {}; {}", r.ihr(), hex(&c.ihr), ctx()));
            }
            per_node(cx, r, &c, &ctx)?;
            match c.bounds {
                Ok(cost) => {
                    let rc: u64 = r.bounds().cost.to_string().parse().unwrap_or(u64::MAX);
                    if rc != cost as u64 {
                        return Err(format!("cost bound differs: Rust {} C {}; {}", rc, cost, ctx()));
                    }
                    cx.label("cost compared");
                }
                Err(SimplicityErr::ExecMemory) | Err(SimplicityErr::ExecBudget) | Err(SimplicityErr::Malloc) => cx.label("cost outside C limits (not compared)"),
                Err(e) => return Err(format!("analyseBounds failed unexpectedly with {:?}; {}", e, ctx())),
            }
            Ok(())
        }
        (Err(_), Some(_)) => {
            cx.label("both reject");
            Ok(())
        }
        (Ok(_), Some((Stage::Decode, SimplicityErr::FailCode))) => {
            cx.label("C refuses fail node (designed)");
            Ok(())
        }
        (_, Some((_, SimplicityErr::Malloc))) | (_, Some((_, SimplicityErr::ExecMemory))) => {
            cx.label("C resource refusal (outside limits)");
            Ok(())
        }
        (Ok(_), Some((stage, e))) => Err(format!("Rust accepts but libsimplicity rejects at {:?} with {:?}; {}", stage, e, ctx())),
        (Err(e), None) => Err(format!("libsimplicity accepts but Rust rejects with: {}; {}", e, ctx())),
    }
}

/// Every node, not only the root: the C DAG numbers the nodes as the encoding does (hidden nodes
/// included); the Rust program yields the same sequence without the hidden nodes in its
/// canonical post-order.  C exposes the commitment and annotated roots per node (the identity
/// hash only for the root).
fn per_node(cx: &mut Case, r: &RedeemNode, c: &cbind::COutput, ctx: &dyn Fn() -> String) -> CaseResult {
    let c_ix: Vec<usize> = (0..c.node_hidden.len()).filter(|i| !c.node_hidden[*i]).collect();
    let items: Vec<_> = simplicity::dag::DagLike::post_order_iter::<simplicity::dag::MaxSharing<simplicity::node::Redeem>>(r).collect();
    if items.len() != c_ix.len() {
        cx.label("per-node comparison skipped (node counts differ)");
        return Ok(());
    }
    cx.label("per-node cmr and amr compared");
    for (k, it) in items.iter().enumerate() {
        let ci = c_ix[k];
        if it.node.cmr().to_byte_array() != c.node_cmr[ci] {
            return Err(format!("cmr of node {} ({}) differs: Rust {} C {}; {}", k, it.node.inner(), it.node.cmr(), hex(&c.node_cmr[ci]), ctx()));
        }
        if it.node.amr().to_byte_array() != c.node_amr[ci] {
            return Err(format!("amr of node {} ({}) differs: Rust {} C {}; {}", k, it.node.inner(), it.node.amr(), hex(&c.node_amr[ci]), ctx()));
        }
    }
    Ok(())
}

/// An expression of a drawn arrow A -> B that is *not* wrapped as a program: its roots are
/// computed by Rust on the built node and by C on its serialisation (C computes the commitment,
/// annotated and identity roots before it checks that the root is 1 -> 1).  This is where the
/// source and target types enter the identity hash with different values.
fn expression_roots(cx: &mut Case) -> CaseResult {
    cx.label("mode: roots of a non-program expression");
    let mut cfg = GenCfg::basic(Family::Elements);
    cfg.fail = false;
    cfg.max_nodes = [6usize, 20, 60][cx.src.below(3)];
    cfg.share_p = [0u32, 40, 120][cx.src.below(3)];
    let wmax = [2usize, 12, 70][cx.src.below(3)];
    let (a, b) = gen_arrow(&mut cx.src, wmax);
    let mut src = cx.src.clone();
    let mut g = ProgGen::new(&mut src, cfg);
    let e = g.expr(&a, &b, 0);
    let prog = g.finish(e);
    cx.src = src;
    let typed = match type_check(&prog, false) {
        Ok(t) => t,
        Err(e) => return Err(harness_error(format!("generated expression rejected: {:?}; {}", e, prog.render()))),
    };
    let mut vb = ValBuilder::new();
    vb.constructors_only = true;
    vb.allow_machine = false;
    let mut s = cx.src.clone();
    let wit = gen_witnesses(&prog, &typed, &mut s, &mut vb);
    cx.src = s;
    let redeem = build_redeem(&prog, false, &wit.values).map_err(|e| harness_error(format!("pass 2 (expression): {:?}", e)))?;
    let (pb, wb) = redeem.to_vec_with_witness();
    cx.fp.write(&pb);
    cx.fp.write_u64(0xfffd);
    cx.fp.write(&wb);
    cx.set_sample(|| json!({"mode": "expression", "arrow": redeem.arrow().to_string(), "expression": prog.render(), "bytes": hex(&pb), "witness": hex(&wb)}));
    let c = cbind::run(&pb, &wb, None);
    let ctx = || format!("expression {} : {} program {} witness {}", prog.render(), redeem.arrow(), hex(&pb), hex(&wb));
    match &c.rejected {
        None | Some((Stage::NotProgram, _)) => {}
        Some((stage, e)) => {
            // Rust has not decoded these bytes: nothing in the property relates a C refusal of
            // an expression to a Rust verdict
            cx.label("expression: C stops before the roots (not compared)");
            cx.note(|| format!("C stopped at {:?} with {:?}", stage, e));
            return Ok(());
        }
    }
    let n = simplicity::dag::DagLike::post_order_iter::<simplicity::dag::InternalSharing>(redeem.as_ref()).count();
    cx.nontrivial = n >= 4 && redeem.arrow().source != redeem.arrow().target;
    cx.label_if(redeem.arrow().source != redeem.arrow().target, "expression: source type differs from target type");
    if redeem.cmr().to_byte_array() != c.cmr {
        return Err(format!("cmr differs: Rust {} C {}; {}", redeem.cmr(), hex(&c.cmr), ctx()));
    }
    if redeem.amr().to_byte_array() != c.amr {
        return Err(format!("amr differs: Rust {} C {}; {}", redeem.amr(), hex(&c.amr), ctx()));
    }
    if redeem.ihr().to_byte_array() != c.ihr {
        return Err(format!("ihr differs: Rust {} C {}; {}", redeem.ihr(), hex(&c.ihr), ctx()));
    }
    per_node(cx, redeem.as_ref(), &c, &ctx)
}

/// `comp (comp (pair witness const_T) eq_T) unit`: one witness node whose type T is pinned
/// completely by the combinator-only equality `eq_T : T x T -> 2` (every sum and product of T is
/// taken apart by a case / take / drop).  T is either a product of words of an exact total width
/// 1..1400 (all residues modulo the SHA-256 block and padding boundaries of the witness hash) or
/// a drawn type up to 1300 bits with sums and padding.
pub fn gen_pinned_witness_program(cx: &mut Case) -> super::c01::Generated {
    cx.label("program: one witness of a pinned type");
    let mut src = cx.src.clone();
    let ty = if src.bool() {
        let w = src.range(1, 1400);
        let mut parts = vec![];
        for k in 0..11 {
            if (w >> k) & 1 == 1 {
                parts.push(RTy::word(k));
            }
        }
        let r = src.below(parts.len());
        parts.rotate_left(r);
        let mut it = parts.into_iter().rev();
        let last = it.next().unwrap();
        it.fold(last, |acc, p| RTy::prod(p, acc))
    } else if src.bool() {
        // a sum whose arms have the same width, one of them with padding inside and the other a
        // plain product of words (the compact and padded encodings of such a sum differ only
        // inside one arm), optionally next to other data
        let mut a = crate::gen::types::gen_ty(&mut src, 60, 5);
        for _ in 0..8 {
            if a.has_padding() {
                break;
            }
            a = RTy::sum(RTy::unit(), a);
        }
        let w = a.width;
        let mut parts = vec![];
        for k in 0..11 {
            if (w >> k) & 1 == 1 {
                parts.push(RTy::word(k));
            }
        }
        let b = match parts.pop() {
            None => RTy::unit(),
            Some(last) => parts.into_iter().rev().fold(last, |acc, p| RTy::prod(p, acc)),
        };
        let s = if src.bool() { RTy::sum(a, b) } else { RTy::sum(b, a) };
        match src.below(3) {
            0 => s,
            1 => RTy::prod(s, RTy::word(3)),
            _ => RTy::prod(RTy::word(1), s),
        }
    } else {
        let wmax = [40usize, 300, 1300][src.below(3)];
        crate::gen::types::gen_ty(&mut src, wmax, 6)
    };
    let cval = gen_val(&mut src, &ty);
    let mut b = super::c06::B { nodes: vec![], eq_memo: vec![] };
    let w = b.push(Ir::Witness);
    let c = b.constant(&mut src, &ty, &cval);
    let p = b.push(Ir::Pair(w, c));
    let e = b.eq(&ty);
    let t = b.push(Ir::Comp(p, e));
    let u = b.push(Ir::Unit);
    let root = b.push(Ir::Comp(t, u));
    cx.src = src;
    cx.label_if(ty.width % 512 >= 432 && ty.width % 512 <= 455, "witness type width near a SHA-256 padding boundary");
    cx.label_if(ty.has_padding(), "witness type has padding");
    super::c01::Generated { prog: Prog { nodes: b.nodes, root, family: Family::Elements }, family: Family::Elements }
}

pub fn case(cx: &mut Case) -> CaseResult {
    let mode = cx.src.weighted(&[40, 50, 3, 20]);
    // (the raw mode stays the last one of the four for the fuzz target's prefix byte; the
    //  expression mode is drawn separately)
    if mode != 3 && cx.src.chance(12) {
        return expression_roots(cx);
    }
    if mode == 2 {
        // hand-assembled: two unshared nodes with one identity hash whose inner types differ
        // (annotated roots differ), and the canonical twin; C decides both
        cx.label("mode: equal identity hash, different inner types");
        let mut s = cx.src.clone();
        let (neg, twin, desc) = super::c02::inner_type_duplicate(&mut s, Family::Elements);
        cx.src = s;
        cx.fp.write(&neg);
        cx.set_sample(|| json!({"mode": "inner-type duplicate", "program": hex(&neg), "twin": hex(&twin), "shape": desc}));
        compare(cx, &twin, &[], "twin of inner-type duplicate")?;
        if !cx.nontrivial {
            return Err(harness_error(format!("canonical twin of an inner-type duplicate is not accepted by both sides: {} ({})", hex(&twin), desc)));
        }
        return compare(cx, &neg, &[], "inner-type duplicate");
    }
    if mode == 3 {
        cx.label("mode: raw bytes");
        let split = cx.src.u8();
        let rest = cx.src.rest().to_vec();
        let (prog, wit): (&[u8], &[u8]) = if split < 160 || rest.is_empty() {
            (&rest[..], &[])
        } else {
            let cut = (split as usize * rest.len()) >> 8;
            rest.split_at(cut)
        };
        cx.fp.write(prog);
        cx.fp.write_u64(0xfffe);
        cx.fp.write(wit);
        cx.set_sample(|| json!({"mode": "raw", "program": hex(prog), "witness": hex(wit)}));
        return compare(cx, prog, wit, "raw");
    }
    // a valid Elements program
    let pinned = cx.src.chance(45);
    let mut g = if pinned { gen_pinned_witness_program(cx) } else { gen_unit_program(cx, false, false) };
    if g.family != Family::Elements {
        // regenerate in the Elements family: jets of the Core family have other codes
        for n in g.prog.nodes.iter_mut() {
            if let Ir::Jet(JetRef::Core(j)) = n {
                use simplicity::jet::Jet;
                match Elements::parse(&j.to_string()) {
                    Ok(e) => *n = Ir::Jet(JetRef::Elements(e)),
                    Err(_) => *n = Ir::Unit,
                }
            }
        }
        g.prog.family = Family::Elements;
        g.family = Family::Elements;
    }
    let prog_ir = g.prog;
    let typed = match type_check(&prog_ir, true) {
        Ok(t) => t,
        Err(_) => {
            // replacing an unknown jet by unit may break typing; not interesting here
            cx.label("discarded: ill-typed after family conversion");
            return Ok(());
        }
    };
    let mut vb = ValBuilder::new();
    vb.constructors_only = true; // witness values by plain constructors: the value decoders are not this check's subject (C10) and must not make the harness inconsistent
    vb.allow_machine = false;
    let mut s = cx.src.clone();
    let wit = gen_witnesses(&prog_ir, &typed, &mut s, &mut vb);
    cx.src = s;
    let redeem = build_redeem(&prog_ir, true, &wit.values).map_err(|e| harness_error(format!("pass 2: {:?}", e)))?;
    let (mut prog, mut witb) = redeem.to_vec_with_witness();
    cx.label_if(prog_ir.has("fail"), "has fail");
    cx.label_if(prog_ir.has("disconnect"), "has disconnect");
    cx.label_if(prog_ir.has("assertl") || prog_ir.has("assertr"), "has assertion");
    cx.label_if(prog_ir.has("witness"), "has witness");
    cx.label_if(prog_ir.has("jet"), "has jet");
    if mode == 0 {
        cx.label("mode: valid encoding");
        cx.fp.write(&prog);
        cx.fp.write_u64(0xfffe);
        cx.fp.write(&witb);
        cx.set_sample(|| json!({"mode": "valid", "program": prog_ir.render(), "bytes": hex(&prog), "witness": hex(&witb)}));
        compare(cx, &prog, &witb, "valid")?;
        // pruned form, when the program runs in the minimal environment
        if !prog_ir.has("fail") {
            if let Ok(p) = redeem.prune(&dummy_env()) {
                let (pp, pw) = p.to_vec_with_witness();
                // (programs hit by the known pruning finding F15 do not decode on either side:
                //  both reject, which this property accepts)
                cx.label("pruned form compared");
                compare(cx, &pp, &pw, "pruned")?;
            }
        }
        return Ok(());
    }
    cx.label("mode: mutated encoding");
    let k = 1 + cx.src.below(4);
    let mut what = vec![];
    for _ in 0..k {
        let on_wit = cx.src.chance(70) && !witb.is_empty();
        let target = if on_wit { &mut witb } else { &mut prog };
        let m = match cx.src.below(6) {
            0 => {
                if !target.is_empty() {
                    let i = cx.src.below(target.len());
                    target[i] ^= 1 << cx.src.below(8);
                }
                "bit flip"
            }
            1 => {
                if !target.is_empty() {
                    let i = cx.src.below(target.len());
                    target[i] = cx.src.u8();
                }
                "overwrite"
            }
            2 => {
                let n = cx.src.below(target.len() + 1);
                target.truncate(n);
                "truncate"
            }
            3 => {
                target.push(cx.src.u8());
                "extend"
            }
            4 => {
                if !target.is_empty() {
                    let i = cx.src.below(target.len());
                    target.remove(i);
                }
                "delete"
            }
            _ => {
                let i = cx.src.below(target.len() + 1);
                let b = cx.src.u8();
                target.insert(i, b);
                "insert"
            }
        };
        what.push(format!("{} {}", if on_wit { "witness" } else { "program" }, m));
    }
    cx.fp.write(&prog);
    cx.fp.write_u64(0xfffe);
    cx.fp.write(&witb);
    cx.set_sample(|| json!({"mode": "mutate", "mutations": what, "bytes": hex(&prog), "witness": hex(&witb)}));
    compare(cx, &prog, &witb, "mutated")
}
