//! C16 (stub; being written)
use crate::engine::*;

pub const SPEC: Spec = Spec { rule: "stub", ..Spec::base("C16", "stub", case) };

pub fn case(_cx: &mut Case) -> CaseResult {
    Ok(())
}
