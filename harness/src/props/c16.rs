//! C16 Policies compile, satisfy and canonicalise consistently.

use crate::engine::*;
use crate::gen::policy::*;
use serde_json::json;
use simplicity::elements::bitcoin::hashes::{sha256, Hash as _};
use simplicity::elements::bitcoin::key::XOnlyPublicKey;
use simplicity::elements::locktime::Height;
use simplicity::elements::secp256k1_zkp as secp;
use simplicity::elements::{self, SchnorrSig, SchnorrSighashType};
use simplicity::jet::ElementsTxEnv;
use simplicity::node::SimpleFinalizer;
use simplicity::policy::SatisfierError;
use simplicity::{types, BitMachine, Policy, RedeemNode, Satisfier, Value};
use std::collections::BTreeMap;
use std::sync::Arc;

pub const SPEC: Spec = Spec {
    rule: "a policy tree of depth <= 5 (leaves: pk over a pool of <= 4 keys derived from generated secrets, sha256 over a pool of <= 3 generated preimages, after(n) 1 <= n <= 499999999, older(n: u16), trivial, unsatisfiable(entropy); inner nodes and, or, thresh(k, 1..5 children) with 1 <= k <= n; node budget 4..40; in 3 of 8 cases and/or nodes only get leaves as children, so that compound nodes sit below thresholds only), an Elements environment whose version (2, 1, 3), lock_time (0, a policy value -1/0/+1, random height, 499999999, time-based) and input sequences (one or two inputs; a policy value -1/0/+1, final, 0xfffffffe, 0, disable flag, time flag, junk in unused bits, random) are drawn from the stream (the last third of the stream, at most 64 bytes, drives availability, reordering and environment), one availability bit per distinct key (valid BIP-340 signature of the environment's sighash_all, checked with libsecp256k1) and per distinct hash (its preimage), and a reordering of the children of every and/or/thresh node. Leaf truth = the one-leaf compiled program, finalised with the available witness, runs in the environment (the satisfier's check_after / check_older answers are these observations by construction; the one-leaf policy's satisfy() must agree). Oracle: cmr() = commit().cmr(); satisfy() is Ok exactly when the boolean model (and = both, or = either, thresh = at least k) is true; when Ok the program has the policy's cmr, runs in the environment, prunes to a program with the same cmr that runs; sorted() is idempotent, only reorders children, and is equal for the policy and its reordering; normalized() and sorted() keep the model truth value. Non-trivial: >= 3 leaves, >= 1 or/thresh node, and both a true and a false leaf. Distinct by (policy incl. entropy, availability bits, environment settings, reordering).",
    design_ref: "§6 C16",
    max_len: 400,
    quick_cases: 40_000,
    thorough_cases: 300_000,
    ..Spec::base("C16", "Policies compile, satisfy and canonicalise consistently", case)
};

const SORT_SIG: &str = "policy-sort-does-not-sort-nested-and-or-children";

/// What the satisfier knows: only facts that are true of the environment.
struct Tables {
    sigs: BTreeMap<XOnlyPublicKey, SchnorrSig>,
    preimages: BTreeMap<sha256::Hash, [u8; 32]>,
    after: BTreeMap<u32, bool>,
    older: BTreeMap<u16, bool>,
}

struct Sat<'a, 'brand> {
    ctx: types::Context<'brand>,
    t: &'a Tables,
}

impl<'brand> Satisfier<'brand, XOnlyPublicKey> for Sat<'_, 'brand> {
    fn lookup_signature(&self, pk: &XOnlyPublicKey) -> Option<SchnorrSig> {
        self.t.sigs.get(pk).copied()
    }
    fn lookup_sha256(&self, h: &sha256::Hash) -> Option<[u8; 32]> {
        self.t.preimages.get(h).copied()
    }
    fn check_older(&self, s: elements::Sequence) -> bool {
        let n = u16::try_from(s.0).expect("older() queries are 16-bit");
        *self.t.older.get(&n).expect("older value of the policy was observed")
    }
    fn check_after(&self, l: elements::LockTime) -> bool {
        *self.t.after.get(&l.to_consensus_u32()).expect("after value of the policy was observed")
    }
    fn inference_context(&self) -> &types::Context<'brand> {
        &self.ctx
    }
}

fn satisfy(p: &Pol, t: &Tables, env: &ElementsTxEnv) -> Result<Arc<RedeemNode>, SatisfierError> {
    types::Context::with_context(|ctx| {
        let s = Sat { ctx, t };
        p.satisfy(&s, env)
    })
}

fn runs(prog: &Arc<RedeemNode>, env: &ElementsTxEnv) -> Result<(), String> {
    let mut mac = BitMachine::for_program(prog).map_err(|e| format!("refused: {}", e))?;
    match mac.exec(prog, env) {
        Ok(v) if v == Value::unit() => Ok(()),
        Ok(v) => Err(format!("output {} is not unit", v)),
        Err(e) => Err(e.to_string()),
    }
}

/// Compile a one-leaf policy without witness, finalise with the given witness values, run.
fn one_leaf_runs(leaf: &Pol, wit: Vec<Value>, env: &ElementsTxEnv) -> Result<bool, String> {
    let commit = leaf.commit();
    let prog = commit.finalize(&mut SimpleFinalizer::new(wit.into_iter())).map_err(|e| harness_error(format!("one-leaf program {} does not finalise: {}", leaf, e)))?;
    Ok(runs(&prog, env).is_ok())
}

fn leaves<'a>(p: &'a Pol, out: &mut Vec<&'a Pol>) {
    match p {
        Policy::And { left, right } | Policy::Or { left, right } => {
            leaves(left, out);
            leaves(right, out);
        }
        Policy::Threshold(_, subs) => subs.iter().for_each(|s| leaves(s, out)),
        l => out.push(l),
    }
}

#[derive(Default)]
struct Shape {
    leaves: usize,
    ands: usize,
    ors: usize,
    threshs: usize,
    depth: usize,
    /// thresholds with more true children than k (the satisfier has to choose)
    thresh_choice: usize,
    thresh_exact: usize,
    or_both: usize,
}

/// The boolean model.
fn truth(p: &Pol, leaf: &BTreeMap<Pol, bool>, depth: usize, sh: &mut Shape) -> Result<bool, String> {
    sh.depth = sh.depth.max(depth);
    Ok(match p {
        Policy::And { left, right } => {
            sh.ands += 1;
            let l = truth(left, leaf, depth + 1, sh)?;
            let r = truth(right, leaf, depth + 1, sh)?;
            l && r
        }
        Policy::Or { left, right } => {
            sh.ors += 1;
            let l = truth(left, leaf, depth + 1, sh)?;
            let r = truth(right, leaf, depth + 1, sh)?;
            if l && r {
                sh.or_both += 1;
            }
            l || r
        }
        Policy::Threshold(k, subs) => {
            sh.threshs += 1;
            let mut n = 0;
            for s in subs {
                if truth(s, leaf, depth + 1, sh)? {
                    n += 1;
                }
            }
            if n > *k {
                sh.thresh_choice += 1;
            }
            if n == *k {
                sh.thresh_exact += 1;
            }
            n >= *k
        }
        l => {
            sh.leaves += 1;
            *leaf.get(l).ok_or_else(|| harness_error(format!("leaf {} has no truth value", l)))?
        }
    })
}

/// Does some and/or node have a child that is itself an and/or/thresh node?  `Policy::sort`
/// sorts *clones* of the children of and/or, so everything below an and/or node stays unsorted.
fn and_or_with_compound_child(p: &Pol) -> bool {
    let compound = |c: &Pol| matches!(c, Policy::And { .. } | Policy::Or { .. } | Policy::Threshold(..));
    match p {
        Policy::And { left, right } | Policy::Or { left, right } => compound(left) || compound(right) || and_or_with_compound_child(left) || and_or_with_compound_child(right),
        Policy::Threshold(_, subs) => subs.iter().any(and_or_with_compound_child),
        _ => false,
    }
}

/// The narrower shape: an and/or node directly inside an and/or node.
fn and_or_inside_and_or(p: &Pol) -> bool {
    let ao = |c: &Pol| matches!(c, Policy::And { .. } | Policy::Or { .. });
    match p {
        Policy::And { left, right } | Policy::Or { left, right } => ao(left) || ao(right) || and_or_inside_and_or(left) || and_or_inside_and_or(right),
        Policy::Threshold(_, subs) => subs.iter().any(and_or_inside_and_or),
        _ => false,
    }
}

/// Reference canonical form (children of commutative nodes canonicalised, then ordered).
fn canon(p: &Pol) -> Pol {
    match p {
        Policy::And { left, right } => {
            let (a, b) = (canon(left), canon(right));
            let (a, b) = if a <= b { (a, b) } else { (b, a) };
            Policy::And { left: Arc::new(a), right: Arc::new(b) }
        }
        Policy::Or { left, right } => {
            let (a, b) = (canon(left), canon(right));
            let (a, b) = if a <= b { (a, b) } else { (b, a) };
            Policy::Or { left: Arc::new(a), right: Arc::new(b) }
        }
        Policy::Threshold(k, subs) => {
            let mut s: Vec<Pol> = subs.iter().map(canon).collect();
            s.sort();
            Policy::Threshold(*k, s)
        }
        l => l.clone(),
    }
}

fn entropy_bytes(p: &Pol, out: &mut Vec<u8>) {
    let mut ls = vec![];
    leaves(p, &mut ls);
    for l in ls {
        if let Policy::Unsatisfiable(e) = l {
            out.extend_from_slice(&e.to_byte_array()[..2]);
        }
    }
}

pub fn case(cx: &mut Case) -> CaseResult {
    // ---- generate ----
    // The last third of the stream (at most 64 bytes) drives availability, environment and
    // reordering, the rest drives the policy tree; so short streams still vary all of them.
    let all = cx.src.rest();
    let tail_len = (all.len() / 3).min(64);
    let (head, tail) = all.split_at(all.len() - tail_len);
    cx.src = Src::new(head);
    let mut tsrc = Src::new(tail);
    let max_nodes = [4usize, 8, 14, 24, 40][cx.src.weighted(&[1, 3, 5, 4, 2])];
    let mut g = PolicyGen::new(max_nodes);
    g.leaves_under_and_or = cx.src.chance(96);
    let policy = {
        let mut s = cx.src.clone();
        let p = g.tree(&mut s, 0);
        cx.src = s;
        p
    };
    // one byte: bit i = signature of key i available, bit 4 + j = preimage of hash j available
    let avail = tsrc.u8();
    let key_avail: Vec<bool> = (0..g.keys.len()).map(|i| avail >> i & 1 == 1).collect();
    let hash_avail: Vec<bool> = (0..g.hashes.len()).map(|j| avail >> (MAX_KEYS + j) & 1 == 1).collect();
    // three bytes, expanded (xorshift; zero stays zero = identity) into the choices of the reordering
    let perm_bytes = {
        let mut x = ((tsrc.u8() as u32) << 16) | tsrc.u16() as u32;
        let mut v = Vec::with_capacity(64);
        for _ in 0..64 {
            x ^= x << 13;
            x ^= x >> 17;
            x ^= x << 5;
            v.push((x >> 11) as u8);
        }
        v
    };
    let permuted = permute(&policy, &mut Src::new(&perm_bytes));
    let cfg = gen_env_cfg(&mut tsrc, &g.afters, &g.olders);

    let env = build_env(&cfg);
    let pol_text = policy.to_string();
    cx.fp.write(pol_text.as_bytes());
    let mut eb = vec![];
    entropy_bytes(&policy, &mut eb);
    cx.fp.write(&eb);
    for b in key_avail.iter().chain(hash_avail.iter()) {
        cx.fp.write(&[*b as u8]);
    }
    cx.fp.write_u64(cfg.version as u64);
    cx.fp.write_u64(cfg.lock_time as u64);
    for s in &cfg.sequences {
        cx.fp.write_u64(*s as u64);
    }
    cx.fp.write_u64(cfg.ix as u64);
    cx.fp.write(permuted.to_string().as_bytes());

    // ---- what is available: signatures of the environment's sighash, preimages ----
    let sighash = env.c_tx_env().sighash_all();
    let msg = secp::Message::from_digest(sighash.to_byte_array());
    let mut t = Tables { sigs: BTreeMap::new(), preimages: BTreeMap::new(), after: BTreeMap::new(), older: BTreeMap::new() };
    for (k, avail) in g.keys.iter().zip(&key_avail) {
        if *avail {
            let sig = with_secp(|s| s.sign_schnorr_no_aux_rand(&msg, &k.keypair));
            if with_secp(|s| s.verify_schnorr(&sig, &msg, &k.xonly)).is_err() {
                return Err(harness_error("a freshly made signature does not verify"));
            }
            t.sigs.insert(k.xonly, SchnorrSig { sig, hash_ty: SchnorrSighashType::All });
        }
    }
    for (h, avail) in g.hashes.iter().zip(&hash_avail) {
        if *avail {
            if sha256::Hash::hash(&h.preimage) != h.image {
                return Err(harness_error("preimage does not hash to the image"));
            }
            t.preimages.insert(h.image, h.preimage);
        }
    }

    // ---- truth of every distinct leaf, observed on the one-leaf program ----
    let mut all_leaves = vec![];
    leaves(&policy, &mut all_leaves);
    let mut leaf_truth: BTreeMap<Pol, bool> = BTreeMap::new();
    let mut stock_disagrees = false;
    for l in &all_leaves {
        if leaf_truth.contains_key(*l) {
            continue;
        }
        let v = match l {
            Policy::Trivial => {
                if !one_leaf_runs(l, vec![], &env)? {
                    return Err("the compiled trivial policy does not run".into());
                }
                true
            }
            Policy::Unsatisfiable(_) => {
                if one_leaf_runs(l, vec![], &env)? {
                    return Err("the compiled unsatisfiable policy runs successfully".into());
                }
                false
            }
            Policy::Key(pk) => match t.sigs.get(pk) {
                Some(sig) => {
                    if !one_leaf_runs(l, vec![Value::u512(sig.sig.serialize())], &env)? {
                        return Err(format!("the compiled {} does not run with a signature of sighash_all {} that libsecp256k1 accepts", l, sighash));
                    }
                    true
                }
                None => false,
            },
            Policy::Sha256(h) => match t.preimages.get(h) {
                Some(pre) => {
                    if !one_leaf_runs(l, vec![Value::u256(*pre)], &env)? {
                        return Err(format!("the compiled {} does not run with its preimage {}", l, hex(pre)));
                    }
                    true
                }
                None => false,
            },
            Policy::After(n) => {
                let v = one_leaf_runs(l, vec![], &env)?;
                t.after.insert(*n, v);
                // the crate's stock answer, for the class counters only
                let h = Height::from_consensus(*n).map_err(|e| harness_error(format!("after({}) out of range: {}", n, e)))?;
                let stock = types::Context::with_context(|ctx| Satisfier::<XOnlyPublicKey>::check_after(&(&ctx, env.tx().lock_time), elements::LockTime::Blocks(h)));
                cx.label_if(stock && !v, "stock (ctx, LockTime) satisfier says true, check_lock_height fails");
                cx.label_if(!stock && v, "stock (ctx, LockTime) satisfier says false, check_lock_height passes");
                if stock != v {
                    stock_disagrees = true;
                    cx.note(|| format!("stock (ctx, LockTime) satisfier answers {} for {} but the program's verdict is {}", stock, l, v));
                }
                v
            }
            Policy::Older(n) => {
                let v = one_leaf_runs(l, vec![], &env)?;
                t.older.insert(*n, v);
                let seq = env.tx().input[cfg.ix].sequence;
                let stock = types::Context::with_context(|ctx| Satisfier::<XOnlyPublicKey>::check_older(&(&ctx, seq), elements::Sequence((*n).into())));
                cx.label_if(stock && !v, "stock (ctx, Sequence) satisfier says true, check_lock_distance fails");
                cx.label_if(!stock && v, "stock (ctx, Sequence) satisfier says false, check_lock_distance passes");
                if stock != v {
                    stock_disagrees = true;
                    cx.note(|| format!("stock (ctx, Sequence) satisfier answers {} for {} but the program's verdict is {}", stock, l, v));
                }
                v
            }
            _ => return Err(harness_error("inner node among the leaves")),
        };
        leaf_truth.insert((*l).clone(), v);
    }

    // ---- model ----
    let mut sh = Shape::default();
    let expected = truth(&policy, &leaf_truth, 0, &mut sh)?;
    let n_true = all_leaves.iter().filter(|l| leaf_truth[**l]).count();
    let mixed = n_true > 0 && n_true < all_leaves.len();
    let has_timelock = all_leaves.iter().any(|l| matches!(l, Policy::After(_) | Policy::Older(_)));
    let repeated_leaf = leaf_truth.len() < all_leaves.len();
    let compound_under_and_or = and_or_with_compound_child(&policy);
    let nested_and_or = and_or_inside_and_or(&policy);
    cx.nontrivial = sh.leaves >= 3 && (sh.ors + sh.threshs) >= 1 && mixed;
    cx.label_if(expected, "model: satisfiable");
    cx.label_if(!expected, "model: unsatisfiable");
    cx.label_if(sh.threshs > 0, "has threshold");
    cx.label_if(sh.ors > 0, "has or");
    cx.label_if(sh.ands > 0, "has and");
    cx.label_if(has_timelock, "has timelock leaf");
    cx.label_if(all_leaves.iter().any(|l| matches!(l, Policy::After(_)) && leaf_truth[*l]), "after leaf true");
    cx.label_if(all_leaves.iter().any(|l| matches!(l, Policy::After(_)) && !leaf_truth[*l]), "after leaf false");
    cx.label_if(all_leaves.iter().any(|l| matches!(l, Policy::Older(_)) && leaf_truth[*l]), "older leaf true");
    cx.label_if(all_leaves.iter().any(|l| matches!(l, Policy::Older(_)) && !leaf_truth[*l]), "older leaf false");
    cx.label_if(all_leaves.iter().any(|l| matches!(l, Policy::Key(_)) && leaf_truth[*l]), "key leaf with signature");
    cx.label_if(all_leaves.iter().any(|l| matches!(l, Policy::Key(_)) && !leaf_truth[*l]), "key leaf without signature");
    cx.label_if(all_leaves.iter().any(|l| matches!(l, Policy::Sha256(_)) && leaf_truth[*l]), "hash leaf with preimage");
    cx.label_if(all_leaves.iter().any(|l| matches!(l, Policy::Sha256(_)) && !leaf_truth[*l]), "hash leaf without preimage");
    cx.label_if(all_leaves.iter().any(|l| matches!(l, Policy::Trivial)), "has trivial leaf");
    cx.label_if(all_leaves.iter().any(|l| matches!(l, Policy::Unsatisfiable(_))), "has unsatisfiable leaf");
    cx.label_if(repeated_leaf, "a leaf occurs more than once");
    cx.label_if(mixed, "mixed leaf truths");
    cx.label_if(sh.thresh_choice > 0, "threshold with more than k true children");
    cx.label_if(sh.thresh_exact > 0, "threshold with exactly k true children");
    cx.label_if(sh.or_both > 0, "or with both children true");
    cx.label_if(sh.depth >= 3, "depth >= 3");
    cx.label_if(sh.depth == MAX_DEPTH, "depth = 5");
    cx.label_if(sh.leaves >= 10, ">= 10 leaves");
    cx.label_if(permuted != policy, "reordering differs from the policy");
    cx.label_if(compound_under_and_or, "and/or node with a compound child");
    cx.label_if(!compound_under_and_or && (sh.ands + sh.ors + sh.threshs) >= 2, "no compound child under and/or, >= 2 inner nodes");
    cx.label_if(nested_and_or, "and/or nested directly in and/or");
    cx.label_if(stock_disagrees, "stock lock-time satisfier disagrees with the jet");
    cx.label_if(cfg.sequences.len() == 2, "env: two inputs");
    cx.label_if(cfg.version != 2, "env: version != 2");
    cx.label_if(cfg.lock_time >= 500_000_000, "env: time-based lock_time");
    cx.label_if(cfg.sequences.iter().all(|s| *s == u32::MAX), "env: transaction final");
    {
        let avail_keys: Vec<String> = g.keys.iter().zip(&key_avail).map(|(k, a)| format!("{}:{}", k.xonly, a)).collect();
        let avail_hashes: Vec<String> = g.hashes.iter().zip(&hash_avail).map(|(h, a)| format!("{}:{}", h.image, a)).collect();
        let lt: Vec<String> = leaf_truth.iter().map(|(l, v)| format!("{}={}", l, v)).collect();
        let cfg2 = cfg.clone();
        let perm_text = permuted.to_string();
        let pt = pol_text.clone();
        cx.set_sample(move || json!({"policy": pt, "reordered": perm_text, "signature_available": avail_keys, "preimage_available": avail_hashes, "env": {"version": cfg2.version, "lock_time": cfg2.lock_time, "sequences": cfg2.sequences, "input_index": cfg2.ix}, "leaf_truth": lt, "model_verdict": expected}));
    }
    if cx.verbose {
        eprintln!("  policy    {}", pol_text);
        eprintln!("  reordered {}", permuted);
        eprintln!("  env       {:?}", cfg);
        for (k, a) in g.keys.iter().zip(&key_avail) {
            eprintln!("  key {} (secret {}) signature available: {}", k.xonly, hex(&k.secret), a);
        }
        for (h, a) in g.hashes.iter().zip(&hash_avail) {
            eprintln!("  hash {} (preimage {}) preimage available: {}", h.image, hex(&h.preimage), a);
        }
        for (l, v) in &leaf_truth {
            eprintln!("  leaf {} is {}", l, v);
        }
        eprintln!("  model verdict: {}", expected);
    }

    // ---- (1) commitment root ----
    let cmr = policy.cmr();
    let commit = policy.commit();
    if commit.cmr() != cmr {
        return Err(format!("cmr() = {} but commit().cmr() = {}; policy {}", cmr, commit.cmr(), pol_text));
    }

    // ---- one-leaf policies: satisfy agrees with the observed leaf truth ----
    for (l, v) in &leaf_truth {
        match (satisfy(l, &t, &env), *v) {
            (Ok(p), true) => {
                if p.cmr() != l.cmr() {
                    return Err(format!("satisfied one-leaf policy {} has cmr {} instead of {}", l, p.cmr(), l.cmr()));
                }
                runs(&p, &env).map_err(|e| format!("satisfied one-leaf policy {} does not run: {}", l, e))?;
            }
            (Err(_), false) => {}
            (Ok(_), false) => return Err(format!("one-leaf policy {} is false in the environment {:?} but satisfy() succeeds", l, cfg)),
            (Err(e), true) => return Err(format!("one-leaf policy {} is true in the environment {:?} but satisfy() fails: {:?}", l, cfg, e)),
        }
    }

    // ---- (2) satisfy succeeds exactly when the model says true ----
    let describe = || format!("policy {}; env {:?}; leaf truths {:?}", pol_text, cfg, leaf_truth.iter().map(|(l, v)| format!("{}={}", l, v)).collect::<Vec<_>>());
    match satisfy(&policy, &t, &env) {
        Err(e) => {
            if expected {
                return Err(format!("the model says satisfiable but satisfy() fails with {:?}; {}", e, describe()));
            }
            cx.label_if(matches!(e, SatisfierError::Unsatisfiable), "satisfy: Unsatisfiable");
            cx.label_if(matches!(e, SatisfierError::AssemblyFailed(_)), "satisfy: AssemblyFailed on a false policy");
        }
        Ok(redeem) => {
            if !expected {
                return Err(format!("the model says unsatisfiable but satisfy() succeeds; {}", describe()));
            }
            cx.label("satisfy: Ok");
            // ---- (3) same root, runs, prunes to the same root, still runs ----
            if redeem.cmr() != cmr {
                return Err(format!("satisfied program has cmr {} but the policy has {}; {}", redeem.cmr(), cmr, describe()));
            }
            runs(&redeem, &env).map_err(|e| format!("the program returned by satisfy() does not run: {}; {}", e, describe()))?;
            let pruned = redeem.prune(&env).map_err(|e| format!("pruning the program returned by satisfy() fails: {}; {}", e, describe()))?;
            if pruned.cmr() != cmr {
                return Err(format!("pruned program has cmr {} but the policy has {}; {}", pruned.cmr(), cmr, describe()));
            }
            runs(&pruned, &env).map_err(|e| format!("the pruned satisfied program does not run: {}; {}", e, describe()))?;
        }
    }

    // ---- (4) canonical sorting ----
    let sorted = policy.clone().sorted();
    if sorted.clone().sorted() != sorted {
        return Err(format!("sorted() is not idempotent: {} -> {} -> {}", pol_text, sorted, sorted.clone().sorted()));
    }
    if canon(&sorted) != canon(&policy) {
        return Err(format!("sorted() did more than reorder children: {} -> {}", pol_text, sorted));
    }
    if truth(&sorted, &leaf_truth, 0, &mut Shape::default())? != expected {
        return Err(format!("sorted() changed the truth value: {} -> {}", pol_text, sorted));
    }
    let sorted_perm = permuted.clone().sorted();
    if sorted_perm != sorted {
        let what = || format!("sorted() differs between a policy and a reordering of it: {} -> {}, but {} -> {}", pol_text, sorted, permuted, sorted_perm);
        if compound_under_and_or {
            cx.known_or_fail(SORT_SIG, what)?;
        } else {
            return Err(what());
        }
    } else if permuted != policy {
        cx.label("reordering differs and sorts to the same policy");
        cx.label_if(sorted != policy && sorted_perm != permuted, "reordering differs, both change under sorted(), same result");
    }

    // ---- normalized() keeps the truth value ----
    let normalized = policy.clone().normalized();
    cx.label_if(normalized != policy, "normalized() changes the policy");
    if truth(&normalized, &leaf_truth, 0, &mut Shape::default())? != expected {
        return Err(format!("normalized() changed the truth value from {}: {} -> {}; leaf truths {:?}", expected, pol_text, normalized, leaf_truth.iter().map(|(l, v)| format!("{}={}", l, v)).collect::<Vec<_>>()));
    }
    Ok(())
}
