//! C09 The commitment root depends only on committed structure.

use super::c01::gen_unit_program;
use crate::engine::*;
use crate::gen::build::*;
use crate::gen::prog::*;
use crate::gen::values::*;
use serde_json::json;
use simplicity::dag::{DagLike, InternalSharing};
use simplicity::human_encoding::Forest;
use simplicity::node::{CoreConstructible, DisconnectConstructible, Hiding, WitnessConstructible};
use simplicity::{types, Cmr, ConstructNode, FailEntropy, HasCmr};
use std::collections::{HashMap, HashSet};
use std::sync::Arc;

pub const SPEC: Spec = Spec {
    rule: "a program IR from G-prog (Core or Elements jets; witness, disconnect, assertions, fail, words; sharing swept), with: two independent witness assignments, variants of every disconnect node (no branch / other branch), a drawn set of sub-expressions to hide through the Hiding wrapper, every conversion path (construct -> commit -> redeem -> unfinalize -> unfinalize_types, to_construct_node, named nodes), and 1-3 single edits of committed structure (combinator swapped within its arity class, children swapped, other jet, one word bit, one fail-entropy bit, one hidden-root bit, leaf replaced). Oracle: model::cmr (from-scratch tagged hashing of the IR) for every node of every form; invariance under every non-committed change; edited programs get a different root (from the crate's Cmr constructors) whenever the reference roots differ. Non-trivial: >= 6 nodes with >= 1 of witness/disconnect/hidden/word. Distinct by program.",
    design_ref: "§6 C09",
    max_len: 1500,
    quick_cases: 20_000,
    thorough_cases: 250_000,
    ..Spec::base("C09", "The commitment root depends only on committed structure", case)
};

/// Root computed with the crate's public `Cmr` constructors only (no nodes, no types).
fn lib_cmrs(prog: &Prog) -> Vec<Cmr> {
    let mut out: Vec<Cmr> = Vec::with_capacity(prog.nodes.len());
    for n in &prog.nodes {
        let c = match n {
            Ir::Iden => Cmr::iden(),
            Ir::Unit => Cmr::unit(),
            Ir::InjL(c) => Cmr::injl(out[*c]),
            Ir::InjR(c) => Cmr::injr(out[*c]),
            Ir::Take(c) => Cmr::take(out[*c]),
            Ir::Drop(c) => Cmr::drop(out[*c]),
            Ir::Comp(a, b) => Cmr::comp(out[*a], out[*b]),
            Ir::Case(a, b) => Cmr::case(out[*a], out[*b]),
            Ir::Pair(a, b) => Cmr::pair(out[*a], out[*b]),
            Ir::AssertL(a, h) => Cmr::case(out[*a], Cmr::from_byte_array(*h)),
            Ir::AssertR(h, b) => Cmr::case(Cmr::from_byte_array(*h), out[*b]),
            Ir::Disconnect(a, _) => Cmr::disconnect(out[*a]),
            Ir::Witness => Cmr::witness(),
            Ir::Fail(e) => Cmr::fail(FailEntropy::from_byte_array(*e)),
            Ir::Word(n, bits) => Cmr::const_word(&make_word(*n, bits)),
            Ir::Jet(j) => Cmr::jet(j.as_dyn()),
        };
        out.push(c);
    }
    out
}

fn mutate(src: &mut Src, prog: &Prog) -> Option<(Prog, String)> {
    let reach = prog.reachable();
    let i = reach[src.below(reach.len())];
    let mut p = prog.clone();
    let what;
    p.nodes[i] = match &prog.nodes[i] {
        Ir::Iden => {
            what = "iden -> unit";
            Ir::Unit
        }
        Ir::Unit => {
            what = "unit -> witness";
            Ir::Witness
        }
        Ir::Witness => {
            what = "witness -> iden";
            Ir::Iden
        }
        Ir::InjL(c) => {
            what = "injl -> injr/take/drop";
            [Ir::InjR(*c), Ir::Take(*c), Ir::Drop(*c)][src.below(3)].clone()
        }
        Ir::InjR(c) => {
            what = "injr -> injl/take/drop";
            [Ir::InjL(*c), Ir::Take(*c), Ir::Drop(*c)][src.below(3)].clone()
        }
        Ir::Take(c) => {
            what = "take -> drop/injl/disconnect1";
            [Ir::Drop(*c), Ir::InjL(*c), Ir::Disconnect(*c, None)][src.below(3)].clone()
        }
        Ir::Drop(c) => {
            what = "drop -> take/injr";
            [Ir::Take(*c), Ir::InjR(*c)][src.below(2)].clone()
        }
        Ir::Comp(a, b) => {
            what = "comp -> pair/case/swapped";
            [Ir::Pair(*a, *b), Ir::Case(*a, *b), Ir::Comp(*b, *a)][src.below(3)].clone()
        }
        Ir::Pair(a, b) => {
            what = "pair -> comp/case/swapped";
            [Ir::Comp(*a, *b), Ir::Case(*a, *b), Ir::Pair(*b, *a)][src.below(3)].clone()
        }
        Ir::Case(a, b) => {
            what = "case -> pair/comp/swapped";
            [Ir::Pair(*a, *b), Ir::Comp(*a, *b), Ir::Case(*b, *a)][src.below(3)].clone()
        }
        Ir::AssertL(a, h) => {
            what = "assertl: hidden root bit / side";
            if src.bool() {
                let mut h2 = *h;
                h2[src.below(32)] ^= 1 << src.below(8);
                Ir::AssertL(*a, h2)
            } else {
                Ir::AssertR(*h, *a)
            }
        }
        Ir::AssertR(h, a) => {
            what = "assertr: hidden root bit / side";
            if src.bool() {
                let mut h2 = *h;
                h2[src.below(32)] ^= 1 << src.below(8);
                Ir::AssertR(h2, *a)
            } else {
                Ir::AssertL(*a, *h)
            }
        }
        Ir::Disconnect(a, _) => {
            what = "disconnect -> take";
            Ir::Take(*a)
        }
        Ir::Fail(e) => {
            what = "fail: one entropy bit";
            let mut e2 = *e;
            e2[src.below(64)] ^= 1 << src.below(8);
            Ir::Fail(e2)
        }
        Ir::Word(n, bits) => {
            what = "word: one bit";
            let mut b2 = bits.clone();
            let k = src.below(b2.len());
            b2[k] = !b2[k];
            Ir::Word(*n, b2)
        }
        Ir::Jet(j) => {
            what = "jet -> other jet";
            let all = all_jets(prog.family);
            let other = all[src.below(all.len())];
            if other == *j {
                return None;
            }
            Ir::Jet(other)
        }
    };
    Some((p, format!("node {}: {}", i, what)))
}

/// Build the IR through the `Hiding` wrapper with the given nodes hidden; returns the root's cmr.
fn hidden_root(prog: &Prog, hide: &HashSet<Id>) -> Result<Cmr, String> {
    types::Context::with_context(|ctx| hidden_root_in(&ctx, prog, hide))
}

fn hidden_root_in<'b>(ctx: &types::Context<'b>, prog: &Prog, hide: &HashSet<Id>) -> Result<Cmr, String> {
    let mut built: Vec<Option<Hiding<'b, Arc<ConstructNode<'b>>>>> = vec![None; prog.nodes.len()];
    for i in prog.reachable() {
        let te = |e: types::Error| format!("Hiding constructor failed on a well-typed program: {}", e);
        let ch = |c: Id| -> Hiding<'b, Arc<ConstructNode<'b>>> { built[c].clone().expect("child first") };
        let node: Hiding<'b, Arc<ConstructNode<'b>>> = match &prog.nodes[i] {
            Ir::Iden => Hiding::iden(ctx),
            Ir::Unit => Hiding::unit(ctx),
            Ir::InjL(c) => Hiding::injl(&ch(*c)),
            Ir::InjR(c) => Hiding::injr(&ch(*c)),
            Ir::Take(c) => Hiding::take(&ch(*c)),
            Ir::Drop(c) => Hiding::drop_(&ch(*c)),
            Ir::Comp(a, b) => Hiding::comp(&ch(*a), &ch(*b)).map_err(te)?,
            Ir::Case(a, b) => Hiding::case(&ch(*a), &ch(*b)).map_err(te)?,
            Ir::Pair(a, b) => Hiding::pair(&ch(*a), &ch(*b)).map_err(te)?,
            Ir::AssertL(a, h) => Hiding::assertl(&ch(*a), Cmr::from_byte_array(*h)).map_err(te)?,
            Ir::AssertR(h, b) => Hiding::assertr(Cmr::from_byte_array(*h), &ch(*b)).map_err(te)?,
            Ir::Disconnect(a, b) => {
                let right: Option<Arc<ConstructNode<'b>>> = b.and_then(|b| ch(b).get_node());
                Hiding::disconnect(&ch(*a), &right).map_err(te)?
            }
            Ir::Witness => Hiding::witness(ctx, None),
            Ir::Fail(e) => Hiding::fail(ctx, FailEntropy::from_byte_array(*e)),
            Ir::Word(n, bits) => Hiding::const_word(ctx, make_word(*n, bits)),
            Ir::Jet(j) => Hiding::jet(ctx, j.as_dyn()),
        };
        built[i] = Some(if hide.contains(&i) { node.hide() } else { node });
    }
    Ok(built[prog.root].as_ref().unwrap().cmr())
}

pub fn case(cx: &mut Case) -> CaseResult {
    let g = gen_unit_program(cx, false, false);
    let prog = &g.prog;
    let cmrs = prog.model_cmrs();
    let reach = prog.reachable();
    prog.fingerprint(&mut cx.fp);
    cx.nontrivial = reach.len() >= 6 && (prog.has("witness") || prog.has("disconnect") || prog.has("assertl") || prog.has("assertr") || prog.has("word"));
    for k in ["witness", "disconnect", "assertl", "assertr", "word", "jet", "fail", "case"] {
        if prog.has(k) {
            cx.label(match k {
                "witness" => "has witness",
                "disconnect" => "has disconnect",
                "assertl" | "assertr" => "has hidden branch",
                "word" => "has word",
                "jet" => "has jet",
                "fail" => "has fail",
                _ => "has case",
            });
        }
    }
    cx.set_sample(|| json!({"program": prog.render(), "root": hex(&cmrs[prog.root])}));
    let mism = |what: &str, i: usize, got: Cmr| format!("{}: node {} ({}) has cmr {}, hashing the tagged combinator tree from scratch gives {}; program {}", what, i, prog.nodes[i].kind(), got, hex(&cmrs[i]), prog.render());

    // 0. the crate's Cmr constructors agree with the reference on every node
    let lib = lib_cmrs(prog);
    for i in &reach {
        if lib[*i].to_byte_array() != cmrs[*i] {
            return Err(mism("Cmr constructors", *i, lib[*i]));
        }
    }
    // 1. construct nodes, and commit nodes after type inference (program and non-program roots)
    let typed = type_check(prog, true).map_err(|e| harness_error(format!("generated IR rejected: {:?}; {}", e, prog.render())))?;
    types::Context::with_context(|ctx| -> CaseResult {
        let built = materialize(&ctx, prog, &HashMap::new()).map_err(|e| harness_error(e.to_string()))?;
        for i in &reach {
            let c = built[*i].as_ref().unwrap().cmr();
            if c.to_byte_array() != cmrs[*i] {
                return Err(mism("construct node", *i, c));
            }
        }
        let root = built[prog.root].as_ref().unwrap();
        let commit_np = root.finalize_types_non_program().map_err(|e| harness_error(e.to_string()))?;
        if commit_np.cmr().to_byte_array() != cmrs[prog.root] {
            return Err(mism("commit node (non-program finalisation)", prog.root, commit_np.cmr()));
        }
        Ok(())
    })?;
    let commit = typed.commit.clone();
    let model_set: HashSet<[u8; 32]> = reach.iter().map(|i| cmrs[*i]).collect();
    let check_all = |what: &str, roots: Vec<Cmr>, root: Cmr| -> CaseResult {
        if root.to_byte_array() != cmrs[prog.root] {
            return Err(mism(what, prog.root, root));
        }
        for c in roots {
            if !model_set.contains(&c.to_byte_array()) {
                return Err(format!("{}: a node has cmr {} which is not the root of any sub-expression of the program {}", what, c, prog.render()));
            }
        }
        Ok(())
    };
    check_all("commit node", commit.as_ref().post_order_iter::<InternalSharing>().map(|d| d.node.cmr()).collect(), commit.cmr())?;
    // the same DAG rebuilt bottom-up through Node::from_parts (the constructor behind the
    // human-readable encoding's nodes), which computes each root itself from `inner`
    {
        let mut rebuilt: Vec<Arc<simplicity::CommitNode>> = vec![];
        for d in commit.as_ref().post_order_iter::<InternalSharing>() {
            let inner = d
                .node
                .inner()
                .as_ref()
                .map_left_right(|_| rebuilt[d.left_index.unwrap()].clone(), |_| rebuilt[d.right_index.unwrap()].clone())
                .map_disconnect(|x| x.clone())
                .map_witness(|w| w.clone());
            let n = simplicity::node::Node::<simplicity::node::Commit>::from_parts(inner, d.node.cached_data().clone());
            if n.cmr() != d.node.cmr() {
                return Err(format!("Node::from_parts computes cmr {} for a {} node whose root is {}; program {}", n.cmr(), format!("{:?}", d.node.inner()).split(['(', ' ']).next().unwrap_or("?"), d.node.cmr(), prog.render()));
            }
            rebuilt.push(Arc::new(n));
        }
        cx.label("from_parts rebuild checked");
    }
    // named nodes
    {
        let forest = Forest::from_program(commit.clone());
        let main = forest.roots().get("main").ok_or_else(|| harness_error("no main"))?;
        check_all("named commit node", main.as_ref().post_order_iter::<InternalSharing>().map(|d| d.node.cmr()).collect(), main.cmr())?;
        let back = main.to_commit_node();
        check_all("NamedCommitNode::to_commit_node", back.as_ref().post_order_iter::<InternalSharing>().map(|d| d.node.cmr()).collect(), back.cmr())?;
    }
    // commit -> construct again
    types::Context::with_context(|ctx| -> CaseResult {
        let c2 = commit.unfinalize_types(&ctx).map_err(|e| format!("unfinalize_types failed: {}", e))?;
        check_all("CommitNode::unfinalize_types", c2.as_ref().post_order_iter::<InternalSharing>().map(|d| d.node.cmr()).collect(), c2.cmr())
    })?;
    // 2. two witness assignments, redeem form and back
    let mut vb = ValBuilder::new();
    vb.constructors_only = true; // witness values by plain constructors: the value decoders are not this check's subject (C10) and must not make the harness inconsistent
    let mut roots_seen = vec![];
    for round in 0..2 {
        let mut s = cx.src.clone();
        let wit = gen_witnesses(prog, &typed, &mut s, &mut vb);
        cx.src = s;
        let redeem = build_redeem(prog, true, &wit.values).map_err(|e| harness_error(format!("pass 2: {:?}", e)))?;
        check_all("redeem node", redeem.as_ref().post_order_iter::<InternalSharing>().map(|d| d.node.cmr()).collect(), redeem.cmr())?;
        roots_seen.push(redeem.cmr());
        if round == 0 {
            let un = redeem.unfinalize().map_err(|e| format!("unfinalize failed: {}", e))?;
            check_all("RedeemNode::unfinalize", un.as_ref().post_order_iter::<InternalSharing>().map(|d| d.node.cmr()).collect(), un.cmr())?;
            types::Context::with_context(|ctx| -> CaseResult {
                let c3 = redeem.to_construct_node(&ctx);
                check_all("RedeemNode::to_construct_node", c3.as_ref().post_order_iter::<InternalSharing>().map(|d| d.node.cmr()).collect(), c3.cmr())
            })?;
        }
    }
    if roots_seen[0] != roots_seen[1] {
        return Err("two witness assignments give different roots".into());
    }
    // 3. disconnect variants: without branch, with another branch
    if prog.has("disconnect") {
        let mut p2 = prog.clone();
        let mut p3 = prog.clone();
        for i in &reach {
            if let Ir::Disconnect(s, Some(_)) = &prog.nodes[*i] {
                p2.nodes[*i] = Ir::Disconnect(*s, None);
                // another branch: some earlier node of the program (types need not fit: roots only)
                p3.nodes[*i] = Ir::Disconnect(*s, Some(cx.src.below(*i)));
            }
        }
        for (what, p) in [("disconnect without branch", &p2), ("disconnect with another branch", &p3)] {
            let l = lib_cmrs(p);
            if l[p.root].to_byte_array() != cmrs[prog.root] {
                return Err(format!("{} changes the root: {} vs {}", what, l[p.root], hex(&cmrs[prog.root])));
            }
        }
        // the library's own nodes, commit time (no branch)
        if let Ok(t2) = type_check(&p2, true) {
            if t2.commit.cmr().to_byte_array() != cmrs[prog.root] {
                return Err(format!("commit-time program without disconnect branches has root {}, with branches {}", t2.commit.cmr(), hex(&cmrs[prog.root])));
            }
            cx.label("disconnect variants checked");
        }
    }
    // 4. hiding sub-expressions does not change the root
    {
        let n_hide = 1 + cx.src.below(4);
        let mut hide = HashSet::new();
        for _ in 0..n_hide {
            let i = reach[cx.src.below(reach.len())];
            if i != prog.root {
                hide.insert(i);
            }
        }
        if !hide.is_empty() {
            let r = hidden_root(prog, &hide)?;
            if r.to_byte_array() != cmrs[prog.root] {
                return Err(format!("hiding nodes {:?} through the Hiding wrapper changes the root to {} (expected {}); program {}", hide, r, hex(&cmrs[prog.root]), prog.render()));
            }
            cx.label("hiding checked");
        }
        let r = hidden_root(prog, &HashSet::new())?;
        if r.to_byte_array() != cmrs[prog.root] {
            return Err("Hiding wrapper without hidden nodes changes the root".into());
        }
    }
    // 5. edits of committed structure change the root
    let n_mut = 1 + cx.src.below(3);
    for _ in 0..n_mut {
        if let Some((p, what)) = mutate(&mut cx.src, prog) {
            let m = p.model_cmrs();
            let l = lib_cmrs(&p);
            for i in p.reachable() {
                if l[i].to_byte_array() != m[i] {
                    return Err(format!("after edit ({}): Cmr constructors give {} for node {}, reference {}", what, l[i], i, hex(&m[i])));
                }
            }
            if m[p.root] != cmrs[prog.root] {
                if l[p.root] == lib[prog.root] {
                    return Err(format!("edit of committed structure ({}) does not change the root {}; program {}", what, lib[prog.root], prog.render()));
                }
                cx.label("edit changes root");
            } else {
                cx.label("edit without structural change (skipped)");
            }
        }
    }
    Ok(())
}
