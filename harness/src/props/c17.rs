//! C17 Human-readable encoding round-trips.
//!
//! Findings verified by hand on minimal examples (J = Core; "render" = `string_serialize`):
//!
//! F7  render-hole-name-with-space.  Program bytes c1 0b 24 10 = `comp (disconnect iden) unit`
//!     decoded with `CommitNode::decode`, `Forest::from_program(..).string_serialize()` prints
//!     `disc3 := disconnect id1 ?hole 1`; parsing that text: "11:31: could not parse `1`".
//!     (Only `from_program` invents such names; a hole name read from a text is kept, so the
//!     predicate applies to mode 1 only.)
//! F8  render-fail-entropy-without-0x.  `main := fail 0x00112233445566778899aabbccddeeff00112233445566778899aabbccddeeff`
//!     parses; rendered `main := fail 00112233..0000 : 1 -> 1`; reparse: "could not parse:
//!     unexpected character `0`".
//! F9  render-option-type-as-question-mark.  `main := comp (injr (injl unit)) unit` parses;
//!     rendered `jr3 := injr jl2 : 1 -> 2?`; reparse: "could not parse `?`".
//! F10 literal-cmr-assertion-dropped-by-parser.
//!     `main := comp (pair (injl unit) unit) (assertl unit #abcd1234..(64 hex digits))`: `Forest::parse`
//!     returns Ok with an EMPTY root map (the literal's value is not even kept in the AST,
//!     `AstCmr::Literal`; the assertion node and everything above it silently vanish).  The
//!     rendering of any assertion uses the literal form, so no program with an assertion survives.
//! F11 equal-subexpressions-under-two-names.  `main := comp (pair unit unit) unit` parses (the
//!     two `unit : 1 -> 1` are distinct node objects named ut1 and ut2); rendered text contains
//!     `pr3 := pair ut1 ut2` but only a line for ut1; reparse: "name `ut2` is referred to but
//!     does not exist".  NOT reproducible through `Forest::from_program` (it converts with
//!     maximal sharing, so both occurrences get one name): in mode 1 programs with duplicates
//!     must round-trip; the predicate applies to parsed texts only (modes 2 and 3).
//! New, found while writing this check:
//! F-wide render-word-type-wider-than-2^512.  `iv := jet_sha_256_iv  main := comp (pair (pair iv iv) (pair iv iv)) unit`
//!     parses; rendered `pr.. := pair .. : 1 -> 2^1024`; reparse: "types may be 2^n for n a
//!     power of 2, but not 2^1024".
//! F-name auto-name-collides-with-user-name.  `jl1 := unit  main := comp (injl jl1) unit`
//!     parses; the unnamed `injl` node is given the invented name `jl1` as well; rendered text
//!     defines `jl1` twice; reparse: "name `jl1` occured mulitple times".
//! F-ctx  error-display-with-context-panics.  What simpcli does on a parse error
//!     (`errs.add_context(text); println!("{}", errs)`) panics in `ErrorSet::fmt` (error.rs:190,
//!     string slicing) (a) for every error reported at end of input, whose position is 0:0, e.g.
//!     the text `main :=`, and (b) when the first line starts with a multi-byte character and
//!     carries an error, e.g. `é := unit`.  (It also drops the first character of line 1.)

use super::c01::{diff_walks, gen_unit_program, walk_commit, Generated};
use super::c02::bounded_display;
use crate::engine::*;
use crate::gen::build::*;
use crate::gen::prog::*;
use crate::gen::text::{self, TextInfo};
use crate::gen::types::from_final;
use crate::model::layout::{RTy, RTyKind};
use serde_json::json;
use simplicity::dag::{DagLike, InternalSharing};
use simplicity::human_encoding::{ErrorSet, Forest, Position};
use simplicity::jet::{Core, Elements};
use simplicity::node::Inner;
use simplicity::CommitNode;
use std::collections::{HashMap, HashSet};
use std::panic::{catch_unwind, resume_unwind, AssertUnwindSafe};
use std::sync::Arc;

pub const SPEC: Spec = Spec {
    rule: "mode 1 (programs): a committed 1->1 program (Core or Elements jets, 4..150 nodes, witnesses, assertions with hidden CMRs, disconnect without branch, fail, words, jets, shared and duplicated sub-expressions; half of the cases with some of these kinds switched off) -> Forest::from_program -> string_serialize -> Forest::parse; oracle: parse succeeds with the single root main and main.to_commit_node() equals the original in the MaxSharing post-order walk (combinator, payload, child indices, cmr, source/target type, ihr/amr where defined) and in to_vec_without_witness bytes. mode 2 (texts): the same kind of program printed by an independent printer in another style (inline nested sub-expressions with optional parentheses, user-style names, some shared nodes written out twice, aliases, shuffled lines, partial/separate type ascriptions, comments, odd white space, #{expr} and #literal hidden branches, hex/binary literals); if parse accepts with the single root main: string_serialize -> parse must succeed and agree with the first parse in the same sense; a generated text that defines main must not be accepted without a main root. mode 3 (arbitrary strings): lossy-UTF-8 random bytes, token soup from the lexer's vocabulary, nesting shapes up to depth 10000, 1-3 edits of a mode-2 text; oracle: parse returns Ok or Err without panic, hang or stack overflow; the ErrorSet displays in < 8 MiB, also with the source attached as simpcli does; an accepted single-root text is held to the mode-2 round trip. Failures on cases matching a finding's case predicate are routed to that finding (order F7 F8 F10 F9 F11 wide-word auto-name); everything else is a violation. Non-trivial: modes 1/2: >= 6 nodes and a witness, jet, word or shared/duplicated sub-expression; mode 3: >= 5 tokens (white-space pieces + punctuation). Distinct by (mode, family, text).",
    design_ref: "§6 C17",
    max_len: 1500,
    quick_cases: 12_000,
    thorough_cases: 300_000,
    alloc_limit: 512 << 20,
    hang_is_violation: true,
    ..Spec::base("C17", "Human-readable encoding round-trips", case)
};

pub const SIG_HOLE: &str = "render-hole-name-with-space";
pub const SIG_FAIL: &str = "render-fail-entropy-without-0x";
pub const SIG_OPTION: &str = "render-option-type-as-question-mark";
pub const SIG_LITCMR: &str = "literal-cmr-assertion-dropped-by-parser";
pub const SIG_DUP: &str = "equal-subexpressions-under-two-names";
pub const SIG_WIDE: &str = "render-word-type-wider-than-2^512";
pub const SIG_NAME: &str = "auto-name-collides-with-user-name";
pub const SIG_CTX_EOF: &str = "error-display-with-context-panics-at-end-of-input";
pub const SIG_CTX_UTF8: &str = "error-display-with-context-panics-on-multibyte-first-line";

thread_local! {
    static CORE_JETS: Vec<JetRef> = all_jets(Family::Core);
    static ELEMENTS_JETS: Vec<JetRef> = all_jets(Family::Elements);
}

fn jets_of(family: Family) -> Vec<JetRef> {
    match family {
        Family::Core => CORE_JETS.with(|j| j.clone()),
        Family::Elements => ELEMENTS_JETS.with(|j| j.clone()),
    }
}

/// Development aid: with C17_ASSUME_KNOWN=1 in the environment the finding signatures of this
/// module are treated as if they were listed in known_findings.json (hits are labelled
/// "dev-assumed known: .."), so that the class distribution behind them can be measured.
/// Without the variable (the normal way to run) every hit goes through `cx.known_or_fail`.
fn dev_assume_known() -> bool {
    static ON: std::sync::OnceLock<bool> = std::sync::OnceLock::new();
    *ON.get_or_init(|| std::env::var_os("C17_ASSUME_KNOWN").is_some())
}

fn excluded(cx: &mut Case, sig: &'static str, detail: impl FnOnce() -> String) -> CaseResult {
    cx.label(match sig {
        SIG_HOLE => "outcome: excluded by render-hole-name-with-space",
        SIG_FAIL => "outcome: excluded by render-fail-entropy-without-0x",
        SIG_OPTION => "outcome: excluded by render-option-type-as-question-mark",
        SIG_LITCMR => "outcome: excluded by literal-cmr-assertion-dropped-by-parser",
        SIG_DUP => "outcome: excluded by equal-subexpressions-under-two-names",
        SIG_WIDE => "outcome: excluded by render-word-type-wider-than-2^512",
        SIG_NAME => "outcome: excluded by auto-name-collides-with-user-name",
        SIG_CTX_EOF => "outcome: excluded by error-display-with-context-panics-at-end-of-input",
        _ => "outcome: excluded by error-display-with-context-panics-on-multibyte-first-line",
    });
    if dev_assume_known() && !cx.is_known(sig) {
        cx.label("dev-assumed known (C17_ASSUME_KNOWN)");
        if cx.verbose {
            eprintln!("  dev-assumed known [{}]: {}", sig, detail());
        }
        return Ok(());
    }
    cx.known_or_fail(sig, detail)
}

/// Run library code; a panic becomes `Err(message)` (fuel exhaustion is passed on to the engine).
fn guarded<T>(f: impl FnOnce() -> T) -> Result<T, String> {
    match catch_unwind(AssertUnwindSafe(f)) {
        Ok(v) => Ok(v),
        Err(p) => {
            if p.downcast_ref::<simplicity::verif_hooks::FuelExhausted>().is_some() {
                resume_unwind(p);
            }
            let msg = if let Some(s) = p.downcast_ref::<&str>() {
                s.to_string()
            } else if let Some(s) = p.downcast_ref::<String>() {
                s.clone()
            } else {
                "non-string panic payload".to_string()
            };
            Err(msg)
        }
    }
}

fn parse(family: Family, s: &str) -> Result<Forest, ErrorSet> {
    match family {
        Family::Core => Forest::parse::<Core>(s),
        Family::Elements => Forest::parse::<Elements>(s),
    }
}

fn clip(s: &str, n: usize) -> String {
    if s.len() <= n {
        return s.to_string();
    }
    let mut k = n;
    while !s.is_char_boundary(k) {
        k -= 1;
    }
    format!("{}…[{} bytes in all]", &s[..k], s.len())
}

// -------------------------------------------------------------------------------------------
// Case features (the predicates of the findings are decided on these)
// -------------------------------------------------------------------------------------------

#[derive(Default, Debug, Clone)]
pub struct Feat {
    pub nodes: usize,
    pub disconnect: bool,
    pub fail: bool,
    pub assertion: bool,
    pub witness: bool,
    pub jet: bool,
    pub word: bool,
    /// two distinct node objects with the same (defined) IHR
    pub duplicates: bool,
    /// some source/target type contains 1 + A (A != 1) outside a word type: printed `A?`
    pub option_type: bool,
    /// some source/target type contains 2^(2^n), n >= 10: printed `2^1024`, ...
    pub wide_word: bool,
}

fn scan_type(t: &Arc<RTy>, memo: &mut HashMap<u64, (bool, bool)>) -> (bool, bool) {
    if let Some(r) = memo.get(&t.hash) {
        return *r;
    }
    let r = if let Some(n) = t.as_word() {
        (false, n >= 10)
    } else {
        match &t.kind {
            RTyKind::Unit => (false, false),
            RTyKind::Sum(a, b) | RTyKind::Prod(a, b) => {
                let here = matches!(t.kind, RTyKind::Sum(..)) && a.is_unit();
                let (o1, w1) = scan_type(a, memo);
                let (o2, w2) = scan_type(b, memo);
                (here || o1 || o2, w1 || w2)
            }
        }
    };
    memo.insert(t.hash, r);
    r
}

pub fn features(c: &CommitNode) -> Feat {
    let mut f = Feat::default();
    let mut ihrs: HashSet<[u8; 32]> = HashSet::new();
    let mut seen_ty: HashSet<[u8; 32]> = HashSet::new();
    let mut memo: HashMap<u64, (bool, bool)> = HashMap::new();
    for d in c.post_order_iter::<InternalSharing>() {
        f.nodes += 1;
        match d.node.inner() {
            Inner::Disconnect(..) => f.disconnect = true,
            Inner::Fail(..) => f.fail = true,
            Inner::AssertL(..) | Inner::AssertR(..) => f.assertion = true,
            Inner::Witness(..) => f.witness = true,
            Inner::Jet(..) => f.jet = true,
            Inner::Word(..) => f.word = true,
            _ => {}
        }
        if let Some(ihr) = d.node.ihr() {
            if !ihrs.insert(ihr.to_byte_array()) {
                f.duplicates = true;
            }
        }
        for t in [&d.node.arrow().source, &d.node.arrow().target] {
            if seen_ty.insert(t.tmr().to_byte_array()) {
                let (o, w) = scan_type(&from_final(t), &mut memo);
                f.option_type |= o;
                f.wide_word |= w;
            }
        }
    }
    f
}

fn label_features(cx: &mut Case, f: &Feat) {
    cx.label_if(f.disconnect, "has disconnect");
    cx.label_if(f.fail, "has fail");
    cx.label_if(f.assertion, "has assertion");
    cx.label_if(f.option_type, "has option type (1 + A)");
    cx.label_if(f.wide_word, "has word type wider than 2^512");
    cx.label_if(f.duplicates, "has duplicates (equal IHR, distinct nodes)");
    cx.label_if(f.witness, "has witness");
    cx.label_if(f.jet, "has jet");
    cx.label_if(f.word, "has word");
}

/// Two distinct nodes of a parsed program carrying the same name.
fn same_name_twice(forest: &Forest) -> bool {
    let mut names: HashSet<Arc<str>> = HashSet::new();
    for root in forest.roots().values() {
        for d in root.as_ref().post_order_iter::<InternalSharing>() {
            if !names.insert(d.node.name().clone()) {
                return true;
            }
        }
    }
    false
}

// -------------------------------------------------------------------------------------------
// Oracles
// -------------------------------------------------------------------------------------------

/// `rendered` is what `string_serialize` printed for `orig`.  It must parse to the single root
/// main that equals `orig`.  `preds`: (signature, does the case match its predicate), in order.
fn check_reparse(cx: &mut Case, family: Family, what: &str, orig: &Arc<CommitNode>, rendered: &str, preds: &[(&'static str, bool)]) -> CaseResult {
    let failure: Option<String> = match guarded(|| parse(family, rendered)) {
        Err(p) => Some(format!("Forest::parse panics on the rendered text: {}", p)),
        Ok(Err(es)) => Some(format!("the rendered text does not parse: {}", clip(&es.to_string().replace('\n', " | "), 400))),
        Ok(Ok(forest)) => {
            let roots = forest.roots();
            match roots.get("main") {
                None => Some(format!("the rendered text parses without error but the result has no root `main` ({} roots)", roots.len())),
                Some(_) if roots.len() != 1 => Some(format!("the rendered text parses to {} roots instead of the single root main", roots.len())),
                Some(main) => {
                    let back = main.to_commit_node();
                    if back.cmr() != orig.cmr() {
                        Some(format!("root cmr changed: {} -> {}", orig.cmr(), back.cmr()))
                    } else if main.cmr() != orig.cmr() || main.arrow() != orig.arrow() {
                        Some("NamedCommitNode::cmr()/arrow() of the reparsed main differ from the original".to_string())
                    } else if let Some(d) = diff_walks(&walk_commit(orig), &walk_commit(&back)) {
                        Some(format!("reparsed program differs: {}", d))
                    } else {
                        let (b0, b1) = (orig.to_vec_without_witness(), back.to_vec_without_witness());
                        if b0 != b1 {
                            Some(format!("bit encoding changed: {} -> {}", hex(&b0), hex(&b1)))
                        } else {
                            None
                        }
                    }
                }
            }
        }
    };
    match failure {
        None => {
            cx.label("outcome: round-trip ok");
            Ok(())
        }
        Some(msg) => {
            let detail = || format!("{}: {}\n  rendered text:\n{}", what, msg, clip(rendered, 3000));
            for (sig, applies) in preds {
                if *applies {
                    return excluded(cx, sig, detail);
                }
            }
            Err(detail())
        }
    }
}

/// The error list of a rejected input displays within bounds, bare and with the source attached.
fn check_error_set(cx: &mut Case, input: &str, es: &ErrorSet) -> CaseResult {
    if es.is_empty() {
        return Err(format!("Forest::parse returned Err with an empty error set on {:?}", clip(input, 300)));
    }
    bounded_display(es).map_err(|e| format!("{} (input {:?})", e, clip(input, 300)))?;
    // simpcli: errs.add_context(Arc::from(text)); eprintln!("{}", errs)
    let first_pos = es.first_error().and_then(|(p, _)| p);
    let mut with_ctx = es.clone();
    let r = guarded(move || {
        with_ctx.add_context(Arc::from(input));
        bounded_display(&with_ctx)
    });
    match r {
        Ok(Ok(_)) => Ok(()),
        Ok(Err(e)) => Err(format!("{} (with source attached; input {:?})", e, clip(input, 300))),
        Err(p) => {
            let detail = || format!("displaying the error set with the source attached (as simpcli does) panics: {}\n  input {:?}", p, clip(input, 300));
            let at_eof = first_pos == Some(Position::default());
            let on_line_1 = matches!(first_pos, Some(p) if p >= Position::new(1, 0) && p < Position::new(2, 0));
            let multibyte_start = input.chars().next().map(|c| c.len_utf8() > 1).unwrap_or(false);
            if at_eof {
                excluded(cx, SIG_CTX_EOF, detail)
            } else if on_line_1 && multibyte_start {
                excluded(cx, SIG_CTX_UTF8, detail)
            } else {
                Err(detail())
            }
        }
    }
}

/// An accepted source text with the single root main: render, parse again, compare.
fn check_accepted_text(cx: &mut Case, family: Family, what: &str, forest: &Forest) -> Result<Feat, String> {
    let main = forest.roots().get("main").expect("caller checked");
    let first = main.to_commit_node();
    let feat = features(&first);
    label_features(cx, &feat);
    let collide = same_name_twice(forest);
    cx.label_if(collide, "has two nodes with one name");
    let rendered = guarded(|| forest.string_serialize()).map_err(|p| format!("{}: string_serialize panics: {}", what, p))?;
    let preds = [(SIG_FAIL, feat.fail), (SIG_LITCMR, feat.assertion), (SIG_OPTION, feat.option_type), (SIG_DUP, feat.duplicates), (SIG_WIDE, feat.wide_word), (SIG_NAME, collide)];
    check_reparse(cx, family, what, &first, &rendered, &preds)?;
    Ok(feat)
}

// -------------------------------------------------------------------------------------------
// Generation
// -------------------------------------------------------------------------------------------

/// Like `gen_unit_program(cx, true, false)` but with some node kinds switched off, so that a
/// good share of the programs matches none of the findings' predicates.
fn gen_restricted_program(cx: &mut Case) -> Generated {
    let family = if cx.src.bool() { Family::Core } else { Family::Elements };
    let mut cfg = GenCfg::basic(family);
    cfg.jet_pool = Some(jets_of(family));
    cfg.max_nodes = [6usize, 20, 60, 150][cx.src.below(4)];
    cfg.share_p = [0u32, 20, 60, 110, 154][cx.src.below(5)];
    cfg.max_mid_width = [8usize, 40, 130][cx.src.below(3)];
    cfg.disconnect_has_branch = false;
    cfg.unique_witness_subexprs = true;
    let off = cx.src.u8();
    cfg.fail = off & 1 != 0;
    cfg.assert = off & 2 != 0;
    cfg.disconnect = off & 4 != 0;
    cfg.witness = off & 8 != 0;
    cfg.jets = off & 16 == 0;
    let wmax = [4usize, 30, 120][cx.src.below(3)];
    let (a, b) = gen_arrow(&mut cx.src, wmax);
    let mut src = cx.src.clone();
    let mut g = ProgGen::new(&mut src, cfg);
    let e = g.expr(&a, &b, 0);
    let root = g.wrap_program(e, &a, &b, None);
    let prog = g.finish(root);
    cx.src = src;
    cx.label(if family == Family::Core { "family: Core" } else { "family: Elements" });
    Generated { prog, family }
}

fn gen_program(cx: &mut Case) -> Result<(Generated, Typed), String> {
    let g = if cx.src.bool() {
        cx.label("generator: restricted kinds");
        gen_restricted_program(cx)
    } else {
        cx.label("generator: all kinds");
        gen_unit_program(cx, true, false)
    };
    let typed = type_check(&g.prog, true).map_err(|e| harness_error(format!("generated IR rejected: {:?}; {}", e, g.prog.render())))?;
    Ok((g, typed))
}

fn shared_in_ir(prog: &Prog) -> bool {
    prog.in_degrees().iter().any(|d| *d >= 2)
}

fn label_text_info(cx: &mut Case, i: &TextInfo) {
    cx.label_if(i.inline_nodes > 0, "text: inline sub-expressions");
    cx.label_if(i.lines > 1, "text: several named lines");
    cx.label_if(i.duplicated_inline, "text: shared node written out twice");
    cx.label_if(i.literal_cmr, "text: literal #cmr");
    cx.label_if(i.expr_cmr, "text: #{expr} cmr");
    cx.label_if(i.ascriptions > 0, "text: type ascriptions");
    cx.label_if(i.type_lines > 0, "text: separate type line");
    cx.label_if(i.aliases > 0, "text: alias line");
    cx.label_if(i.comments > 0, "text: comments");
    cx.label_if(i.parens > 0, "text: parentheses");
    cx.label_if(i.auto_shaped_names, "text: names shaped like invented names");
    cx.label_if(i.shuffled, "text: shuffled lines");
}

// -------------------------------------------------------------------------------------------
// The three modes
// -------------------------------------------------------------------------------------------

fn mode_program(cx: &mut Case) -> CaseResult {
    cx.label("mode 1: program -> text -> program");
    let (g, typed) = gen_program(cx)?;
    let commit = typed.commit.clone();
    let feat = features(&commit);
    label_features(cx, &feat);
    cx.label_if(shared_in_ir(&g.prog), "has shared sub-expression (in-degree >= 2)");
    cx.nontrivial = feat.nodes >= 6 && (feat.witness || feat.jet || feat.word || feat.duplicates || shared_in_ir(&g.prog));
    let rendered = guarded(|| Forest::from_program(commit.clone()).string_serialize()).map_err(|p| format!("from_program/string_serialize panics: {}\n  program: {}", p, g.prog.render()))?;
    cx.fp.write(b"m1");
    cx.fp.write_u64(g.family as u64);
    cx.fp.write(rendered.as_bytes());
    cx.set_sample(|| json!({"mode": 1, "family": format!("{:?}", g.family), "program": g.prog.render(), "nodes": feat.nodes, "rendered": clip(&rendered, 1200)}));
    let clean = !(feat.disconnect || feat.fail || feat.assertion || feat.option_type || feat.wide_word);
    cx.label_if(clean, "matches no finding predicate");
    // F11 is not listed: from_program merges equal sub-expressions, duplicates must round-trip
    let preds = [(SIG_HOLE, feat.disconnect), (SIG_FAIL, feat.fail), (SIG_LITCMR, feat.assertion), (SIG_OPTION, feat.option_type), (SIG_WIDE, feat.wide_word)];
    check_reparse(cx, g.family, "mode 1 (from_program -> string_serialize -> parse)", &commit, &rendered, &preds).map_err(|e| format!("{}\n  program: {}", e, g.prog.render()))
}

/// First parse of a generated text.  Ok(Some(forest)) if accepted with the single root main.
fn first_parse(cx: &mut Case, family: Family, text: &str, defines_main: bool, literal_cmr: bool) -> Result<Option<Forest>, String> {
    match guarded(|| parse(family, text)) {
        Err(p) => Err(format!("Forest::parse panics: {}\n  input {:?}", p, clip(text, 2000))),
        Ok(Err(es)) => {
            cx.label("outcome: text rejected");
            if cx.verbose {
                eprintln!("  rejected: {}", clip(&es.to_string(), 1500));
            }
            check_error_set(cx, text, &es)?;
            Ok(None)
        }
        Ok(Ok(forest)) => {
            let roots = forest.roots();
            if roots.len() == 1 && roots.contains_key("main") {
                cx.label("text accepted with the single root main");
                return Ok(Some(forest));
            }
            if defines_main && !roots.contains_key("main") {
                // a well-formed text defining main was accepted, yet main is not in the result
                let detail = || format!("Forest::parse returns Ok for a text that defines `main`, but the result has no root main ({} roots)\n  input:\n{}", roots.len(), clip(text, 3000));
                if literal_cmr {
                    excluded(cx, SIG_LITCMR, detail)?;
                    return Ok(None);
                }
                return Err(detail());
            }
            cx.label("outcome: text accepted, not a single root main");
            Ok(None)
        }
    }
}

fn mode_text(cx: &mut Case) -> CaseResult {
    cx.label("mode 2: text -> program -> text -> program");
    let (g, typed) = gen_program(cx)?;
    let mut s = cx.src.clone();
    let (text, info) = text::gen_text(&mut s, &g.prog, &typed.arrows);
    cx.src = s;
    label_text_info(cx, &info);
    cx.fp.write(b"m2");
    cx.fp.write_u64(g.family as u64);
    cx.fp.write(text.as_bytes());
    let n_ir = g.prog.reachable().len();
    cx.nontrivial = n_ir >= 6 && (g.prog.has("witness") || g.prog.has("jet") || g.prog.has("word") || shared_in_ir(&g.prog));
    cx.set_sample(|| json!({"mode": 2, "family": format!("{:?}", g.family), "text": clip(&text, 1500), "style": format!("{:?}", info)}));
    if cx.verbose {
        eprintln!("  generated text:\n{}", text);
    }
    let forest = match first_parse(cx, g.family, &text, true, info.literal_cmr)? {
        Some(f) => f,
        None => return Ok(()),
    };
    let feat = check_accepted_text(cx, g.family, "mode 2 (parse -> string_serialize -> parse)", &forest).map_err(|e| format!("{}\n  source text:\n{}", e, clip(&text, 3000)))?;
    let clean = !(feat.fail || feat.assertion || feat.option_type || feat.wide_word || feat.duplicates) && !same_name_twice(&forest);
    cx.label_if(clean, "matches no finding predicate");
    Ok(())
}

fn mode_arbitrary(cx: &mut Case) -> CaseResult {
    cx.label("mode 3: arbitrary string");
    let family = if cx.src.bool() { Family::Core } else { Family::Elements };
    let jets = jets_of(family);
    let (text, defines_main, literal_cmr): (String, bool, bool) = match cx.src.weighted(&[4, 8, 3, 8]) {
        0 => {
            cx.label("string: lossy UTF-8 of random bytes");
            (String::from_utf8_lossy(cx.src.rest()).into_owned(), false, false)
        }
        1 => {
            cx.label("string: token soup");
            let seeded = cx.src.chance(100);
            let mut s = cx.src.clone();
            let body = text::soup(&mut s, family, &jets, 60);
            cx.src = s;
            (if seeded { format!("main := {}", body) } else { body }, false, false)
        }
        2 => {
            let mut s = cx.src.clone();
            let d = text::nesting_depth(&mut s);
            let (shape, t) = text::deep_nesting(&mut s, d);
            cx.src = s;
            cx.label(shape);
            cx.label_if(d >= 1000, "nest: depth >= 1000");
            cx.label_if(d >= 8000, "nest: depth >= 8000");
            (t, false, false)
        }
        _ => {
            cx.label("string: edited well-formed text");
            let g = gen_unit_program(cx, true, false);
            let typed = type_check(&g.prog, true).map_err(|e| harness_error(format!("generated IR rejected: {:?}", e)))?;
            let mut s = cx.src.clone();
            let (t, _) = text::gen_text(&mut s, &g.prog, &typed.arrows);
            let m = text::mutate_text(&mut s, &t, g.family, &jets_of(g.family));
            cx.src = s;
            // parse with the family the text was written for
            return arbitrary_with(cx, g.family, m);
        }
    };
    let _ = (defines_main, literal_cmr);
    arbitrary_with(cx, family, text)
}

fn arbitrary_with(cx: &mut Case, family: Family, text: String) -> CaseResult {
    cx.fp.write(b"m3");
    cx.fp.write_u64(family as u64);
    cx.fp.write(text.as_bytes());
    cx.nontrivial = text::approx_tokens(&text) >= 5;
    cx.set_sample(|| json!({"mode": 3, "family": format!("{:?}", family), "text": clip(&text, 600)}));
    if cx.verbose {
        eprintln!("  input ({} bytes): {:?}", text.len(), clip(&text, 3000));
    }
    let forest = match first_parse(cx, family, &text, false, false)? {
        Some(f) => f,
        None => return Ok(()),
    };
    check_accepted_text(cx, family, "mode 3 (accepted string: parse -> string_serialize -> parse)", &forest).map_err(|e| format!("{}\n  input {:?}", e, clip(&text, 3000)))?;
    Ok(())
}

pub fn case(cx: &mut Case) -> CaseResult {
    match cx.src.weighted(&[5, 5, 4]) {
        0 => mode_program(cx),
        1 => mode_text(cx),
        _ => mode_arbitrary(cx),
    }
}
