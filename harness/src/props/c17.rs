//! C17 Human-readable encoding round-trips.
//!
//! Findings verified by hand on minimal examples (J = Core; "render" = `string_serialize`).
//! F7-F11, F-wide and F-name are repaired in /repo ("fix:" commits, known_findings.json: fixed);
//! F-quad and F-ctx are outside C17's statement and are only labelled as observations:
//!
//! F7  render-hole-name-with-space.  Program bytes c1 0b 24 10 = `comp (disconnect iden) unit`
//!     decoded with `CommitNode::decode`, `Forest::from_program(..).string_serialize()` prints
//!     `disc3 := disconnect id1 ?hole 1`; parsing that text: "11:31: could not parse `1`".
//!     (Only `from_program` invents such names; a hole name read from a text is kept, so the
//!     predicate applies to mode 1 only.)
//! F8  render-fail-entropy-without-0x.  `main := fail 0x00112233445566778899aabbccddeeff00112233445566778899aabbccddeeff`
//!     parses; rendered `main := fail 00112233..0000 : 1 -> 1`; reparse: "could not parse:
//!     unexpected character `0`".
//! F9  render-option-type-as-question-mark.  `main := comp (injr (injl unit)) unit` parses;
//!     rendered `jr3 := injr jl2 : 1 -> 2?`; reparse: "could not parse `?`".
//! F10 literal-cmr-assertion-dropped-by-parser.
//!     `main := comp (pair (injl unit) unit) (assertl unit #abcd1234..(64 hex digits))`: `Forest::parse`
//!     returns Ok with an EMPTY root map (the literal's value is not even kept in the AST,
//!     `AstCmr::Literal`; the assertion node and everything above it silently vanish).  The
//!     rendering of any assertion uses the literal form, so no program with an assertion survives.
//! F11 equal-subexpressions-under-two-names.  `main := comp (pair unit unit) unit` parses (the
//!     two `unit : 1 -> 1` are distinct node objects named ut1 and ut2); rendered text contains
//!     `pr3 := pair ut1 ut2` but only a line for ut1; reparse: "name `ut2` is referred to but
//!     does not exist".  NOT reproducible through `Forest::from_program` (it converts with
//!     maximal sharing, so both occurrences get one name): in mode 1 programs with duplicates
//!     must round-trip; the predicate applies to parsed texts only (modes 2 and 3).
//! New, found while writing this check:
//! F-wide render-word-type-wider-than-2^512.  `iv := jet_sha_256_iv  main := comp (pair (pair iv iv) (pair iv iv)) unit`
//!     parses; rendered `pr.. := pair .. : 1 -> 2^1024`; reparse: "types may be 2^n for n a
//!     power of 2, but not 2^1024".
//! F-name auto-name-collides-with-user-name.  `jl1 := unit  main := comp (injl jl1) unit`
//!     parses; the unnamed `injl` node is given the invented name `jl1` as well; rendered text
//!     defines `jl1` twice; reparse: "name `jl1` occured mulitple times".
//!     The same collision can already make the FIRST parse reject a valid text: `wit2 := witness ...`
//!     plus an unnamed `witness` that is also given the name wit2 is reported as "witness/disconnect
//!     node wit2 was accessible by 2 distinct paths from the same root" (counted by name).
//! F-quad parse-memory-quadratic-in-witness-and-disconnect-count.  After type checking the parser
//!     counts "the number of ways each witness can be reached" with one HashMap per node holding
//!     every witness/disconnect name below it: `main := comp (pair witness)^n unit unit` or
//!     `main := comp disconnect^n iden (?h)^n unit` needs Theta(n^2) memory; n = 10_000 (a 140 kB
//!     text): 2.1 GB and 50 s.  (Nesting shapes of these two kinds are therefore capped at 3000.)
//! F-ctx  error-display-with-context-panics.  What simpcli does on a parse error
//!     (`errs.add_context(text); println!("{}", errs)`) panics in `ErrorSet::fmt` (error.rs:190,
//!     string slicing) (a) for every error reported at end of input, whose position is 0:0, e.g.
//!     the text `main :=`, and (b) when the first line starts with a multi-byte character and
//!     carries an error, e.g. `é := unit`.  (It also drops the first character of line 1.)

use super::c01::{diff_walks, gen_unit_program, walk_commit, Generated};
use super::c02::bounded_display;
use crate::engine::*;
use crate::gen::build::*;
use crate::gen::prog::*;
use crate::gen::text::{self, TextInfo};
use serde_json::json;
use simplicity::dag::{DagLike, InternalSharing};
use simplicity::human_encoding::{ErrorSet, Forest, Position};
use simplicity::jet::{Core, Elements};
use simplicity::node::Inner;
use simplicity::types::{CompleteBound, Final};
use simplicity::CommitNode;
use std::collections::{HashMap, HashSet};
use std::panic::{catch_unwind, resume_unwind, AssertUnwindSafe};
use std::sync::Arc;

pub const SPEC: Spec = Spec {
    rule: "mode 1 (programs): a committed 1->1 program (Core or Elements jets, 4..150 nodes, witnesses, assertions with hidden CMRs, disconnect without branch, fail, words, jets, shared and duplicated sub-expressions; half of the cases with some of these kinds switched off) -> Forest::from_program -> string_serialize -> Forest::parse; oracle: parse succeeds with the single root main and main.to_commit_node() equals the original in the MaxSharing post-order walk (combinator, payload, child indices, cmr, source/target type, ihr/amr where defined) and in to_vec_without_witness bytes. mode 2 (texts): the same kind of program printed by an independent printer in another style (inline nested sub-expressions with optional parentheses, user-style names, some shared nodes written out twice, aliases, shuffled lines, partial/separate type ascriptions, comments, odd white space, #{expr} and #literal hidden branches, hex/binary literals); if parse accepts with the single root main: string_serialize -> parse must succeed and agree with the first parse in the same sense; a generated text that defines main must not be accepted without a main root. mode 3 (arbitrary strings): lossy-UTF-8 random bytes, token soup from the lexer's vocabulary, nesting shapes up to depth 10000, 1-3 edits of a mode-2 text; oracle: parse returns Ok or Err without panic, hang or stack overflow; the ErrorSet displays in < 8 MiB; an accepted single-root text is held to the mode-2 round trip. Every round-trip failure is a violation (the seven causes found while building this check, F7-F11, wide word types and invented-name collisions, are repaired in /repo and recorded as fixed). Observations outside the statement are labelled only: allocation peak of parse above 48 MiB + 2048*len(text) (quadratic witness reachability count), panic of the ErrorSet display when the source is attached as simpcli does; texts > 40 kB and renderings estimated > 120 kB are skipped (lexing is O(tokens*length)); everything else is a violation. Non-trivial: modes 1/2: >= 6 nodes and a witness, jet, word or shared/duplicated sub-expression; mode 3: >= 5 tokens (white-space pieces + punctuation). Distinct by (mode, family, text).",
    design_ref: "§6 C17",
    max_len: 1500,
    quick_cases: 12_000,
    thorough_cases: 300_000,
    alloc_limit: 1 << 30,
    hang_is_violation: true,
    fixed: Some(fixed),
    fuzz: Some(FuzzSpec { target: "c17_parse", prefix: &[255, 0, 0], max_len: 2048, quick_runs: 20_000, thorough_runs: 400_000, jobs: 16 }),
    ..Spec::base("C17", "Human-readable encoding round-trips", case)
};

/// Largest (estimated) rendering that is parsed again.
const RENDER_LIMIT: usize = 120_000;
/// Largest generated source text that is parsed (modes 2 and 3/edited).
const TEXT_LIMIT: usize = 40_000;

thread_local! {
    static CORE_JETS: Vec<JetRef> = all_jets(Family::Core);
    static ELEMENTS_JETS: Vec<JetRef> = all_jets(Family::Elements);
}

fn jets_of(family: Family) -> Vec<JetRef> {
    match family {
        Family::Core => CORE_JETS.with(|j| j.clone()),
        Family::Elements => ELEMENTS_JETS.with(|j| j.clone()),
    }
}

/// Run library code; a panic becomes `Err(message)` (fuel exhaustion is passed on to the engine).
fn guarded<T>(f: impl FnOnce() -> T) -> Result<T, String> {
    match catch_unwind(AssertUnwindSafe(f)) {
        Ok(v) => Ok(v),
        Err(p) => {
            if p.downcast_ref::<simplicity::verif_hooks::FuelExhausted>().is_some() {
                resume_unwind(p);
            }
            let msg = if let Some(s) = p.downcast_ref::<&str>() {
                s.to_string()
            } else if let Some(s) = p.downcast_ref::<String>() {
                s.clone()
            } else {
                "non-string panic payload".to_string()
            };
            Err(msg)
        }
    }
}

fn parse(family: Family, s: &str) -> Result<Forest, ErrorSet> {
    match family {
        Family::Core => Forest::parse::<Core>(s),
        Family::Elements => Forest::parse::<Elements>(s),
    }
}

fn clip(s: &str, n: usize) -> String {
    if s.len() <= n {
        return s.to_string();
    }
    let mut k = n;
    while !s.is_char_boundary(k) {
        k -= 1;
    }
    format!("{}…[{} bytes in all]", &s[..k], s.len())
}

// -------------------------------------------------------------------------------------------
// Case features (the predicates of the findings are decided on these)
// -------------------------------------------------------------------------------------------

#[derive(Default, Debug, Clone)]
pub struct Feat {
    pub nodes: usize,
    pub disconnect: bool,
    pub fail: bool,
    pub assertion: bool,
    pub witness: bool,
    pub jet: bool,
    pub word: bool,
    /// two distinct node objects with the same (defined) IHR
    pub duplicates: bool,
    /// some source/target type contains 1 + A (A != 1) outside a word type: printed `A?`
    pub option_type: bool,
    /// some source/target type contains 2^(2^n), n >= 10: printed `2^1024`, ...
    pub wide_word: bool,
    /// estimated length of the `string_serialize` text (every line prints both types in full)
    pub render_estimate: usize,
}

/// What the finding predicates need to know about a type (computed bottom-up, memoised on the
/// TMR, shared over all nodes of a program so that deep chains stay linear).
#[derive(Clone, Copy, Debug)]
struct TyInfo {
    /// Some(n) if the type is 2^(2^n)
    word: Option<usize>,
    unit: bool,
    option: bool,
    wide: bool,
    /// length of the type as `Display` prints it (approximately)
    printed: usize,
}

#[derive(Default)]
struct TyScan {
    memo: HashMap<[u8; 32], TyInfo>,
}

impl TyScan {
    fn info(&mut self, t: &Final) -> TyInfo {
        let key = t.tmr().to_byte_array();
        if let Some(i) = self.memo.get(&key) {
            return *i;
        }
        let i = match t.bound() {
            CompleteBound::Unit => TyInfo { word: None, unit: true, option: false, wide: false, printed: 1 },
            CompleteBound::Sum(a, b) => {
                let (x, y) = (self.info(a), self.info(b));
                if x.unit && y.unit {
                    TyInfo { word: Some(0), unit: false, option: false, wide: false, printed: 1 }
                } else {
                    TyInfo { word: None, unit: false, option: x.unit || x.option || y.option, wide: x.wide || y.wide, printed: x.printed.saturating_add(y.printed).saturating_add(5) }
                }
            }
            CompleteBound::Product(a, b) => {
                let (x, y) = (self.info(a), self.info(b));
                let word = match (x.word, y.word) {
                    (Some(n), Some(m)) if n == m && a.tmr() == b.tmr() => Some(n + 1),
                    _ => None,
                };
                match word {
                    Some(n) => TyInfo { word, unit: false, option: false, wide: n >= 10, printed: 7 },
                    None => TyInfo { word, unit: false, option: x.option || y.option, wide: x.wide || y.wide, printed: x.printed.saturating_add(y.printed).saturating_add(5) },
                }
            }
        };
        self.memo.insert(key, i);
        i
    }
}

pub fn features(c: &CommitNode) -> Feat {
    let mut f = Feat::default();
    let mut ihrs: HashSet<[u8; 32]> = HashSet::new();
    let mut scan = TyScan::default();
    for d in c.post_order_iter::<InternalSharing>() {
        f.nodes += 1;
        let mut payload = 0usize;
        match d.node.inner() {
            Inner::Disconnect(..) => f.disconnect = true,
            Inner::Fail(..) => f.fail = true,
            Inner::AssertL(..) | Inner::AssertR(..) => f.assertion = true,
            Inner::Witness(..) => f.witness = true,
            Inner::Jet(..) => f.jet = true,
            Inner::Word(w) => {
                f.word = true;
                payload = w.len() / 4;
            }
            _ => {}
        }
        if let Some(ihr) = d.node.ihr() {
            if !ihrs.insert(ihr.to_byte_array()) {
                f.duplicates = true;
            }
        }
        let mut line = 230usize.saturating_add(payload);
        for t in [&d.node.arrow().source, &d.node.arrow().target] {
            let i = scan.info(t);
            f.option_type |= i.option;
            f.wide_word |= i.wide;
            line = line.saturating_add(i.printed);
        }
        f.render_estimate = f.render_estimate.saturating_add(line);
    }
    f
}

fn label_features(cx: &mut Case, f: &Feat) {
    cx.label_if(f.disconnect, "has disconnect");
    cx.label_if(f.fail, "has fail");
    cx.label_if(f.assertion, "has assertion");
    cx.label_if(f.option_type, "has option type (1 + A)");
    cx.label_if(f.wide_word, "has word type wider than 2^512");
    cx.label_if(f.duplicates, "has duplicates (equal IHR, distinct nodes)");
    cx.label_if(f.witness, "has witness");
    cx.label_if(f.jet, "has jet");
    cx.label_if(f.word, "has word");
}

/// Two distinct nodes of a parsed program carrying the same name.
fn same_name_twice(forest: &Forest) -> bool {
    let mut names: HashSet<Arc<str>> = HashSet::new();
    for root in forest.roots().values() {
        for d in root.as_ref().post_order_iter::<InternalSharing>() {
            if !names.insert(d.node.name().clone()) {
                return true;
            }
        }
    }
    false
}

// -------------------------------------------------------------------------------------------
// Oracles
// -------------------------------------------------------------------------------------------

/// `rendered` is what `string_serialize` printed for `orig`.  It must parse to the single root
/// main that equals `orig`.
fn check_reparse(cx: &mut Case, family: Family, what: &str, orig: &Arc<CommitNode>, rendered: &str) -> CaseResult {
    let mut full_error = String::new();
    let failure: Option<String> = match guarded(|| parse(family, rendered)) {
        Err(p) => Some(format!("Forest::parse panics on the rendered text: {}", p)),
        Ok(Err(es)) => {
            full_error = es.to_string();
            Some(format!("the rendered text does not parse: {}", clip(&full_error.replace('\n', " | "), 400)))
        }
        Ok(Ok(forest)) => {
            let roots = forest.roots();
            match roots.get("main") {
                None => Some(format!("the rendered text parses without error but the result has no root `main` ({} roots)", roots.len())),
                Some(_) if roots.len() != 1 => Some(format!("the rendered text parses to {} roots instead of the single root main", roots.len())),
                Some(main) => {
                    let back = main.to_commit_node();
                    if back.cmr() != orig.cmr() {
                        Some(format!("root cmr changed: {} -> {}", orig.cmr(), back.cmr()))
                    } else if main.cmr() != orig.cmr() || main.arrow() != orig.arrow() {
                        Some("NamedCommitNode::cmr()/arrow() of the reparsed main differ from the original".to_string())
                    } else if let Some(d) = diff_walks(&walk_commit(orig), &walk_commit(&back)) {
                        Some(format!("reparsed program differs: {}", d))
                    } else {
                        let (b0, b1) = (orig.to_vec_without_witness(), back.to_vec_without_witness());
                        if b0 != b1 {
                            Some(format!("bit encoding changed: {} -> {}", hex(&b0), hex(&b1)))
                        } else {
                            None
                        }
                    }
                }
            }
        }
    };
    match failure {
        None => {
            cx.label("outcome: round-trip ok");
            Ok(())
        }
        Some(msg) => {
            let _ = &full_error;
            Err(format!("{}: {}\n  rendered text:\n{}", what, msg, clip(rendered, 3000)))
        }
    }
}

/// The error list of a rejected input displays within bounds, bare and with the source attached.
fn check_error_set(cx: &mut Case, input: &str, es: &ErrorSet) -> CaseResult {
    if es.is_empty() {
        return Err(format!("Forest::parse returned Err with an empty error set on {:?}", clip(input, 300)));
    }
    bounded_display(es).map_err(|e| format!("{} (input {:?})", e, clip(input, 300)))?;
    // simpcli: errs.add_context(Arc::from(text)); eprintln!("{}", errs)
    let first_pos = es.first_error().and_then(|(p, _)| p);
    let mut with_ctx = es.clone();
    let r = guarded(move || {
        with_ctx.add_context(Arc::from(input));
        bounded_display(&with_ctx)
    });
    match r {
        Ok(Ok(_)) => Ok(()),
        Ok(Err(e)) => Err(format!("{} (with source attached; input {:?})", e, clip(input, 300))),
        Err(_) => {
            // `ErrorSet::fmt` with a source attached slices the source by byte offsets and panics
            // for errors positioned at end of input (position 0:0) and on multi-byte first lines.
            // This is the display of an error list, not parsing: outside C17's statement.
            // Recorded as an observation (DESIGN.md section 7), never a violation.
            let at_eof = first_pos == Some(Position::default());
            cx.label(if at_eof { "observation: error display with source attached panics (error at end of input)" } else { "observation: error display with source attached panics (other position)" });
            Ok(())
        }
    }
}

/// An accepted source text with the single root main: render, parse again, compare.
fn check_accepted_text(cx: &mut Case, family: Family, what: &str, forest: &Forest) -> Result<Feat, String> {
    let main = forest.roots().get("main").expect("caller checked");
    let first = main.to_commit_node();
    let feat = features(&first);
    label_features(cx, &feat);
    let collide = same_name_twice(forest);
    cx.label_if(collide, "has two nodes with one name");
    if feat.render_estimate > RENDER_LIMIT {
        // every line of the rendering prints both types of the node in full: a chain of n pairs
        // renders in O(n^2) characters, and the lexer takes O(tokens * length) on top of that
        cx.label("outcome: accepted, rendering too large (round trip skipped)");
        return Ok(feat);
    }
    let rendered = guarded(|| forest.string_serialize()).map_err(|p| format!("{}: string_serialize panics: {}", what, p))?;
    check_reparse(cx, family, what, &first, &rendered)?;
    Ok(feat)
}

// -------------------------------------------------------------------------------------------
// Generation
// -------------------------------------------------------------------------------------------

/// Like `gen_unit_program(cx, true, false)` but with some node kinds switched off, so that a
/// good share of the programs matches none of the findings' predicates.
fn gen_restricted_program(cx: &mut Case) -> Generated {
    let family = if cx.src.bool() { Family::Core } else { Family::Elements };
    let mut cfg = GenCfg::basic(family);
    cfg.jet_pool = Some(jets_of(family));
    cfg.max_nodes = [6usize, 20, 60, 150][cx.src.below(4)];
    cfg.share_p = [0u32, 20, 60, 110, 154][cx.src.below(5)];
    cfg.max_mid_width = [8usize, 40, 130][cx.src.below(3)];
    cfg.disconnect_has_branch = false;
    cfg.unique_witness_subexprs = true;
    let off = cx.src.u8();
    cfg.fail = off & 1 != 0;
    cfg.assert = off & 2 != 0;
    cfg.disconnect = off & 4 != 0;
    cfg.witness = off & 8 != 0;
    cfg.jets = off & 16 == 0;
    let wmax = [4usize, 30, 120][cx.src.below(3)];
    let (a, b) = gen_arrow(&mut cx.src, wmax);
    let mut src = cx.src.clone();
    let mut g = ProgGen::new(&mut src, cfg);
    let e = g.expr(&a, &b, 0);
    let root = g.wrap_program(e, &a, &b, None);
    let prog = g.finish(root);
    cx.src = src;
    cx.label(if family == Family::Core { "family: Core" } else { "family: Elements" });
    Generated { prog, family }
}

fn gen_program(cx: &mut Case) -> Result<(Generated, Typed), String> {
    let g = if cx.src.bool() {
        cx.label("generator: restricted kinds");
        gen_restricted_program(cx)
    } else {
        cx.label("generator: all kinds");
        gen_unit_program(cx, true, false)
    };
    let typed = type_check(&g.prog, true).map_err(|e| harness_error(format!("generated IR rejected: {:?}; {}", e, g.prog.render())))?;
    Ok((g, typed))
}

fn shared_in_ir(prog: &Prog) -> bool {
    prog.in_degrees().iter().any(|d| *d >= 2)
}

fn label_text_info(cx: &mut Case, i: &TextInfo) {
    cx.label_if(i.inline_nodes > 0, "text: inline sub-expressions");
    cx.label_if(i.lines > 1, "text: several named lines");
    cx.label_if(i.duplicated_inline, "text: shared node written out twice");
    cx.label_if(i.literal_cmr, "text: literal #cmr");
    cx.label_if(i.expr_cmr, "text: #{expr} cmr");
    cx.label_if(i.ascriptions > 0, "text: type ascriptions");
    cx.label_if(i.type_lines > 0, "text: separate type line");
    cx.label_if(i.aliases > 0, "text: alias line");
    cx.label_if(i.comments > 0, "text: comments");
    cx.label_if(i.parens > 0, "text: parentheses");
    cx.label_if(i.auto_shaped_names, "text: names shaped like invented names");
    cx.label_if(i.shuffled, "text: shuffled lines");
    cx.label_if(i.deduped, "text: equal sub-expressions merged under one name");
}

// -------------------------------------------------------------------------------------------
// The three modes
// -------------------------------------------------------------------------------------------

fn mode_program(cx: &mut Case) -> CaseResult {
    cx.label("mode 1: program -> text -> program");
    let (g, typed) = gen_program(cx)?;
    let commit = typed.commit.clone();
    let feat = features(&commit);
    label_features(cx, &feat);
    cx.label_if(shared_in_ir(&g.prog), "has shared sub-expression (in-degree >= 2)");
    cx.nontrivial = feat.nodes >= 6 && (feat.witness || feat.jet || feat.word || feat.duplicates || shared_in_ir(&g.prog));
    if feat.render_estimate > RENDER_LIMIT {
        cx.label("outcome: rendering too large (round trip skipped)");
        return Ok(());
    }
    let rendered = guarded(|| Forest::from_program(commit.clone()).string_serialize()).map_err(|p| format!("from_program/string_serialize panics: {}\n  program: {}", p, g.prog.render()))?;
    cx.fp.write(b"m1");
    cx.fp.write_u64(g.family as u64);
    cx.fp.write(rendered.as_bytes());
    cx.set_sample(|| json!({"mode": 1, "family": format!("{:?}", g.family), "program": g.prog.render(), "nodes": feat.nodes, "rendered": clip(&rendered, 1200)}));
    check_reparse(cx, g.family, "mode 1 (from_program -> string_serialize -> parse)", &commit, &rendered).map_err(|e| format!("{}\n  program: {}", e, g.prog.render()))
}

/// First parse of a generated text.  Ok(Some(forest)) if accepted with the single root main.
fn first_parse(cx: &mut Case, family: Family, text: &str, defines_main: bool, literal_cmr: bool) -> Result<Option<Forest>, String> {
    let peak_before = meter::peak_since(0);
    let parsed = guarded(|| parse(family, text));
    let grown = meter::peak_since(0).saturating_sub(peak_before);
    let bound = (48usize << 20) + 2048 * text.len();
    // (an allocation bound is not part of C17's statement: the witness reachability count of the
    //  parser needs Theta(n^2) memory in the number of witness/disconnect nodes; observation only)
    cx.label_if(meter::installed() && grown > bound, "observation: parse raised the allocation peak above 48 MiB + 2048 * length");
    match parsed {
        Err(p) => Err(format!("Forest::parse panics: {}\n  input {:?}", p, clip(text, 2000))),
        Ok(Err(es)) => {
            cx.label("outcome: text rejected");
            if let Some((_, e)) = es.first_error() {
                use simplicity::human_encoding::Error as E;
                cx.label(match e {
                    E::TypeCheck(..) => "rejected: type check",
                    E::ParseFailed(..) => "rejected: could not parse",
                    E::LexFailed(..) => "rejected: lexer",
                    E::NameMissing(..) => "rejected: name missing",
                    E::NameRepeated(..) => "rejected: name repeated",
                    E::NameIncomplete(..) => "rejected: name without expression",
                    E::NameIllegal(..) => "rejected: illegal name",
                    E::UnknownJet(..) => "rejected: unknown jet",
                    E::WitnessDisconnectRepeated { .. } => "rejected: witness/disconnect reachable twice",
                    E::HoleAtCommitTime { .. } | E::HoleFilledAtCommitTime => "rejected: hole misuse",
                    E::BadWordLength { .. } | E::EntropyInsufficient { .. } | E::EntropyTooMuch { .. } => "rejected: literal length",
                    E::Bad2ExpNumber(..) | E::NumberOutOfRange(..) => "rejected: 2^n number",
                    _ => "rejected: other",
                });
            }
            if cx.verbose {
                eprintln!("  rejected: {}", clip(&es.to_string(), 1500));
            }
            check_error_set(cx, text, &es)?;
            Ok(None)
        }
        Ok(Ok(forest)) => {
            let roots = forest.roots();
            if roots.len() == 1 && roots.contains_key("main") {
                cx.label("text accepted with the single root main");
                return Ok(Some(forest));
            }
            if defines_main && !roots.contains_key("main") {
                // a well-formed text defining main was accepted, yet main is not in the result
                let _ = literal_cmr;
                return Err(format!("Forest::parse returns Ok for a text that defines `main`, but the result has no root main ({} roots)\n  input:\n{}", roots.len(), clip(text, 3000)));
            }
            cx.label("outcome: text accepted, not a single root main");
            Ok(None)
        }
    }
}

/// The printer's style choices are many (several per node) and come after the program in the
/// stream, where random streams are usually exhausted.  They are therefore decoded from a
/// deterministic expansion of 8 stream bytes read *before* the program (seed 0 expands to
/// zeros: the plainest style).
fn style_bytes(seed: u64, n: usize) -> Vec<u8> {
    let mut x = seed;
    let mut out = Vec::with_capacity(n);
    while out.len() < n {
        // xorshift64*; 0 is a fixed point
        x ^= x >> 12;
        x ^= x << 25;
        x ^= x >> 27;
        out.extend_from_slice(&x.wrapping_mul(0x2545_F491_4F6C_DD1D).to_le_bytes());
    }
    out
}

fn mode_text(cx: &mut Case) -> CaseResult {
    cx.label("mode 2: text -> program -> text -> program");
    let style = style_bytes(cx.src.u64(), 1 << 14);
    let (g, typed) = gen_program(cx)?;
    let mut s = Src::new(&style);
    let (text, info) = text::gen_text(&mut s, &g.prog, &typed.arrows);
    label_text_info(cx, &info);
    if text.len() > TEXT_LIMIT {
        // the lexer computes line/column of every token by rescanning the input from the start:
        // O(tokens * length); texts of programs with thousands of nodes take minutes
        cx.label("mode 2: generated text too large (skipped)");
        return Ok(());
    }
    cx.fp.write(b"m2");
    cx.fp.write_u64(g.family as u64);
    cx.fp.write(text.as_bytes());
    let n_ir = g.prog.reachable().len();
    cx.nontrivial = n_ir >= 6 && (g.prog.has("witness") || g.prog.has("jet") || g.prog.has("word") || shared_in_ir(&g.prog));
    cx.set_sample(|| json!({"mode": 2, "family": format!("{:?}", g.family), "text": clip(&text, 1500), "style": format!("{:?}", info)}));
    if cx.verbose {
        eprintln!("  generated text:\n{}", text);
    }
    let forest = match first_parse(cx, g.family, &text, true, info.literal_cmr)? {
        Some(f) => f,
        // (a rejected generated text is not a violation: e.g. an ascription taken from the IR's
        // typing can be wrong for a text in which a shared node was written out twice)
        None => return Ok(()),
    };
    let feat = check_accepted_text(cx, g.family, "mode 2 (parse -> string_serialize -> parse)", &forest).map_err(|e| format!("{}\n  source text:\n{}", e, clip(&text, 3000)))?;
    let _ = feat;
    Ok(())
}

fn mode_arbitrary(cx: &mut Case) -> CaseResult {
    cx.label("mode 3: arbitrary string");
    let family = if cx.src.bool() { Family::Core } else { Family::Elements };
    let jets = jets_of(family);
    let (text, defines_main, literal_cmr): (String, bool, bool) = match cx.src.weighted(&[4, 8, 3, 8]) {
        0 => {
            cx.label("string: lossy UTF-8 of random bytes");
            (String::from_utf8_lossy(cx.src.rest()).into_owned(), false, false)
        }
        1 => {
            cx.label("string: token soup");
            let seeded = cx.src.chance(100);
            let mut s = cx.src.clone();
            let body = text::soup(&mut s, family, &jets, 60);
            cx.src = s;
            (if seeded { format!("main := {}", body) } else { body }, false, false)
        }
        2 => {
            let mut s = cx.src.clone();
            let d = text::nesting_depth(&mut s);
            let (shape, t) = text::deep_nesting(&mut s, d);
            cx.src = s;
            cx.label(shape);
            cx.label_if(d >= 1000, "nest: depth >= 1000");
            cx.label_if(d >= 8000, "nest: depth >= 8000");
            (t, false, false)
        }
        _ => {
            cx.label("string: edited well-formed text");
            let style = style_bytes(cx.src.u64(), 1 << 14);
            let edits = cx.src.bytes(24);
            let g = gen_unit_program(cx, true, false);
            let typed = type_check(&g.prog, true).map_err(|e| harness_error(format!("generated IR rejected: {:?}", e)))?;
            let mut s = Src::new(&style);
            let (t, _) = text::gen_text(&mut s, &g.prog, &typed.arrows);
            let mut s = Src::new(&edits);
            let m = text::mutate_text(&mut s, &t, g.family, &jets_of(g.family));
            if m.len() > TEXT_LIMIT {
                cx.label("mode 3: edited text too large (skipped)");
                return Ok(());
            }
            // parse with the family the text was written for
            return arbitrary_with(cx, g.family, m);
        }
    };
    let _ = (defines_main, literal_cmr);
    arbitrary_with(cx, family, text)
}

fn arbitrary_with(cx: &mut Case, family: Family, text: String) -> CaseResult {
    cx.fp.write(b"m3");
    cx.fp.write_u64(family as u64);
    cx.fp.write(text.as_bytes());
    cx.nontrivial = text::approx_tokens(&text) >= 5;
    cx.set_sample(|| json!({"mode": 3, "family": format!("{:?}", family), "text": clip(&text, 600)}));
    if cx.verbose {
        eprintln!("  input ({} bytes): {:?}", text.len(), clip(&text, 3000));
    }
    let forest = match first_parse(cx, family, &text, false, false)? {
        Some(f) => f,
        None => return Ok(()),
    };
    check_accepted_text(cx, family, "mode 3 (accepted string: parse -> string_serialize -> parse)", &forest).map_err(|e| format!("{}\n  input {:?}", e, clip(&text, 3000)))?;
    Ok(())
}

/// Mode 4: the stream carries a source text (or the bytes of a committed program) literally.
/// Used for the minimal reproducers of the repaired findings (`fixed`) and reachable at a low
/// rate by random streams.
fn mode_given(cx: &mut Case) -> CaseResult {
    let program = cx.src.u8() == 1;
    let family = if cx.src.u8() == 1 { Family::Elements } else { Family::Core };
    let rest = cx.src.rest().to_vec();
    if !program {
        cx.label("mode 4: given text");
        return arbitrary_with(cx, family, String::from_utf8_lossy(&rest).into_owned());
    }
    cx.label("mode 4: given program bytes");
    let decoded = match family {
        Family::Core => CommitNode::decode::<_, Core>(simplicity::BitIter::from(&rest[..])),
        Family::Elements => CommitNode::decode::<_, Elements>(simplicity::BitIter::from(&rest[..])),
    };
    let commit = match decoded {
        Ok(c) => c,
        Err(_) => {
            cx.label("mode 4: bytes do not decode");
            return Ok(());
        }
    };
    let feat = features(&commit);
    label_features(cx, &feat);
    if feat.render_estimate > RENDER_LIMIT || commit.arrow().source.bit_width() != 0 || commit.arrow().target.bit_width() != 0 {
        cx.label("mode 4: program not rendered (too large or not 1 -> 1)");
        return Ok(());
    }
    let rendered = guarded(|| Forest::from_program(commit.clone()).string_serialize()).map_err(|p| format!("from_program/string_serialize panics: {} (program bytes {})", p, hex(&rest)))?;
    cx.fp.write(b"m4");
    cx.fp.write(rendered.as_bytes());
    cx.nontrivial = feat.nodes >= 6;
    cx.set_sample(|| json!({"mode": 4, "program bytes": hex(&rest), "rendered": clip(&rendered, 1200)}));
    check_reparse(cx, family, "mode 4 (decode -> from_program -> string_serialize -> parse)", &commit, &rendered).map_err(|e| format!("{}\n  program bytes: {}", e, hex(&rest)))
}

/// Minimal reproducers of the findings repaired in /repo (known_findings.json: fixed, C17).
fn fixed(_tier: Tier, emit: &mut dyn FnMut(&[u8])) {
    let texts: [&str; 7] = [
        // F8 fail entropy printed without 0x
        "main := fail 0x00112233445566778899aabbccddeeff00112233445566778899aabbccddeeff00112233445566778899aabbccddeeff00112233445566778899aabbccddeeff",
        // F9 option types printed as `A?`
        "main := comp (injr (injl unit)) unit",
        // F10 literal CMR dropped
        "main := comp (pair (injl unit) unit) (assertl unit #abcd1234abcd1234abcd1234abcd1234abcd1234abcd1234abcd1234abcd1234)",
        "main := comp (pair (injr unit) unit) (assertr #abcd1234abcd1234abcd1234abcd1234abcd1234abcd1234abcd1234abcd1234 unit)",
        // F11 equal sub-expressions under two names
        "main := comp (pair unit unit) unit",
        // word types wider than 2^512
        "iv := jet_sha_256_iv\nmain := comp (pair (pair iv iv) (pair iv iv)) unit",
        // invented name collides with a user name
        "jl1 := unit\nmain := comp (injl jl1) unit",
    ];
    for t in texts {
        let mut s = vec![255u8, 0, 0];
        s.extend_from_slice(t.as_bytes());
        emit(&s);
    }
    // F7 hole name with a space: comp (disconnect iden) unit
    emit(&[255, 1, 0, 0xc1, 0x0b, 0x24, 0x10]);
}

pub fn case(cx: &mut Case) -> CaseResult {
    let mode = cx.src.weighted(&[50, 50, 40, 1]);
    let r = match mode {
        0 => mode_program(cx),
        1 => mode_text(cx),
        2 => mode_arbitrary(cx),
        _ => mode_given(cx),
    };
    // per-mode outcome classes
    let has = |cx: &Case, l: &str| cx.labels.iter().any(|x| *x == l);
    let ok = has(cx, "outcome: round-trip ok");
    let rejected = has(cx, "outcome: text rejected");
    match mode {
        0 => {
            cx.label_if(ok, "mode 1: round-trip ok");
            cx.label_if(ok && has(cx, "has duplicates (equal IHR, distinct nodes)"), "mode 1: round-trip ok, program with duplicates");
        }
        1 => {
            cx.label_if(ok, "mode 2: round-trip ok");
            cx.label_if(rejected, "mode 2: generated text rejected");
            let skipped = has(cx, "mode 2: generated text too large (skipped)");
            cx.label_if(!rejected && !skipped, "mode 2: generated text accepted");
        }
        3 => {
            cx.label_if(ok, "mode 4: round-trip ok");
        }
        _ => {
            cx.label_if(ok, "mode 3: accepted string, round-trip ok");
            cx.label_if(rejected, "mode 3: rejected with an error list");
        }
    }
    r
}
