//! C08 Pruning preserves commitment and behaviour and satisfies anti-DoS.

use super::c01::{decode_redeem, diff_walks, walk_redeem};
use super::exec_common::*;
use crate::cbind;
use crate::engine::*;
use crate::gen::build::*;
use crate::gen::env::dummy_env;
use crate::gen::prog::*;
use crate::gen::values::*;
use crate::model::layout::*;
use serde_json::json;
use simplicity::jet::{Elements, Jet};
use simplicity::{BitMachine, RedeemNode};
use std::collections::HashSet;
use std::sync::Arc;

pub const SPEC: Spec = Spec {
    rule: "a 1->1 Elements-family program IR generated in satisfying mode (no fail nodes; assertions only in guarded form comp (pair (injl/injr e) r) (assertl/assertr ..); witness-selected case nodes; case nodes under sharing so that one node is reached with both choices; jets = Elements namesakes of the functionally modelled Core jets), witnesses generated for the inferred types, executed in a minimal Elements environment; runs that fail are discarded and counted. Oracle: prune is Ok; same cmr; the pruned program runs Ok; its serialisation is accepted by libsimplicity (decode, type inference, witness, IHR uniqueness) and evalTCOExpression(CHECK_ALL) returns NoError; it decodes in Rust to the same program; pruning again gives the same ihr and bytes. Non-trivial: pruning turned >= 1 case into an assertion or shrank >= 1 witness value. Distinct by (program bytes, witness bytes) before pruning.",
    design_ref: "§6 C08",
    max_len: 1500,
    quick_cases: 40_000,
    thorough_cases: 300_000,
    ..Spec::base("C08", "Pruning preserves commitment and behaviour and satisfies anti-DoS", case)
};

thread_local! {
    static POOL: Vec<JetRef> = modelled_core_jets()
        .into_iter()
        .filter_map(|j| Elements::parse(&j.name()).ok().map(JetRef::Elements))
        .collect();
}

fn run_elements(redeem: &Arc<RedeemNode>) -> Result<simplicity::Value, String> {
    let env = dummy_env();
    let mut mac = BitMachine::for_program(redeem).map_err(|e| format!("refused: {}", e))?;
    mac.exec(redeem, &env).map_err(|e| e.to_string())
}

/// Does some node belong both to a branch that pruning removes and to the remaining program?
/// (computed on the IR from the semantics' execution trace)
fn pruned_branch_shares_node_with_live_code(prog: &Prog, trace: &crate::model::eval::EvalTrace) -> bool {
    let mut dead_roots = vec![];
    for (id, (l, r)) in &trace.branches {
        if let Ir::Case(a, b) = &prog.nodes[*id] {
            if *l && !*r {
                dead_roots.push(*b);
            }
            if *r && !*l {
                dead_roots.push(*a);
            }
        }
    }
    let mut dead: HashSet<usize> = HashSet::new();
    let mut st = dead_roots;
    while let Some(n) = st.pop() {
        if !dead.insert(n) {
            continue;
        }
        let (a, b) = prog.nodes[n].children();
        if let Some(a) = a {
            st.push(a);
        }
        if let Some(b) = b {
            st.push(b);
        }
    }
    dead.iter().any(|n| trace.executed.contains(n))
}

/// Known finding F18 (keyed on the unpruned run: a group of distinct case node objects with one
/// identity hash of which no object took both branches while the group as a whole did).
const SIG_SPLIT: &str = "equal-case-nodes-take-different-branches-and-diverge-after-pruning";

/// Every executed case node OBJECT of a program with its identity hash and the branches that
/// this object took (the library's own tracker records per identity hash).
fn case_objects(p: &Arc<RedeemNode>, env: &simplicity::jet::ElementsTxEnv) -> Option<Vec<([u8; 32], bool, bool, String)>> {
    use simplicity::bit_machine::{ExecTracker, NodeOutput};
    use simplicity::node::Inner;
    #[derive(Default)]
    struct ByObject {
        seen: std::collections::HashMap<usize, ([u8; 32], bool, bool, String)>,
    }
    impl ExecTracker for ByObject {
        fn visit_node(&mut self, node: &RedeemNode, mut input: simplicity::bit_machine::FrameIter, _output: NodeOutput) {
            if let Inner::Case(..) = node.inner() {
                let e = self.seen.entry(node as *const RedeemNode as usize).or_insert_with(|| (node.ihr().to_byte_array(), false, false, node.arrow().to_string()));
                match input.next() {
                    Some(false) => e.1 = true,
                    Some(true) => e.2 = true,
                    None => {}
                }
            }
        }
    }
    let mut t = ByObject::default();
    let mut mac = BitMachine::for_program(p).ok()?;
    mac.exec_with_tracker(p, env, &mut t).ok()?;
    let mut v: Vec<_> = t.seen.into_values().collect();
    v.sort();
    Some(v)
}

pub fn case(cx: &mut Case) -> CaseResult {
    let mut cfg = GenCfg::basic(Family::Elements);
    cfg.jet_pool = Some(POOL.with(|p| p.clone()));
    cfg.fail = false;
    cfg.guarded_asserts_only = true;
    cfg.max_nodes = match cx.src.below(4) {
        0 => 10,
        1 => 30,
        2 => 80,
        _ => 160,
    };
    cfg.share_p = [0u32, 40, 100, 160][cx.src.below(4)];
    cfg.max_mid_width = [8usize, 40, 130][cx.src.below(3)];
    let wmax = [4usize, 30, 120][cx.src.below(3)];
    let (a, b) = gen_arrow(&mut cx.src, wmax);
    let input_val = crate::gen::values::gen_val(&mut cx.src, &a);
    let mut src = cx.src.clone();
    let mut g = ProgGen::new(&mut src, cfg);
    let e = g.expr(&a, &b, 0);
    let root = g.wrap_program(e, &a, &b, Some(&input_val));
    let prog = g.finish(root);
    cx.src = src;
    let typed = type_check(&prog, true).map_err(|e| harness_error(format!("generated IR rejected: {:?}; {}", e, prog.render())))?;
    let mut vb = ValBuilder::new();
    vb.constructors_only = true; // witness values by plain constructors: the value decoders are not this check's subject (C10) and must not make the harness inconsistent
    let mut s = cx.src.clone();
    let wit = gen_witnesses(&prog, &typed, &mut s, &mut vb);
    cx.src = s;
    let redeem = build_redeem(&prog, true, &wit.values).map_err(|e| harness_error(format!("pass 2 failed: {:?}; {}", e, prog.render())))?;
    let (pb0, wb0) = redeem.to_vec_with_witness();
    cx.fp.write(&pb0);
    cx.fp.write(&wb0);
    // Half of the programs are pruned as built (pointer structure = the IR's sharing), the other
    // half after a trip through their own serialisation (maximally shared, as a program that
    // was decoded from a transaction is).
    // (decided by a hash of the serialisation, not by a stream byte: replay files stay valid)
    let redeem = if { let mut h = Fnv::new(); h.write(&pb0); h.write(&wb0); h.finish() } & 2 == 0 {
        cx.label("program decoded from its serialisation before pruning");
        decode_redeem(Family::Elements, &pb0, &wb0).map_err(|e| format!("the program's own serialisation does not decode: {}; program {}", e, prog.render()))?
    } else {
        redeem
    };
    // semantics
    let cmrs = prog.model_cmrs();
    let model = run_model(&prog, &cmrs, &wit.model, &RVal::Unit);
    let first = run_elements(&redeem);
    match (&first, &model.result) {
        (Ok(_), Ok(_)) => {}
        (Err(_), Err(crate::model::eval::EvalError::Fail(_))) => {
            cx.label("discarded: run fails");
            // pruning a failing program must report the failure, not panic
            if redeem.prune(&dummy_env()).is_ok() {
                return Err(format!("prune succeeded although the program fails to run: {}", prog.render()));
            }
            return Ok(());
        }
        (r, m) => return Err(format!("machine and semantics disagree before pruning: machine {:?}, semantics {:?}; program {}", r.as_ref().map(|v| v.to_string()), m, prog.render())),
    }
    cx.label("run succeeds");
    let both = model.trace.branches.iter().filter(|(id, (l, r))| *l && *r && matches!(prog.nodes[**id], Ir::Case(..))).count();
    cx.label_if(both > 0, "same case node reached with both choices");
    let shares = pruned_branch_shares_node_with_live_code(&prog, &model.trace);
    cx.label_if(shares, "pruned-away branch shares a node with live code");

    let env = dummy_env();
    // Which case node OBJECTS took which branches in the unpruned run (the library's tracker
    // records per identity hash).  A group of distinct case objects with one identity hash of
    // which no single object took both branches, while the group as a whole did, is the case
    // predicate of the known finding F18.
    let split_case_group: bool = {
        let mut found = false;
        if let Some(objs) = case_objects(&redeem, &env) {
            let mut groups: std::collections::HashMap<[u8; 32], Vec<(bool, bool)>> = std::collections::HashMap::new();
            for (ihr, l, r, _) in &objs {
                groups.entry(*ihr).or_default().push((*l, *r));
            }
            for (ihr, g) in &groups {
                let union = (g.iter().any(|x| x.0), g.iter().any(|x| x.1));
                if g.len() >= 2 && union == (true, true) && g.iter().any(|x| !(x.0 && x.1)) {
                    found = true;
                    cx.note(|| format!("unpruned: case objects with identity hash {} took {:?}", hex(ihr), g));
                }
            }
        }
        found
    };
    cx.label_if(split_case_group, "equal case nodes (one identity hash, distinct objects) took different branches");
    let pruned = redeem.prune(&env).map_err(|e| format!("prune failed on a program that runs: {}; program {}", e, prog.render()))?;
    if cx.verbose {
        if let Some(objs) = case_objects(&pruned, &env) {
            for (ihr, l, r, arrow) in objs {
                eprintln!("  pruned: case object {} : {} took left {} right {}", hex(&ihr[..6]), arrow, l, r);
            }
        }
    }
    if pruned.cmr() != redeem.cmr() {
        return Err(format!("pruning changed the cmr: {} -> {}; program {}", redeem.cmr(), pruned.cmr(), prog.render()));
    }
    if pruned.cmr().to_byte_array() != cmrs[prog.root] {
        return Err("cmr of the pruned program differs from the from-scratch root".into());
    }
    run_elements(&pruned).map_err(|e| format!("pruned program does not run: {}; program {}", e, prog.render()))?;
    // every witness value of the pruned program has its node's target type
    for d in simplicity::dag::DagLike::post_order_iter::<simplicity::dag::InternalSharing>(pruned.as_ref()) {
        if let simplicity::node::Inner::Witness(v) = d.node.inner() {
            if !v.is_of_type(&d.node.arrow().target) {
                return Err(format!("pruned program carries a witness of type {} at a node of target type {}", v.ty(), d.node.arrow().target));
            }
        }
    }
    let before = walk_redeem(&redeem);
    let after = walk_redeem(&pruned);
    let n_assert = |w: &[super::c01::NodeSig]| w.iter().filter(|s| s.what.starts_with("assert")).count();
    let wit_bits = |w: &[super::c01::NodeSig]| w.iter().filter_map(|s| s.witness.as_ref().map(|x| x.0.len())).sum::<usize>();
    let turned = n_assert(&after) > 0 && after.len() < before.len();
    let shrank = wit_bits(&after) < wit_bits(&before);
    cx.nontrivial = turned || shrank;
    cx.label_if(turned, "pruning removed nodes");
    cx.label_if(shrank, "pruning shrank witness data");
    let (pb, wb) = pruned.to_vec_with_witness();
    cx.set_sample(|| json!({"program": prog.render(), "bytes_before": hex(&pb0), "witness_before": hex(&wb0), "bytes_pruned": hex(&pb), "witness_pruned": hex(&wb), "nodes_before": before.len(), "nodes_pruned": after.len()}));

    if cx.verbose {
        for (name, p) in [("unpruned", &redeem), ("pruned", &pruned)] {
            eprintln!("  {} (MaxSharing walk):", name);
            for d in simplicity::dag::DagLike::post_order_iter::<simplicity::dag::MaxSharing<simplicity::node::Redeem>>(p.as_ref()) {
                let w = match d.node.inner() {
                    simplicity::node::Inner::Witness(v) => format!(" value {}", v),
                    _ => String::new(),
                };
                eprintln!("    {}: {} ({:?},{:?}) : {} ihr {}{}", d.index, super::c01::payload(d.node.inner()), d.left_index, d.right_index, d.node.arrow(), d.node.ihr(), w);
            }
        }
    }
    // Known finding F15, keyed on the pruning history: after pruning (which changes types, hence
    // identity roots) an assertion and a case node -- or two different assertions -- end up
    // with the same identity root although they are different nodes.  Such a program has no
    // canonical encoding.
    let collision = {
        let mut kinds: std::collections::HashMap<[u8; 32], HashSet<String>> = Default::default();
        for d in simplicity::dag::DagLike::post_order_iter::<simplicity::dag::InternalSharing>(pruned.as_ref()) {
            let k = match d.node.inner() {
                simplicity::node::Inner::Case(..) => Some("case".to_string()),
                simplicity::node::Inner::AssertL(_, c) => Some(format!("assertl {}", c)),
                simplicity::node::Inner::AssertR(c, _) => Some(format!("assertr {}", c)),
                _ => None,
            };
            if let Some(k) = k {
                kinds.entry(d.node.ihr().to_byte_array()).or_default().insert(k);
            }
        }
        kinds.values().any(|s| s.len() >= 2)
    };
    cx.label_if(collision, "pruned program: case/assertion identity-root collision");
    let shares = collision;
    let sig = "pruned-case-and-assertion-share-identity-root";
    let mut serialisation_ok = true;
    // Rust decodes its own pruned encoding, to the same program
    match decode_redeem(Family::Elements, &pb, &wb) {
        Ok(d) => {
            if let Some(diff) = diff_walks(&after, &walk_redeem(&d)) {
                serialisation_ok = false;
                let what = format!("pruned program does not decode back to itself: {}; program {}", diff, prog.render());
                if shares {
                    cx.known_or_fail(sig, || what)?;
                } else {
                    return Err(what);
                }
            }
        }
        Err(e) => {
            if cx.verbose {
                let c = cbind::run(&pb, &wb, Some(cbind::EvalRequest { flags: cbind::CHECK_ALL, env: Some(env.c_tx_env()), min_cost: 0, budget: None }));
                eprintln!("  C on the same bytes: rejected {:?}, eval {:?}, len {}", c.rejected, c.eval, c.len);
                let jets = crate::model::wire::JetCodes::new(Family::Elements);
                match crate::model::wire::read_program(&crate::model::bits::unpack(&pb), &jets, 100000) {
                    Ok((nodes, _)) => eprintln!("  wire nodes (canonical per reference: {}): {}", crate::model::wire::is_canonical_order(&nodes), crate::model::wire::render(&nodes)),
                    Err(e) => eprintln!("  reference reader: {:?}", e),
                }
            }
            serialisation_ok = false;
            let what = format!("RedeemNode::decode rejects the pruned program's own serialisation: {}; bytes {} / {}; program {}", e, hex(&pb), hex(&wb), prog.render());
            if shares {
                cx.known_or_fail(sig, || what)?;
            } else {
                return Err(what);
            }
        }
    }
    // the anti-DoS rule stated on the Rust side: running the pruned program executes every one
    // of its nodes and takes both branches of every remaining case node
    let rust_antidos: Option<String> = {
        use simplicity::bit_machine::{ExecTracker, NodeOutput};
        use simplicity::node::Inner;
        #[derive(Default)]
        struct Cover {
            executed: HashSet<[u8; 32]>,
            left: HashSet<[u8; 32]>,
            right: HashSet<[u8; 32]>,
        }
        impl ExecTracker for Cover {
            fn visit_node(&mut self, node: &RedeemNode, mut input: simplicity::bit_machine::FrameIter, _output: NodeOutput) {
                let p = node.ihr().to_byte_array(); // identity after encoding (nodes of equal identity hash are one node on the wire)
                self.executed.insert(p);
                if let Inner::Case(..) | Inner::AssertL(..) | Inner::AssertR(..) = node.inner() {
                    match input.next() {
                        Some(false) => {
                            self.left.insert(p);
                        }
                        Some(true) => {
                            self.right.insert(p);
                        }
                        None => {}
                    }
                }
            }
        }
        let mut cover = Cover::default();
        let mut problem = None;
        if let Ok(mut mac) = BitMachine::for_program(&pruned) {
            if mac.exec_with_tracker(&pruned, &env, &mut cover).is_ok() {
                for d in simplicity::dag::DagLike::post_order_iter::<simplicity::dag::InternalSharing>(pruned.as_ref()) {
                    let p = d.node.ihr().to_byte_array();
                    if !cover.executed.contains(&p) {
                        problem = Some(format!("node {} ({:?} : {}) of the pruned program is never executed", d.index, d.node.inner().as_ref().map(|_| ()).map_disconnect(|_| ()).map_witness(|_| ()), d.node.arrow()));
                        break;
                    }
                    if let Inner::Case(..) = d.node.inner() {
                        if !(cover.left.contains(&p) && cover.right.contains(&p)) {
                            problem = Some(format!("case node {} of the pruned program takes only its {} branch", d.index, if cover.left.contains(&p) { "left" } else { "right" }));
                            break;
                        }
                    }
                }
            }
        }
        problem
    };
    // libsimplicity accepts it with all anti-DoS checks on
    let c = cbind::run(&pb, &wb, Some(cbind::EvalRequest { flags: cbind::CHECK_ALL, env: Some(env.c_tx_env()), min_cost: 0, budget: None }));
    let c_ok = c.rejected.is_none() && c.eval == Some(cbind::SimplicityErr::NoError);
    if !c_ok {
        let what = format!("libsimplicity does not accept the pruned program with CHECK_ALL: rejected {:?}, eval {:?}; Rust-side coverage of the pruned program: {}; bytes {} / {}; program {}", c.rejected, c.eval, rust_antidos.clone().unwrap_or_else(|| "every node executed, every case both ways".into()), hex(&pb), hex(&wb), prog.render());
        if shares && !serialisation_ok {
            cx.known_or_fail(sig, || what)?;
        } else if split_case_group && c.rejected.is_none() && c.eval == Some(cbind::SimplicityErr::AntiDoS) {
            // F18: equal case nodes that took different branches are all kept as full case nodes;
            // re-inference then gives the copies different types and each keeps a dead branch
            cx.known_or_fail(SIG_SPLIT, || what)?;
        } else {
            return Err(what);
        }
    } else {
        cx.label("C accepts pruned program with CHECK_ALL");
        if c.cmr != pruned.cmr().to_byte_array() || c.ihr != pruned.ihr().to_byte_array() || c.amr != pruned.amr().to_byte_array() {
            return Err("roots of the pruned program differ between Rust and C".into());
        }
    }
    // pruning again changes nothing
    let again = pruned.prune(&env).map_err(|e| format!("second prune failed: {}", e))?;
    let (pb2, wb2) = again.to_vec_with_witness();
    if cx.verbose {
        for (name, p) in [("unpruned", &redeem), ("pruned", &pruned), ("pruned twice", &again)] {
            eprintln!("  {}:", name);
            for d in simplicity::dag::DagLike::post_order_iter::<simplicity::dag::MaxSharing<simplicity::node::Redeem>>(p.as_ref()) {
                let w = match d.node.inner() {
                    simplicity::node::Inner::Witness(v) => format!(" value {}", v),
                    _ => String::new(),
                };
                eprintln!("    {}: {} ({:?},{:?}) : {}{}", d.index, super::c01::payload(d.node.inner()), d.left_index, d.right_index, d.node.arrow(), w);
            }
        }
    }
    if again.ihr() != pruned.ihr() || pb2 != pb || wb2 != wb {
        let what = format!("pruning the pruned program again changes it: ihr {} -> {}, bytes {} -> {}", pruned.ihr(), again.ihr(), hex(&pb), hex(&pb2));
        if shares && !serialisation_ok {
            cx.known_or_fail(sig, || what)?;
        } else if split_case_group {
            cx.known_or_fail(SIG_SPLIT, || what)?;
        } else {
            return Err(what);
        }
    }
    Ok(())
}
