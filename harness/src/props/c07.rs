//! C07 Static resource bounds cover every execution.

use super::exec_common::*;
use crate::engine::*;
use crate::gen::build::*;
use crate::gen::prog::*;
use crate::gen::types::gen_ty;
use crate::gen::values::*;
use crate::model::layout::*;
use serde_json::json;
use std::collections::HashMap;

pub const SPEC: Spec = Spec {
    rule: "mode A: the C05 program population (type-directed IRs with all combinators, witnesses, assertions, fail, disconnect, jets) on 1-3 inputs; mode B: comp/disconnect nests of depth up to 200 (left-nested, right-nested, mixed) over endo-expressions of a drawn type with wide middle types, unequal case branches and wide witnesses; after every execution (successful or failing) the hook's high-water marks must satisfy max_cells <= width(src)+width(tgt)+extra_cells and max_frames <= extra_frames+2, with no panic or debug assertion; mode C: type-bomb programs (k = 20..70 doublings, 2^k-bit middle type) must be refused by BitMachine::for_program (and building them must not panic) - run for bounds >= 2^45 cells, far above any plausible limit. Non-trivial: >= 1 comp or disconnect executed and max_cells > io width, or a refusal case. Distinct by (program, input).",
    design_ref: "§6 C07",
    max_len: 1200,
    quick_cases: 60_000,
    thorough_cases: 600_000,
    alloc_limit: 512 << 20,
    ..Spec::base("C07", "Static resource bounds cover every execution", case)
};

fn nest_program(cx: &mut Case) -> Prog {
    let mut cfg = GenCfg::basic(Family::Core);
    cfg.jet_pool = Some(modelled_core_jets_cached());
    cfg.max_nodes = 6;
    cfg.fail = false;
    cfg.max_mid_width = [16usize, 100, 600][cx.src.below(3)];
    let tw = [4usize, 64, 300][cx.src.below(3)];
    let ty = gen_ty(&mut cx.src, tw, 5);
    let depth = match cx.src.below(3) {
        0 => cx.src.range(2, 12),
        1 => cx.src.range(10, 60),
        _ => cx.src.range(50, 200),
    };
    let shape = cx.src.below(3); // 0 left-nested, 1 right-nested, 2 mixed
    let mut src = cx.src.clone();
    let mut g = ProgGen::new(&mut src, cfg);
    let mut acc = g.expr(&ty, &ty, 20);
    for _ in 0..depth {
        // each element gets a fresh small budget
        g.set_budget(5);
        // every few elements go through disconnect, with a (possibly wide) intermediate type c
        // that the disconnected branch t : c -> d shrinks to a narrow d
        let e = if g.src.chance(50) {
            let d = match g.src.below(3) {
                0 => RTy::unit(),
                1 => RTy::two(),
                _ => gen_ty(g.src, 12, 3),
            };
            g.endo_via_disconnect(&ty, &d, 21)
        } else {
            g.expr(&ty, &ty, 21)
        };
        let left = match shape {
            0 => true,
            1 => false,
            _ => g.src.bool(),
        };
        acc = if left { g.nodes_push_comp(acc, e, &ty) } else { g.nodes_push_comp(e, acc, &ty) };
    }
    let p = g.finish(acc);
    cx.src = src;
    p
}

thread_local! {
    static JETS: Vec<JetRef> = modelled_core_jets();
}
fn modelled_core_jets_cached() -> Vec<JetRef> {
    JETS.with(|j| j.clone())
}

/// 1 -> 1 program whose middle type has 2^k bits:  comp (comp w d_1 ... d_k) unit,
/// d = pair iden iden, w = a one-bit word.
fn bomb_program(k: usize) -> Prog {
    let mut nodes = vec![];
    let mut push = |ir: Ir| {
        nodes.push(ir);
        nodes.len() - 1
    };
    let mut acc = push(Ir::Word(0, vec![true]));
    for _ in 0..k {
        let i1 = push(Ir::Iden);
        let i2 = push(Ir::Iden);
        let d = push(Ir::Pair(i1, i2));
        acc = push(Ir::Comp(acc, d));
    }
    let u = push(Ir::Unit);
    let root = push(Ir::Comp(acc, u));
    Prog { nodes, root, family: Family::Core }
}

fn check_bounds(redeem: &simplicity::RedeemNode, obs: &Observed, what: &str) -> CaseResult {
    let b = redeem.bounds();
    let io = redeem.arrow().source.bit_width() + redeem.arrow().target.bit_width();
    let (cells, frames) = obs.high_water;
    if cells > io + b.extra_cells {
        return Err(format!("{}: machine used {} cells, static bound is io {} + extra_cells {} = {}", what, cells, io, b.extra_cells, io + b.extra_cells));
    }
    if frames > b.extra_frames + 2 {
        return Err(format!("{}: machine used {} frames, static bound is extra_frames {} + 2", what, frames, b.extra_frames));
    }
    if cells > obs.capacity.0 {
        return Err(format!("{}: {} cells used but the buffer has {} bits", what, cells, obs.capacity.0));
    }
    Ok(())
}

/// 1 -> 2^(2^k1) x 2^(2^k2) [x 2^(2^k3)]: a pair of bomb stages; the *target* is wide, so that
/// the machine's limit applies to the sum of the io widths and the extra cells.
fn boundary_program(ks: &[usize]) -> Prog {
    let mut nodes = vec![];
    let mut push = |ir: Ir| {
        nodes.push(ir);
        nodes.len() - 1
    };
    let mut stages = vec![];
    for k in ks {
        let mut acc = push(Ir::Word(0, vec![true]));
        for _ in 0..*k {
            let i1 = push(Ir::Iden);
            let i2 = push(Ir::Iden);
            let d = push(Ir::Pair(i1, i2));
            acc = push(Ir::Comp(acc, d));
        }
        stages.push(acc);
    }
    let mut root = stages.pop().unwrap();
    while let Some(s) = stages.pop() {
        root = push(Ir::Pair(s, root));
    }
    Prog { nodes, root, family: Family::Core }
}

/// The machine's hard limit on cells, as the library itself reports it when it refuses a
/// program that is far too large (so that a legitimate change of the limit is followed).
fn learned_max_cells() -> Option<usize> {
    thread_local! {
        static MAX: Option<usize> = {
            let prog = bomb_program(50);
            match build_redeem(&prog, true, &HashMap::new()) {
                Ok(r) => match simplicity::BitMachine::for_program(&r) {
                    Err(simplicity::bit_machine::LimitError::MaxCellsExceeded { max, .. }) => Some(max),
                    _ => None,
                },
                Err(_) => None,
            }
        };
    }
    MAX.with(|m| *m)
}

fn boundary_case(cx: &mut Case) -> CaseResult {
    cx.label("mode: bombs around the cell limit (refusal)");
    let n = 1 + cx.src.below(3);
    let ks: Vec<usize> = (0..n).map(|_| cx.src.range(24, 32)).collect();
    cx.fp.write_u64(0xb0b1);
    for k in &ks {
        cx.fp.write_u64(*k as u64);
    }
    let max = match learned_max_cells() {
        Some(m) => m,
        None => {
            cx.label("boundary: limit not reported by the library (not asserted)");
            return Ok(());
        }
    };
    let prog = boundary_program(&ks);
    let redeem = match build_redeem(&prog, false, &HashMap::new()) {
        Ok(r) => r,
        Err(BuildError::Type(_)) | Err(BuildError::Finalize(_)) => {
            cx.label("bomb: rejected before the machine");
            return Ok(());
        }
    };
    let b = redeem.bounds();
    let total = redeem.arrow().source.bit_width().saturating_add(redeem.arrow().target.bit_width()).saturating_add(b.extra_cells);
    cx.set_sample(|| json!({"mode": "boundary bomb", "stages (doublings)": ks, "target_bits": redeem.arrow().target.bit_width(), "extra_cells": b.extra_cells, "total": total, "limit": max}));
    if total <= max {
        // the machine may be built (and would allocate total/8 bytes): not asserted, not tried
        cx.label("boundary: total bound <= limit (not asserted)");
        return Ok(());
    }
    cx.label("boundary: total bound > limit");
    cx.label_if(b.extra_cells <= max && redeem.arrow().target.bit_width() <= max, "boundary: every single quantity <= limit, only the sum exceeds it");
    cx.nontrivial = true;
    match simplicity::BitMachine::for_program(&redeem) {
        Err(_) => Ok(()),
        Ok(_) => Err(format!("BitMachine::for_program built a machine for a program whose bounds exceed the hard limit: io {} + extra_cells {} = {} > {} (stages of 2^k bits, k = {:?})", redeem.arrow().source.bit_width() + redeem.arrow().target.bit_width(), b.extra_cells, total, max, ks)),
    }
}

pub fn case(cx: &mut Case) -> CaseResult {
    let mode = cx.src.weighted(&[60, 50, 8, 6]);
    if mode == 3 {
        return boundary_case(cx);
    }
    if mode == 2 {
        // refusal clause
        // half of the bombs have a non-empty source type (a jet doubled k = 46..130 times: the
        // bounds saturate, and the limit check must still add them to the io widths safely)
        let with_source = cx.src.bool();
        let k = if with_source { cx.src.range(46, 130) } else { cx.src.range(46, 70) };
        cx.label("mode: type bomb (refusal)");
        cx.label_if(with_source, "bomb: non-empty source type");
        cx.fp.write_u64(0xb0b0 + k as u64 + if with_source { 1000 } else { 0 });
        let prog = if with_source {
            let mut nodes = vec![Ir::Jet(JetRef::Core(simplicity::jet::Core::Ch8))];
            for i in 0..k {
                nodes.push(Ir::Pair(i, i));
            }
            nodes.push(Ir::Unit);
            nodes.push(Ir::Comp(k, k + 1));
            Prog { nodes, root: k + 2, family: Family::Core }
        } else {
            bomb_program(k)
        };
        cx.set_sample(|| json!({"mode": "type bomb", "doublings": k, "middle_type_bits": format!("2^{}", k), "non_empty_source": with_source}));
        let redeem = match build_redeem(&prog, !with_source, &HashMap::new()) {
            Ok(r) => r,
            // being rejected earlier (e.g. by a type-size check) is also a refusal
            Err(BuildError::Type(_)) | Err(BuildError::Finalize(_)) => {
                cx.label("bomb: rejected before the machine");
                cx.nontrivial = true;
                return Ok(());
            }
        };
        let b = redeem.bounds();
        cx.note(|| format!("bounds {:?}", b));
        match simplicity::BitMachine::for_program(&redeem) {
            Err(_) => {
                cx.label("bomb: machine refused");
                cx.nontrivial = true;
                Ok(())
            }
            Ok(_) => Err(format!("BitMachine::for_program accepted a program whose middle type has 2^{} bits (extra_cells = {})", k, b.extra_cells)),
        }
    } else {
        let prog = if mode == 0 {
            cx.label("mode: general program");
            super::c05::gen_program(cx, |_| {}).0
        } else {
            cx.label("mode: comp nest");
            nest_program(cx)
        };
        let typed = match type_check(&prog, false) {
            Ok(t) => t,
            Err(e) => return Err(harness_error(format!("generated IR rejected by the library: {:?}; program {}", e, prog.render()))),
        };
        let (src_ty, tgt_ty) = typed.arrows[&prog.root].clone();
        let mut vb = ValBuilder::new();
        let mut s = cx.src.clone();
        let wit = gen_witnesses(&prog, &typed, &mut s, &mut vb);
        cx.src = s;
        let redeem = build_redeem(&prog, false, &wit.values).map_err(|e| harness_error(format!("pass 2 failed: {:?}", e)))?;
        let cmrs = prog.model_cmrs();
        prog.fingerprint(&mut cx.fp);
        let b = redeem.bounds();
        cx.label_if(b.extra_frames >= 20, "extra_frames >= 20");
        cx.label_if(b.extra_frames >= 100, "extra_frames >= 100");
        cx.label_if(b.extra_cells >= 1000, "extra_cells >= 1000");
        let n_inputs = 1 + cx.src.below(3);
        for i in 0..n_inputs {
            let input = gen_val(&mut cx.src, &src_ty);
            cx.fp.write(&crate::model::bits::pack(&compact_bits(&src_ty, &input)));
            let mut tr = Trace::default();
            let mut s = cx.src.clone();
            let in_value = vb.build(&mut s, &src_ty, &input, 1, &mut tr);
            cx.src = s;
            let obs = run_core(&redeem, Some(&in_value));
            let model = run_model(&prog, &cmrs, &wit.model, &input);
            if let MachineOutcome::Refused(m) = &obs.outcome {
                return Err(format!("machine refused a small program ({} nodes): {}", prog.reachable().len(), m));
            }
            check_bounds(&redeem, &obs, "bounds")?;
            // the verdict is checked as well (cheap, and keeps this population honest)
            match compare(&obs.outcome, &model.result, &tgt_ty) {
                Ok(l) => cx.label(l),
                Err(m) => return Err(format!("{} (program {})", m, prog.render())),
            }
            let io = src_ty.width + tgt_ty.width;
            if model.trace.comps_executed + model.trace.disconnects_executed >= 1 && obs.high_water.0 > io {
                cx.nontrivial = true;
            }
            cx.label_if(obs.high_water.0 == io + b.extra_cells && b.extra_cells > 0, "cell bound tight");
            cx.label_if(obs.high_water.1 == b.extra_frames + 2 && b.extra_frames > 0, "frame bound tight");
            if i == 0 {
                cx.set_sample(|| {
                    json!({"program": prog.render(), "source": src_ty.show_short(), "target": tgt_ty.show_short(),
                        "bounds": format!("{:?}", b), "high_water_cells": obs.high_water.0, "high_water_frames": obs.high_water.1})
                });
            }
        }
        Ok(())
    }
}
