//! C06 Rust and C evaluators reach the same verdict.
//!
//! Two populations, both executed in a generated transaction environment (`gen::txenv`) that is
//! marshalled once (`ElementsEnv::new`) and given to both evaluators:
//!
//! * mode "general": 1 -> 1 Elements programs from the C01/C03 population (all 471 jets as leaves,
//!   witnesses, assertions, disconnect with branch, sharing), generated witnesses.
//! * mode "jet template": one jet J (uniform over all Elements jets) applied to a generated
//!   argument (constant or witness; 32-bit words biased to small indices, lock-time jets to the
//!   neighbourhood of the environment's values).  `comp arg J : 1 -> T` is first run on the Rust
//!   machine; the template program then compares J's output with an expected constant by a
//!   structural equality expression built from combinators (`eq_T : T x T -> 2`) and turns the
//!   result into an assertion failure (`assertr #h unit`) or a jet failure (`verify`).  The
//!   expected constant is J's observed output (the program must succeed on both machines) or a
//!   one-bit mutation of it (both must fail, with that kind).  This makes the *verdict* depend on
//!   every bit of every jet's output as the C evaluator computes it from its own frames.
//!
//! Oracle: Rust `Ok` <=> C `NoError`; `ReachedPrunedBranch` <=> `ExecAssert`; `JetFailed` <=>
//! `ExecJet`.  Outside the stated limits (counted, not compared): `BitMachine::for_program`
//! refusal, `LimitExceeded`, C `ExecMemory`/`ExecBudget`/`Malloc`.

use super::c01::gen_unit_program;
use crate::cbind::{self, SimplicityErr};
use crate::engine::*;
use crate::gen::build::*;
use crate::gen::prog::*;
use crate::gen::txenv::{gen_env, EnvSpec};
use crate::gen::types::to_final;
use crate::gen::values::*;
use crate::model::bits::pack;
use crate::model::layout::*;
use serde_json::json;
use simplicity::bit_machine::ExecutionError;
use simplicity::jet::{Elements, ElementsTxEnv, Jet};
use simplicity::{BitIter, BitMachine, RedeemNode, Value};
use std::cell::RefCell;
use std::collections::HashMap;
use std::sync::Arc;

pub const SPEC: Spec = Spec {
    rule: "Elements family, 1 -> 1 programs without fail nodes (libsimplicity does not decode them), executed in a transaction environment decoded from the stream by gen::txenv (1..6 inputs, 0..6 outputs, issuances, peg-ins, confidential and explicit fields, annex, lock times and sequences at their boundaries, control blocks with 0..8 or 128 path elements) and marshalled once for both evaluators. mode general: program from the C01/C03 population (all 471 jets as leaves, witnesses, assertions, disconnect with branch, sharing) with generated witnesses. mode jet template: jet J drawn uniformly from all Elements jets, argument generated for J's source type (32-bit words biased to 0..7 so that indices are in range, check_lock_* arguments around the environment's values), given as constant or witness; J's output on the Rust machine is compared inside the program with an expected constant by a combinator-only equality expression whose result feeds assertr (assertion failure) or the verify jet (jet failure); expected = observed output (both machines must succeed) or a one-bit mutation (both must fail with that kind); optionally a junk constant is paired in front to move frame offsets. Oracle: the verdict of BitMachine::exec (success / ReachedPrunedBranch / JetFailed) equals the verdict of evalTCOExpression(flags = CHECK_NONE, minCost 0, no budget) called through a binding with the C header's 9 parameters on the program's serialisation (NoError / ExecAssert / ExecJet); additionally the template's own prediction (success iff expected = observed) must hold on the Rust machine. Outside the limits (counted): for_program refusal, LimitExceeded, C ExecMemory/ExecBudget/Malloc. Non-trivial: a jet or a case was part of the program and both evaluators ran it. Distinct by (program bytes, witness bytes, environment digest).",
    design_ref: "§6 C06",
    max_len: 2000,
    quick_cases: 40_000,
    thorough_cases: 1_000_000,
    ..Spec::base("C06", "Rust and C evaluators reach the same verdict", case)
};

#[derive(Clone, Debug, PartialEq, Eq)]
pub enum Verdict {
    Success,
    Assertion,
    JetFailure,
    Outside(String),
    Other(String),
}

thread_local! {
    static JETS: Vec<JetRef> = all_jets(Family::Elements);
    static NAMES: RefCell<HashMap<String, &'static str>> = RefCell::new(HashMap::new());
}

/// Labels are `&'static str`; per-jet labels are interned (at most a few per jet).
fn intern(s: String) -> &'static str {
    NAMES.with(|n| {
        let mut n = n.borrow_mut();
        if let Some(x) = n.get(&s) {
            return *x;
        }
        let leaked: &'static str = Box::leak(s.clone().into_boxed_str());
        n.insert(s, leaked);
        leaked
    })
}

pub fn run_rust(redeem: &Arc<RedeemNode>, env: &ElementsTxEnv) -> (Verdict, Option<Value>) {
    let mut mac = match BitMachine::for_program(redeem) {
        Ok(m) => m,
        Err(e) => return (Verdict::Outside(format!("for_program: {}", e)), None),
    };
    match mac.exec(redeem, env) {
        Ok(v) => (Verdict::Success, Some(v)),
        Err(ExecutionError::ReachedPrunedBranch(_)) => (Verdict::Assertion, None),
        Err(ExecutionError::JetFailed(_)) => (Verdict::JetFailure, None),
        Err(ExecutionError::LimitExceeded(e)) => (Verdict::Outside(format!("LimitExceeded: {}", e)), None),
        Err(e) => (Verdict::Other(format!("{:?}", e)), None),
    }
}

pub fn run_c(prog: &[u8], wit: &[u8], env: &ElementsTxEnv) -> Verdict {
    let c = cbind::run(prog, wit, Some(cbind::EvalRequest { flags: cbind::CHECK_NONE, env: Some(env.c_tx_env()), min_cost: 0, budget: None }));
    if let Some((stage, e)) = c.rejected {
        return match e {
            SimplicityErr::Malloc | SimplicityErr::ExecMemory => Verdict::Outside(format!("C {:?} at {:?}", e, stage)),
            _ => Verdict::Other(format!("libsimplicity rejects the program at {:?} with {:?}", stage, e)),
        };
    }
    match c.eval {
        Some(SimplicityErr::NoError) => Verdict::Success,
        Some(SimplicityErr::ExecAssert) => Verdict::Assertion,
        Some(SimplicityErr::ExecJet) => Verdict::JetFailure,
        Some(e @ SimplicityErr::ExecMemory) | Some(e @ SimplicityErr::ExecBudget) | Some(e @ SimplicityErr::Malloc) => Verdict::Outside(format!("C {:?}", e)),
        Some(e) => Verdict::Other(format!("evalTCOExpression returned {:?}", e)),
        None => Verdict::Other("evalTCOExpression not called".into()),
    }
}

/// Compare the two evaluators on a finished program.  Returns the Rust verdict.
fn compare(cx: &mut Case, redeem: &Arc<RedeemNode>, env: &ElementsTxEnv, espec: &EnvSpec, describe: &dyn Fn() -> String) -> Result<Verdict, String> {
    let (pb, wb) = redeem.to_vec_with_witness();
    cx.fp.write(&pb);
    cx.fp.write_u64(0xfffe);
    cx.fp.write(&wb);
    cx.fp.write_u64(espec.digest());
    let (rust, _) = run_rust(redeem, env);
    let c = run_c(&pb, &wb, env);
    let ctx = || format!("{}\n  program bytes {} witness bytes {}\n  environment {}", describe(), hex(&pb), hex(&wb), espec.describe());
    match (&rust, &c) {
        (Verdict::Other(e), _) => return Err(format!("Rust machine: unexpected error {}; {}", e, ctx())),
        (_, Verdict::Other(e)) => {
            // C refusing to decode/type a program Rust built is C03's subject; it is not a verdict
            cx.label("C does not accept the program (C03's subject; not compared)");
            cx.note(|| format!("C: {}; {}", e, ctx()));
            return Ok(rust);
        }
        (Verdict::Outside(_), _) | (_, Verdict::Outside(_)) => {
            cx.label("outside the limits (not compared)");
            return Ok(rust);
        }
        _ => {}
    }
    cx.label(match rust {
        Verdict::Success => "verdict: success",
        Verdict::Assertion => "verdict: assertion failure",
        _ => "verdict: jet failure",
    });
    if rust != c {
        return Err(format!("verdicts differ: Rust Bit Machine {:?}, C evaluator {:?}; {}", rust, c, ctx()));
    }
    cx.label("verdicts compared");
    Ok(rust)
}

// ---------------------------------------------------------------------------------------------
// IR construction helpers for the template
// ---------------------------------------------------------------------------------------------

pub struct B {
    pub nodes: Vec<Ir>,
    pub eq_memo: Vec<(Arc<RTy>, Id)>,
}

impl B {
    pub fn push(&mut self, ir: Ir) -> Id {
        self.nodes.push(ir);
        self.nodes.len() - 1
    }

    /// A constant of type `ty` with value `v`, source unit.
    pub fn constant(&mut self, src: &mut Src, ty: &Arc<RTy>, v: &RVal) -> Id {
        if let Some(n) = ty.as_word() {
            if n <= 8 && src.chance(180) {
                let mut bits = vec![];
                crate::model::eval::flat_bits(v, &mut bits);
                return self.push(Ir::Word(n, bits));
            }
        }
        match (&ty.kind, v) {
            (RTyKind::Unit, _) => self.push(Ir::Unit),
            (RTyKind::Sum(x, _), RVal::L(a)) => {
                let c = self.constant(src, x, a);
                self.push(Ir::InjL(c))
            }
            (RTyKind::Sum(_, y), RVal::R(b)) => {
                let c = self.constant(src, y, b);
                self.push(Ir::InjR(c))
            }
            (RTyKind::Prod(x, y), RVal::Pair(a, b)) => {
                let l = self.constant(src, x, a);
                let r = self.constant(src, y, b);
                self.push(Ir::Pair(l, r))
            }
            _ => panic!("value {:?} is not of type {}", v, ty.show()),
        }
    }

    fn false_(&mut self) -> Id {
        let u = self.push(Ir::Unit);
        self.push(Ir::InjL(u))
    }

    fn true_(&mut self) -> Id {
        let u = self.push(Ir::Unit);
        self.push(Ir::InjR(u))
    }

    /// swap : A x B -> B x A
    fn swap(&mut self) -> Id {
        let i1 = self.push(Ir::Iden);
        let d = self.push(Ir::Drop(i1));
        let i2 = self.push(Ir::Iden);
        let t = self.push(Ir::Take(i2));
        self.push(Ir::Pair(d, t))
    }

    /// eq_T : T x T -> 2, combinators only (true = right).  One node per distinct type.
    pub fn eq(&mut self, ty: &Arc<RTy>) -> Id {
        if let Some((_, id)) = self.eq_memo.iter().find(|(t, _)| t == ty) {
            return *id;
        }
        let id = match &ty.kind {
            RTyKind::Unit => self.true_(),
            RTyKind::Prod(x, y) => {
                // ((a1,b1),(a2,b2)):  and (eq_x (a1,a2)) (eq_y (b1,b2))
                let ex = self.eq(x);
                let ey = self.eq(y);
                let i = self.push(Ir::Iden);
                let tt = self.push(Ir::Take(i));
                let ott = self.push(Ir::Take(tt)); // a1
                let i = self.push(Ir::Iden);
                let tt = self.push(Ir::Take(i));
                let odt = self.push(Ir::Drop(tt)); // a2
                let pa = self.push(Ir::Pair(ott, odt));
                let ca = self.push(Ir::Comp(pa, ex));
                let i = self.push(Ir::Iden);
                let dd = self.push(Ir::Drop(i));
                let otd = self.push(Ir::Take(dd)); // b1
                let i = self.push(Ir::Iden);
                let dd = self.push(Ir::Drop(i));
                let odd = self.push(Ir::Drop(dd)); // b2
                let pb = self.push(Ir::Pair(otd, odd));
                let cb = self.push(Ir::Comp(pb, ey));
                let both = self.push(Ir::Pair(ca, cb));
                // and : 2 x 2 -> 2 = case (false) (drop iden)
                let f = self.false_();
                let i = self.push(Ir::Iden);
                let d = self.push(Ir::Drop(i));
                let and = self.push(Ir::Case(f, d));
                self.push(Ir::Comp(both, and))
            }
            RTyKind::Sum(x, y) => {
                // (u, v): case on u, then (after a swap) case on v
                let ex = self.eq(x);
                let ey = self.eq(y);
                // left: x * (x+y) -> 2
                let sw = self.swap();
                let f = self.false_();
                let inner_l = self.push(Ir::Case(ex, f)); // (x+y) * x : left -> eq_x (x2,x1), right -> false
                let left = self.push(Ir::Comp(sw, inner_l));
                let sw = self.swap();
                let f = self.false_();
                let inner_r = self.push(Ir::Case(f, ey));
                let right = self.push(Ir::Comp(sw, inner_r));
                self.push(Ir::Case(left, right))
            }
        };
        self.eq_memo.push((ty.clone(), id));
        id
    }
}

/// 32-bit words become small numbers most of the time (indices into inputs/outputs/paths).
fn bias_small_words(src: &mut Src, ty: &Arc<RTy>, v: RVal) -> RVal {
    if let Some(n) = ty.as_word() {
        if n == 5 && src.chance(170) {
            let k = src.below(8) as u32;
            let bits: Vec<bool> = (0..32).rev().map(|i| (k >> i) & 1 == 1).collect();
            return RVal::from_word_bits(&bits);
        }
        return v;
    }
    match (&ty.kind, v) {
        (RTyKind::Sum(x, _), RVal::L(a)) => RVal::l(bias_small_words(src, x, *a)),
        (RTyKind::Sum(_, y), RVal::R(b)) => RVal::r(bias_small_words(src, y, *b)),
        (RTyKind::Prod(x, y), RVal::Pair(a, b)) => {
            let a = bias_small_words(src, x, *a);
            let b = bias_small_words(src, y, *b);
            RVal::pair(a, b)
        }
        (_, v) => v,
    }
}

fn word_val(v: u64, bits: usize) -> RVal {
    let b: Vec<bool> = (0..bits).rev().map(|i| (v >> i) & 1 == 1).collect();
    RVal::from_word_bits(&b)
}

/// Argument for jet `j` in environment `e`.
fn gen_arg(src: &mut Src, j: &JetRef, e: &EnvSpec) -> RVal {
    let ty = j.source();
    let name = j.name();
    // lock-time jets: the verdict flips at the environment's value
    let around = |src: &mut Src, x: u64, bits: usize| -> RVal {
        let max = if bits == 64 { u64::MAX } else { (1u64 << bits) - 1 };
        let c = [0, x.saturating_sub(1), x, x.saturating_add(1).min(max), max, 500_000_000u64.min(max), 499_999_999u64.min(max)];
        word_val(c[src.below(c.len())], bits)
    };
    if src.chance(200) {
        let lock = e.tx.lock_time.to_consensus_u32() as u64;
        let seq = e.tx.input[e.ix as usize].sequence.0 as u64;
        match name.as_str() {
            "check_lock_height" | "check_lock_time" => return around(src, lock, 32),
            "check_lock_distance" | "check_lock_duration" => return around(src, seq & 0xffff, 16),
            _ => {}
        }
    }
    let v = gen_val(src, &ty);
    bias_small_words(src, &ty, v)
}

fn value_of(ty: &Arc<RTy>, v: &RVal) -> Value {
    let bits = compact_bits(ty, v);
    let bytes = pack(&bits);
    let mut it = BitIter::from(&bytes[..]);
    Value::from_compact_bits(&mut it, &to_final(ty)).expect("model value has its type")
}

/// Choices made before the (long) environment description is read from the stream, so that they
/// do not degenerate when a random stream runs out: the jet and a seed for the style choices.
struct Pre {
    jet: usize,
    style: [u8; 320],
}

fn xorshift_bytes(seed: u64, out: &mut [u8]) {
    // zero expands to zeros (the plainest style), like every exhausted stream
    let mut x = seed;
    for chunk in out.chunks_mut(8) {
        x ^= x >> 12;
        x ^= x << 25;
        x ^= x >> 27;
        let v = x.wrapping_mul(0x2545_F491_4F6C_DD1D).to_le_bytes();
        chunk.copy_from_slice(&v[..chunk.len()]);
    }
}

fn mode_template(cx: &mut Case, pre: &Pre, espec: &EnvSpec, env: &ElementsTxEnv) -> CaseResult {
    cx.label("mode: jet template");
    let jets = JETS.with(|j| j.clone());
    let j = jets[pre.jet];
    let name = j.name();
    let (s, t) = (j.source(), j.target());
    let mut st = Src::new(&pre.style);
    let arg_as_witness = !s.is_unit() && st.chance(96);
    let use_verify = st.chance(110);
    let mutate = st.chance(70);
    let with_junk = st.chance(90);
    let mut hidden = [0u8; 32];
    for b in hidden.iter_mut() {
        *b = st.u8();
    }
    let mut src = cx.src.clone();
    let arg = gen_arg(&mut src, &j, espec);
    let junk = if with_junk {
        let jt = crate::gen::types::gen_ty(&mut st, 70, 4);
        let jv = gen_val(&mut src, &jt);
        Some((jt, jv))
    } else {
        None
    };

    // step 1: comp arg J : 1 -> T on the Rust machine
    let mut b = B { nodes: vec![], eq_memo: vec![] };
    let mut witnesses: HashMap<Id, Value> = HashMap::new();
    // Where the jet finds its argument: alone in a fresh frame (plain), or inside a larger frame
    // behind / in front of other non-zero data (`drop J` / `take J` on a pair with a neighbour).
    // The C evaluator hands a jet its live read frame at whatever cursor it has; the Rust
    // machine copies the argument out first: the two must still agree.
    let placement = if s.is_unit() { 0 } else { [0usize, 0, 1, 2, 3][st.below(5)] };
    let call = {
        let jn = b.push(Ir::Jet(j));
        if s.is_unit() {
            jn
        } else {
            let an = if arg_as_witness {
                let w = b.push(Ir::Witness);
                witnesses.insert(w, value_of(&s, &arg));
                w
            } else {
                b.constant(&mut src, &s, &arg)
            };
            if placement == 0 {
                b.push(Ir::Comp(an, jn))
            } else if placement == 3 {
                // the jet runs twice on one frame (argument twice): whatever the first call
                // leaves behind in the read frame's cursor is seen by the second
                let p = b.push(Ir::Pair(an, an));
                let tk = b.push(Ir::Take(jn));
                let dr = b.push(Ir::Drop(jn));
                let both = b.push(Ir::Pair(tk, dr));
                b.push(Ir::Comp(p, both))
            } else {
                let nt = crate::gen::types::gen_ty(&mut st, 70, 4);
                let nv = gen_val(&mut st, &nt);
                let nn = b.constant(&mut st, &nt, &nv);
                if placement == 1 {
                    let p = b.push(Ir::Pair(nn, an));
                    let d = b.push(Ir::Drop(jn));
                    b.push(Ir::Comp(p, d))
                } else {
                    let p = b.push(Ir::Pair(an, nn));
                    let t = b.push(Ir::Take(jn));
                    b.push(Ir::Comp(p, t))
                }
            }
        }
    };
    cx.label(["argument alone in its frame", "argument behind a neighbour (drop J)", "argument in front of a neighbour (take J)", "jet called twice on one frame"][placement]);
    let t = if placement == 3 { RTy::prod(t.clone(), t.clone()) } else { t };
    let probe = Prog { nodes: b.nodes.clone(), root: call, family: Family::Elements };
    let describe_arg = || format!("jet {} on argument {}", name, arg.show_short(&s));
    let probe_redeem = build_redeem(&probe, false, &witnesses).map_err(|e| harness_error(format!("probe program of {}: {:?}", describe_arg(), e)))?;
    let (probe_verdict, out) = run_rust(&probe_redeem, env);
    cx.label_if(arg_as_witness, "argument given as witness");

    // step 2: the 1 -> 1 template
    let (root, predicted): (Id, Option<Verdict>) = match (&probe_verdict, out) {
        (Verdict::Success, Some(v)) => {
            let (vty, rv) = read_value(&v);
            let observed = match rv {
                Some(rv) if *vty == *t => rv,
                _ => return Err(format!("{}: the Rust machine returned a value that is not of the jet's target type {}: {}", describe_arg(), t.show(), v)),
            };
            let mut expected = observed.clone();
            if mutate && !t.is_unit() {
                let mut bits = compact_bits(&t, &observed);
                if !bits.is_empty() {
                    let i = src.below(bits.len());
                    bits[i] = !bits[i];
                    if let Some((m, used)) = parse_compact(&t, &bits) {
                        if used == bits.len() && m != observed {
                            expected = m;
                        }
                    }
                }
            }
            let differs = expected != observed;
            cx.label_if(differs, "expected value mutated (must fail)");
            cx.label_if(!differs, "expected value = observed output (must succeed)");
            let cexp = b.constant(&mut src, &t, &expected);
            let both = b.push(Ir::Pair(call, cexp));
            let eq = b.eq(&t);
            let tested = b.push(Ir::Comp(both, eq));
            let (checked, fail_kind) = if use_verify {
                let vj = b.push(Ir::Jet(JetRef::Elements(Elements::Verify)));
                (b.push(Ir::Comp(tested, vj)), Verdict::JetFailure)
            } else {
                let u1 = b.push(Ir::Unit);
                let p = b.push(Ir::Pair(tested, u1));
                let u2 = b.push(Ir::Unit);
                let a = b.push(Ir::AssertR(hidden, u2));
                (b.push(Ir::Comp(p, a)), Verdict::Assertion)
            };
            cx.label(if use_verify { "check by verify jet" } else { "check by assertr" });
            (checked, Some(if differs { fail_kind } else { Verdict::Success }))
        }
        (Verdict::JetFailure, _) => {
            cx.label("jet fails on the argument");
            let u = b.push(Ir::Unit);
            (b.push(Ir::Comp(call, u)), Some(Verdict::JetFailure))
        }
        (Verdict::Outside(_), _) => {
            cx.label("outside the limits (not compared)");
            return Ok(());
        }
        (v, _) => return Err(format!("{}: unexpected outcome on the Rust machine: {:?}", describe_arg(), v)),
    };
    let root = match &junk {
        Some((jt, jv)) => {
            cx.label("junk constant paired in front");
            let c = b.constant(&mut src, jt, jv);
            let p = b.push(Ir::Pair(c, root));
            let u = b.push(Ir::Unit);
            b.push(Ir::Comp(p, u))
        }
        None => root,
    };
    // Dirty memory: `comp (comp ONES unit) P` first fills a frame of 64..512 cells with ones and
    // releases it, so that the frames of P re-use cells that are not zero (an evaluator, or a
    // jet's output routine, that relies on fresh cells being zero then computes something else).
    let root = if st.chance(120) {
        cx.label("frames re-use memory filled with ones");
        let n = 6 + st.below(4);
        let ones = b.push(Ir::Word(n.min(8), vec![true; 1 << n.min(8)]));
        let ones = if n > 8 { b.push(Ir::Pair(ones, ones)) } else { ones };
        let u = b.push(Ir::Unit);
        let pro = b.push(Ir::Comp(ones, u));
        b.push(Ir::Comp(pro, root))
    } else {
        root
    };
    cx.src = src;
    let prog = Prog { nodes: b.nodes, root, family: Family::Elements };
    let redeem = build_redeem(&prog, true, &witnesses).map_err(|e| harness_error(format!("template program of {}: {:?}; {}", describe_arg(), e, prog.render())))?;
    cx.label(intern(format!("jet: {}", name)));
    cx.set_sample(|| json!({"mode": "jet template", "jet": name, "argument": arg.show_short(&s), "predicted": format!("{:?}", predicted), "program": prog.render(), "env": espec.describe()}));
    let describe = || format!("{} (template, predicted {:?}); program {}", describe_arg(), predicted, prog.render());
    let rust = compare(cx, &redeem, env, espec, &describe)?;
    if let Some(p) = predicted.clone() {
        if !matches!(rust, Verdict::Outside(_)) && rust != p {
            return Err(format!("the Rust machine does not reproduce its own jet output: predicted {:?}, got {:?}; {}", p, rust, describe()));
        }
    }
    cx.nontrivial = cx.labels.iter().any(|l| *l == "verdicts compared");
    Ok(())
}

fn mode_general(cx: &mut Case, espec: &EnvSpec, env: &ElementsTxEnv) -> CaseResult {
    cx.label("mode: general program");
    let mut g = gen_unit_program(cx, false, false);
    if g.family != Family::Elements {
        for n in g.prog.nodes.iter_mut() {
            if let Ir::Jet(JetRef::Core(j)) = n {
                match Elements::parse(&j.to_string()) {
                    Ok(e) => *n = Ir::Jet(JetRef::Elements(e)),
                    Err(_) => *n = Ir::Unit,
                }
            }
        }
        g.prog.family = Family::Elements;
        g.family = Family::Elements;
    }
    // libsimplicity does not decode fail nodes: replace them (typing may break; discarded then)
    let mut had_fail = false;
    for n in g.prog.nodes.iter_mut() {
        if let Ir::Fail(_) = n {
            *n = Ir::Witness;
            had_fail = true;
        }
    }
    cx.label_if(had_fail, "fail nodes replaced by witnesses");
    let prog = g.prog;
    let typed = match type_check(&prog, true) {
        Ok(t) => t,
        Err(_) => {
            cx.label("discarded: ill-typed after conversion");
            return Ok(());
        }
    };
    let mut vb = ValBuilder::new();
    vb.constructors_only = true; // witness values by plain constructors: the value decoders are not this check's subject (C10) and must not make the harness inconsistent
    vb.allow_machine = false;
    let mut s = cx.src.clone();
    let wit = gen_witnesses(&prog, &typed, &mut s, &mut vb);
    cx.src = s;
    let redeem = build_redeem(&prog, true, &wit.values).map_err(|e| harness_error(format!("pass 2: {:?}", e)))?;
    cx.label_if(prog.has("disconnect"), "has disconnect");
    cx.label_if(prog.has("assertl") || prog.has("assertr"), "has assertion");
    cx.label_if(prog.has("witness"), "has witness");
    cx.label_if(prog.has("jet"), "has jet");
    cx.label_if(prog.has("case"), "has case");
    cx.set_sample(|| json!({"mode": "general", "program": prog.render(), "env": espec.describe()}));
    let describe = || format!("general program {}", prog.render());
    let v = compare(cx, &redeem, env, espec, &describe)?;
    cx.label(match v {
        Verdict::Success => "general: success",
        Verdict::Assertion => "general: assertion failure",
        Verdict::JetFailure => "general: jet failure",
        _ => "general: not compared",
    });
    cx.nontrivial = (prog.has("jet") || prog.has("case")) && cx.labels.iter().any(|l| *l == "verdicts compared");
    Ok(())
}

/// Delegation template: `comp (disconnect S T) unit` where S compares the 256-bit commitment
/// root it is handed (the root of T, which each evaluator computes or stores on its own) with a
/// constant K and fails unless they are equal.  K = cmr(T) must succeed on both machines, a
/// one-bit mutation must fail on both.
fn mode_delegation(cx: &mut Case, pre: &Pre, espec: &EnvSpec, env: &ElementsTxEnv) -> CaseResult {
    cx.label("mode: disconnect delegation template");
    let mut st = Src::new(&pre.style);
    let use_verify = st.chance(110);
    let mutate = st.chance(90);
    let t_kind = st.below(6);
    let flip = st.below(256);
    let mut hidden = [0u8; 32];
    for b in hidden.iter_mut() {
        *b = st.u8();
    }
    let mut src = cx.src.clone();
    let cty = crate::gen::types::gen_ty(&mut src, 40, 3);
    let cval = gen_val(&mut src, &cty);
    let build = |src: &mut Src, k: &[bool]| -> Prog {
        let mut b = B { nodes: vec![], eq_memo: vec![] };
        let i = b.push(Ir::Iden);
        let tk = b.push(Ir::Take(i));
        let u0 = b.push(Ir::Unit);
        let kw = b.push(Ir::Word(8, k.to_vec()));
        let kc = b.push(Ir::Comp(u0, kw));
        let p = b.push(Ir::Pair(tk, kc));
        let e = b.eq(&RTy::word(8));
        let tested = b.push(Ir::Comp(p, e));
        let chk = if use_verify {
            let vj = b.push(Ir::Jet(JetRef::Elements(Elements::Verify)));
            b.push(Ir::Comp(tested, vj))
        } else {
            let u1 = b.push(Ir::Unit);
            let pp = b.push(Ir::Pair(tested, u1));
            let u2 = b.push(Ir::Unit);
            let a = b.push(Ir::AssertR(hidden, u2));
            b.push(Ir::Comp(pp, a))
        };
        let cco = if cty.is_unit() {
            b.push(Ir::Unit)
        } else {
            let u1 = b.push(Ir::Unit);
            let cc = b.constant(src, &cty, &cval);
            b.push(Ir::Comp(u1, cc))
        };
        let s = b.push(Ir::Pair(chk, cco));
        let ti = b.push(Ir::Iden);
        let t = match (t_kind, &cty.kind) {
            (0, _) => b.push(Ir::Unit),
            (1, _) => ti,
            (2, _) => b.push(Ir::InjL(ti)),
            (3, _) => {
                let u = b.push(Ir::Unit);
                b.push(Ir::Pair(ti, u))
            }
            (4, RTyKind::Prod(..)) => b.push(Ir::Take(ti)),
            (5, RTyKind::Prod(..)) => b.push(Ir::Drop(ti)),
            _ => b.push(Ir::InjR(ti)),
        };
        let d = b.push(Ir::Disconnect(s, Some(t)));
        let u = b.push(Ir::Unit);
        let root = b.push(Ir::Comp(d, u));
        Prog { nodes: b.nodes, root, family: Family::Elements }
    };
    let no_wit: HashMap<Id, Value> = HashMap::new();
    // pass 1 (K = 0): learn the root of T as the Rust library computes it
    let mut s1 = src.clone();
    let probe = build(&mut s1, &vec![false; 256]);
    let probe_redeem = build_redeem(&probe, true, &no_wit).map_err(|e| harness_error(format!("delegation probe: {:?}; {}", e, probe.render())))?;
    let mut t_cmr = None;
    for d in simplicity::dag::DagLike::post_order_iter::<simplicity::dag::InternalSharing>(probe_redeem.as_ref()) {
        if let simplicity::node::Inner::Disconnect(_, r) = d.node.inner() {
            t_cmr = Some(r.cmr().to_byte_array());
        }
    }
    let t_cmr = t_cmr.ok_or_else(|| harness_error("delegation probe has no disconnect node"))?;
    let mut k: Vec<bool> = t_cmr.iter().flat_map(|b| (0..8).rev().map(move |i| (b >> i) & 1 == 1)).collect();
    if mutate {
        k[flip] = !k[flip];
    }
    cx.label(if mutate { "K = cmr(T) with one bit flipped (must fail)" } else { "K = cmr(T) (must succeed)" });
    cx.label(if use_verify { "check by verify jet" } else { "check by assertr" });
    let prog = build(&mut src, &k);
    cx.src = src;
    let redeem = build_redeem(&prog, true, &no_wit).map_err(|e| harness_error(format!("delegation program: {:?}; {}", e, prog.render())))?;
    let predicted = if !mutate {
        Verdict::Success
    } else if use_verify {
        Verdict::JetFailure
    } else {
        Verdict::Assertion
    };
    cx.set_sample(|| json!({"mode": "disconnect delegation", "predicted": format!("{:?}", predicted), "program": prog.render()}));
    let describe = || format!("delegation template (predicted {:?}); program {}", predicted, prog.render());
    let rust = compare(cx, &redeem, env, espec, &describe)?;
    if !matches!(rust, Verdict::Outside(_)) && rust != predicted {
        return Err(format!("the Rust machine hands the disconnected branch's root to the left child incorrectly: predicted {:?}, got {:?}; {}", predicted, rust, describe()));
    }
    cx.nontrivial = cx.labels.iter().any(|l| *l == "verdicts compared");
    Ok(())
}

/// One shared case node executed twice on one frame (`pair (take c) (drop c)` over X x X with
/// X = (A + B) x C, |A| != |B|), first to the right and then to the left (or as drawn), followed
/// by another read of the same frame whose outcome decides the verdict (the first X is compared
/// with a constant).  An evaluator that restores the read cursor after a case by the wrong
/// padding, or remembers the side of an earlier execution of the node, reads shifted bits.
fn mode_case_twice(cx: &mut Case, pre: &Pre, espec: &EnvSpec, env: &ElementsTxEnv) -> CaseResult {
    cx.label("mode: shared case executed twice, frame read again");
    let mut st = Src::new(&pre.style);
    let use_verify = st.chance(110);
    let mutate = st.chance(70);
    let mut hidden = [0u8; 32];
    for b in hidden.iter_mut() {
        *b = st.u8();
    }
    let palette = |s: &mut Src| -> Arc<RTy> {
        match s.below(7) {
            0 => RTy::unit(),
            1 => RTy::two(),
            2 => RTy::word(1),
            3 => RTy::word(3),
            4 => RTy::prod(RTy::two(), RTy::word(2)),
            5 => RTy::sum(RTy::unit(), RTy::word(2)),
            _ => RTy::word(4),
        }
    };
    let mut a = palette(&mut st);
    let bt = palette(&mut st);
    if a.width == bt.width {
        a = RTy::prod(a, RTy::two());
    }
    let c = palette(&mut st);
    let x = RTy::prod(RTy::sum(a.clone(), bt.clone()), c.clone());
    let mut src = cx.src.clone();
    let side = |right: bool, src: &mut Src| -> RVal {
        let tag = if right { RVal::r(gen_val(src, &bt)) } else { RVal::l(gen_val(src, &a)) };
        RVal::pair(tag, gen_val(src, &c))
    };
    let order = st.below(4); // 0,1: right then left; 2: left then right; 3: drawn
    let (r1, r2) = match order {
        0 | 1 => (true, false),
        2 => (false, true),
        _ => (st.bool(), st.bool()),
    };
    let x1 = side(r1, &mut src);
    let x2 = side(r2, &mut src);
    cx.label_if(r1 && !r2, "case taken right, then left");
    let xx = RTy::prod(x.clone(), x.clone());
    let wv = RVal::pair(x1.clone(), x2.clone());
    let mut expected = x1.clone();
    if mutate {
        let mut bits = compact_bits(&x, &x1);
        if !bits.is_empty() {
            let i = st.below(bits.len());
            bits[i] = !bits[i];
            if let Some((m, used)) = parse_compact(&x, &bits) {
                if used == bits.len() && m != x1 {
                    expected = m;
                }
            }
        }
    }
    let differs = expected != x1;
    let mut b = B { nodes: vec![], eq_memo: vec![] };
    let mut witnesses: HashMap<Id, Value> = HashMap::new();
    let w = b.push(Ir::Witness);
    witnesses.insert(w, value_of(&xx, &wv));
    let l = b.push(Ir::Unit);
    let r = b.push(Ir::Unit);
    let cn = b.push(Ir::Case(l, r));
    let tk = b.push(Ir::Take(cn));
    let dr = b.push(Ir::Drop(cn));
    let both = b.push(Ir::Pair(tk, dr));
    let i = b.push(Ir::Iden);
    let first = b.push(Ir::Take(i));
    let u0 = b.push(Ir::Unit);
    let k = b.constant(&mut src, &x, &expected);
    let kc = b.push(Ir::Comp(u0, k));
    let p = b.push(Ir::Pair(first, kc));
    let e = b.eq(&x);
    let tested = b.push(Ir::Comp(p, e));
    let (check, fail_kind) = if use_verify {
        let vj = b.push(Ir::Jet(JetRef::Elements(Elements::Verify)));
        (b.push(Ir::Comp(tested, vj)), Verdict::JetFailure)
    } else {
        let u1 = b.push(Ir::Unit);
        let pp = b.push(Ir::Pair(tested, u1));
        let u2 = b.push(Ir::Unit);
        let asr = b.push(Ir::AssertR(hidden, u2));
        (b.push(Ir::Comp(pp, asr)), Verdict::Assertion)
    };
    let body = b.push(Ir::Pair(both, check));
    let run = b.push(Ir::Comp(w, body));
    let un = b.push(Ir::Unit);
    let root = b.push(Ir::Comp(run, un));
    cx.src = src;
    let prog = Prog { nodes: b.nodes, root, family: Family::Elements };
    let redeem = build_redeem(&prog, true, &witnesses).map_err(|e| harness_error(format!("case-twice program: {:?}; {}", e, prog.render())))?;
    let predicted = if differs { fail_kind } else { Verdict::Success };
    cx.set_sample(|| json!({"mode": "case twice", "X": x.show_short(), "witness": wv.show_short(&xx), "predicted": format!("{:?}", predicted), "program": prog.render()}));
    let describe = || format!("case-twice template over X = {} with witness {} (predicted {:?}); program {}", x.show_short(), wv.show_short(&xx), predicted, prog.render());
    let rust = compare(cx, &redeem, env, espec, &describe)?;
    if !matches!(rust, Verdict::Outside(_)) && rust != predicted {
        return Err(format!("the Rust machine reads the frame differently after a shared case node ran twice: predicted {:?}, got {:?}; {}", predicted, rust, describe()));
    }
    cx.nontrivial = cx.labels.iter().any(|l| *l == "verdicts compared");
    Ok(())
}

pub fn case(cx: &mut Case) -> CaseResult {
    let template = cx.src.weighted(&[3, 7]) == 1;
    let n_jets = JETS.with(|j| j.len());
    let mut pre = Pre { jet: (cx.src.u16() as usize * n_jets) >> 16, style: [0; 320] };
    xorshift_bytes(cx.src.u64(), &mut pre.style);
    let espec = gen_env(&mut cx.src);
    let env = espec.build();
    cx.label_if(espec.tx.input.len() >= 2, "env: >= 2 inputs");
    cx.label_if(!espec.tx.output.is_empty(), "env: has outputs");
    if template && pre.style[319] < 26 {
        mode_delegation(cx, &pre, &espec, &env)
    } else if template && pre.style[318] < 24 {
        mode_case_twice(cx, &pre, &espec, &env)
    } else if template {
        mode_template(cx, &pre, &espec, &env)
    } else {
        mode_general(cx, &espec, &env)
    }
}
