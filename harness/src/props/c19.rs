//! C19 Budget padding is sufficient and minimal.

use crate::engine::*;
use serde_json::json;
use simplicity::bitcoin::Weight;
use simplicity::Cost;

pub const SPEC: Spec = Spec {
    rule: "a witness stack (item counts 0..3, 251..254, 65534..65537; item sizes 0..3, 251..254, 65534..65537, random; built from a shape index) and a cost = (budget+deficit)*1000 - r; fixed part enumerates every deficit in 0..=600 and 65000..=66200 with r in {0,1,999} for 14 stack shapes, random part draws deficits up to the consensus maximum. Oracle: from-scratch compact-size serialised length. Non-trivial: deficit > 0 (padding required). Distinct by (shape, deficit, r).",
    design_ref: "§6 C19",
    max_len: 64,
    quick_cases: 20_000,
    thorough_cases: 400_000,
    fixed: Some(fixed),
    ..Spec::base("C19", "Budget padding is sufficient and minimal", case)
};

const N_SHAPES: usize = 14;

/// (item count, size of the first item, size of the other items)
fn shape(idx: usize) -> (usize, usize, usize) {
    match idx {
        0 => (0, 0, 0),
        1 => (1, 0, 0),
        2 => (1, 252, 0),
        3 => (1, 253, 0),
        4 => (2, 65535, 1),
        5 => (2, 65536, 33),
        6 => (3, 64, 32),
        7 => (251, 1, 0),
        8 => (252, 0, 0),
        9 => (253, 2, 1),
        10 => (254, 0, 3),
        11 => (65535, 0, 0),
        12 => (65536, 1, 0),
        _ => (4, 300, 70),
    }
}

fn build_stack(n: usize, first: usize, rest: usize) -> Vec<Vec<u8>> {
    (0..n).map(|i| vec![0xabu8; if i == 0 { first } else { rest }]).collect()
}

fn compact_len(n: u64) -> u64 {
    if n <= 252 {
        1
    } else if n <= 0xffff {
        3
    } else if n <= 0xffff_ffff {
        5
    } else {
        9
    }
}

/// Consensus-serialised length of a witness stack, from the definition.
fn stack_len(stack: &[Vec<u8>]) -> u64 {
    compact_len(stack.len() as u64) + stack.iter().map(|i| compact_len(i.len() as u64) + i.len() as u64).sum::<u64>()
}

fn fixed(tier: Tier, emit: &mut dyn FnMut(&[u8])) {
    let shapes: Vec<usize> = match tier {
        Tier::Quick => (0..N_SHAPES).collect(),
        Tier::Thorough => (0..N_SHAPES).collect(),
    };
    let mut ranges: Vec<(u32, u32)> = vec![(0, 600), (65000, 66200)];
    if tier == Tier::Thorough {
        ranges.push((600, 5000));
        ranges.push((60000, 70000));
    }
    for s in shapes {
        for (lo, hi) in &ranges {
            // the two huge stacks are expensive to rebuild: sample them more thinly
            let step = if s == 11 || s == 12 { 7 } else { 1 };
            let mut d = *lo;
            while d <= *hi {
                for r in [0u16, 1, 999] {
                    let mut st = vec![0u8, s as u8];
                    st.extend_from_slice(&d.to_be_bytes());
                    st.extend_from_slice(&r.to_be_bytes());
                    emit(&st);
                }
                d += step;
            }
        }
    }
}

fn cost_value(c: Cost) -> u64 {
    c.to_string().parse::<u64>().expect("Cost displays as an integer")
}

pub fn case(cx: &mut Case) -> CaseResult {
    let mode = cx.src.below(3);
    let (n, first, rest, shape_id);
    let deficit: u64;
    let r: u64;
    if mode == 0 {
        let s = (cx.src.u8() as usize).min(N_SHAPES - 1);
        let sh = shape(s);
        n = sh.0;
        first = sh.1;
        rest = sh.2;
        shape_id = s as u64;
        // exact for the enumerated windows; random streams landing here are folded down so
        // that multi-megabyte annexes stay rare (they are drawn explicitly in the other mode)
        let d = cx.src.u32() as u64;
        deficit = if d > (1 << 20) { d >> 14 } else { d };
        r = (cx.src.u16() as u64).min(999);
        cx.label("mode: shape table");
    } else {
        let pick = |cx: &mut Case| -> usize {
            match cx.src.below(5) {
                0 => cx.src.range(0, 3),
                1 => cx.src.range(250, 255),
                2 => cx.src.range(0, 600),
                3 => cx.src.range(65533, 65538),
                _ => cx.src.range(0, 70000),
            }
        };
        // keep total size moderate: at most one large dimension
        let a = pick(cx);
        let b = pick(cx);
        if cx.src.bool() {
            n = a.max(1).min(70000);
            first = if n > 1000 { b % 4 } else { b };
            rest = if n > 1000 { 0 } else { cx.src.range(0, 40) };
        } else {
            n = (a % 300).max(1);
            first = b;
            rest = cx.src.range(0, 300);
        }
        shape_id = 1000 + ((n as u64) << 40) + ((first as u64) << 20) + rest as u64;
        deficit = match cx.src.weighted(&[2, 6, 4, 4, 2, 1]) {
            0 => 0,
            1 => cx.src.range(1, 600) as u64,
            2 => cx.src.range(240, 270) as u64,
            3 => cx.src.range(65500, 65560) as u64,
            4 => cx.src.range(0, 200_000) as u64,
            _ => cx.src.range(0, 4_000_000) as u64,
        };
        r = match cx.src.below(4) {
            0 => 0,
            1 => 1,
            2 => 999,
            _ => cx.src.range(0, 999) as u64,
        };
        cx.label("mode: random stack");
    }
    let stack = build_stack(n, first, rest);
    let len = stack_len(&stack);
    let budget = len + 50;
    // cost = (budget + deficit) * 1000 - r, clamped to the consensus maximum
    let consensus_max = cost_value(Cost::CONSENSUS_MAX);
    let mut cost = ((budget + deficit) * 1000).saturating_sub(r);
    if cost > consensus_max {
        cost = consensus_max;
    }
    let weight = cost.div_ceil(1000); // round up
    let c = Cost::from_milliweight(cost as u32);
    cx.fp.write_u64(shape_id);
    cx.fp.write_u64(cost);
    let need = weight > budget;
    cx.nontrivial = need;
    cx.label_if(need, "padding needed");
    cx.label_if(!need, "within budget");
    cx.label_if(n == 252 || n == 65535, "item count on compact-size boundary");
    cx.set_sample(|| json!({"items": n, "first_item_len": first, "other_item_len": rest, "serialized_len": len, "cost_milliweight": cost, "weight": weight, "budget": budget}));

    if !c.is_consensus_valid() {
        return Err(format!("cost {} <= CONSENSUS_MAX reported as not consensus valid", cost));
    }
    // 1. validity
    let valid = c.is_budget_valid(&stack);
    if valid != (weight <= budget) {
        return Err(format!("is_budget_valid = {} for cost {} (weight {}) and stack of serialised length {} (budget {})", valid, cost, weight, len, budget));
    }
    // 2. padding
    let pad = c.get_padding(&stack);
    match (&pad, need) {
        (None, false) => {}
        (None, true) => return Err(format!("get_padding returned None although weight {} > budget {}", weight, budget)),
        (Some(_), false) => return Err(format!("get_padding returned padding although weight {} <= budget {}", weight, budget)),
        (Some(annex), true) => {
            if annex.first() != Some(&0x50) {
                return Err(format!("annex does not start with 0x50: {:?}", &annex[..annex.len().min(4)]));
            }
            if annex[1..].iter().any(|b| *b != 0) {
                return Err("annex padding bytes are not all zero".into());
            }
            cx.label_if(annex.len() >= 253, "annex >= 253 bytes");
            cx.label_if(annex.len() >= 65536, "annex >= 65536 bytes");
            let mut padded = stack.clone();
            padded.push(annex.clone());
            let plen = stack_len(&padded);
            if weight > plen + 50 {
                return Err(format!("padding of {} bytes is insufficient: weight {} > padded budget {}", annex.len(), weight, plen + 50));
            }
            if !c.is_budget_valid(&padded) {
                return Err(format!("cost {} still not budget-valid after appending the returned annex of {} bytes", cost, annex.len()));
            }
            if c.get_padding(&padded).is_some() {
                return Err("get_padding on the padded stack asks for more padding".into());
            }
            // minimality (unless the item count sits on a compact-size boundary)
            if n != 252 && n != 65535 && annex.len() > 1 {
                let mut shorter = stack.clone();
                shorter.push(annex[..annex.len() - 1].to_vec());
                let slen = stack_len(&shorter);
                if weight <= slen + 50 {
                    return Err(format!("padding is not minimal: an annex of {} bytes (one shorter) already gives budget {} >= weight {}", annex.len() - 1, slen + 50, weight));
                }
                if c.is_budget_valid(&shorter) {
                    return Err("library reports a one-byte-shorter annex as sufficient".into());
                }
                cx.label("minimality checked");
            }
        }
    }
    // 3. conversions: round up, monotone
    let w: Weight = c.into();
    if w.to_wu() != weight {
        return Err(format!("Weight::from(Cost {}) = {}, expected ceil = {}", cost, w.to_wu(), weight));
    }
    let back = Cost::from(w);
    let bv = cost_value(back);
    if bv < cost || bv >= cost + 1000 || bv != weight * 1000 {
        return Err(format!("Cost::from(Weight {}) = {}, expected {}", weight, bv, weight * 1000));
    }
    if cost > 0 {
        let w2: Weight = Cost::from_milliweight((cost - 1) as u32).into();
        if w2 > w {
            return Err(format!("weight conversion not monotone at {}", cost));
        }
    }
    if cost < u32::MAX as u64 {
        let w3: Weight = Cost::from_milliweight((cost + 1) as u32).into();
        if w3 < w {
            return Err(format!("weight conversion not monotone at {}", cost));
        }
    }
    if Weight::from(Cost::from(Weight::from_wu(weight))).to_wu() != weight {
        return Err(format!("Weight -> Cost -> Weight not identity at {}", weight));
    }
    // Weight -> Cost is monotone on the whole domain of Weight (u64 weight units), including
    // weights that no longer fit the 32-bit cost: w1 <= w2 => Cost(w1) <= Cost(w2)
    {
        let marks: [u64; 10] = [0, (u32::MAX / 1000) as u64, u32::MAX as u64 / 2, u32::MAX as u64, 1 << 32, (1 << 32) + 52, 1 << 33, 1 << 40, u64::MAX / 2, u64::MAX];
        let base = marks[cx.src.below(marks.len())];
        let w1 = match cx.src.below(3) {
            0 => base,
            1 => base.saturating_sub(cx.src.below(3000) as u64),
            _ => base.saturating_add(cx.src.below(3000) as u64),
        };
        let delta = match cx.src.below(3) {
            0 => cx.src.below(4) as u64,
            1 => cx.src.below(100_000) as u64,
            _ => cx.src.u64() >> cx.src.below(64),
        };
        let w2 = w1.saturating_add(delta);
        let (c1, c2) = (cost_value(Cost::from(Weight::from_wu(w1))), cost_value(Cost::from(Weight::from_wu(w2))));
        cx.label_if(w2 > u32::MAX as u64, "conversion of a weight above 2^32 - 1 checked");
        if c1 > c2 {
            return Err(format!("Cost::from(Weight) is not monotone: weight {} gives cost {}, the larger weight {} gives the smaller cost {}", w1, c1, w2, c2));
        }
    }
    Ok(())
}
