//! C11 Value equality, ordering and hashing are semantic.

use crate::engine::*;
use crate::gen::types::gen_ty;
use crate::gen::values::*;
use crate::model::bits::pack;
use crate::model::layout::*;
use serde_json::json;
use simplicity::Value;
use std::cmp::Ordering;
use std::hash::{Hash, Hasher};
use std::sync::Arc;

pub const SPEC: Spec = Spec {
    rule: "a type from G-ty (width <= 600), three model values of it (b is drawn equal to a, a one-leaf mutation of a, or independent; c independent or equal to b), each materialised through an independently drawn production history (constructors, word constructors, both decoders with garbage padding, sub-value extraction at arbitrary bit offsets, prune, Value::zero, Bit Machine output); plus cross-type pairs and Word wrappers. Oracle: a == b <=> same model type and same model tree; equal => equal std Hash (DefaultHasher with fixed keys); cmp is reflexive, antisymmetric, transitive on the triple and Equal <=> ==. Non-trivial: the pair denotes the same element, the histories differ and the raw byte iterators of the two values differ (padding, offset or trailing bits). Distinct by (type, values, histories).",
    design_ref: "§6 C11",
    max_len: 500,
    quick_cases: 400_000,
    thorough_cases: 1_500_000,
    ..Spec::base("C11", "Value equality, ordering and hashing are semantic", case)
};

fn std_hash<T: Hash>(t: &T) -> u64 {
    #[allow(deprecated)]
    let mut h = std::hash::SipHasher::new_with_keys(0x0123456789abcdef, 0xfedcba9876543210);
    t.hash(&mut h);
    h.finish()
}

fn mutate(src: &mut Src, ty: &RTy, v: &RVal) -> RVal {
    // flip one sum tag somewhere (regenerating the subtree below it), if any
    match (&ty.kind, v) {
        (RTyKind::Unit, _) => RVal::Unit,
        (RTyKind::Sum(a, b), RVal::L(x)) => {
            if src.chance(120) || a.is_unit() {
                RVal::r(gen_val(src, b))
            } else {
                RVal::l(mutate(src, a, x))
            }
        }
        (RTyKind::Sum(a, b), RVal::R(x)) => {
            if src.chance(120) || b.is_unit() {
                RVal::l(gen_val(src, a))
            } else {
                RVal::r(mutate(src, b, x))
            }
        }
        (RTyKind::Prod(a, b), RVal::Pair(x, y)) => {
            let go_left = if a.width == 0 { false } else if b.width == 0 { true } else { src.bool() };
            if go_left {
                RVal::pair(mutate(src, a, x), (**y).clone())
            } else {
                RVal::pair((**x).clone(), mutate(src, b, y))
            }
        }
        _ => v.clone(),
    }
}

struct Built {
    ty: Arc<RTy>,
    val: RVal,
    value: Value,
    tr: Trace,
}

pub fn case(cx: &mut Case) -> CaseResult {
    let wcap = match cx.src.below(3) {
        0 => 12,
        1 => 80,
        _ => 600,
    };
    let ty = gen_ty(&mut cx.src, wcap, 0);
    let va = gen_val(&mut cx.src, &ty);
    let vb_ = match cx.src.below(3) {
        0 => va.clone(),
        1 => mutate(&mut cx.src, &ty, &va),
        _ => gen_val(&mut cx.src, &ty),
    };
    // third element: same type usually, sometimes another type
    let (tyc, vc) = if cx.src.chance(40) {
        let t = gen_ty(&mut cx.src, wcap, 0);
        let v = gen_val(&mut cx.src, &t);
        (t, v)
    } else if cx.src.bool() {
        (ty.clone(), vb_.clone())
    } else {
        (ty.clone(), gen_val(&mut cx.src, &ty))
    };
    let mut builder = ValBuilder::new();
    let mut src = cx.src.clone();
    let mut mk = |t: &Arc<RTy>, v: &RVal, src: &mut Src| {
        let mut tr = Trace::default();
        let value = builder.build(src, t, v, 0, &mut tr);
        Built { ty: t.clone(), val: v.clone(), value, tr }
    };
    let a = mk(&ty, &va, &mut src);
    let b = mk(&ty, &vb_, &mut src);
    let c = mk(&tyc, &vc, &mut src);
    cx.src = src;
    for x in [&a, &b, &c] {
        for h in &x.tr.used {
            cx.label(h.name());
        }
        cx.fp.write(x.ty.show().as_bytes());
        cx.fp.write(&pack(&compact_bits(&x.ty, &x.val)));
        for h in &x.tr.used {
            cx.fp.write_u64(*h as u64);
        }
    }
    // Relatives of `a` of ANOTHER type that share its buffer at the same bit offset (or whose
    // buffer `a` shares): the components of a product, and `a` wrapped into a product with unit.
    // Equality must still be decided by type and content, never by where the bits live.
    let mut relatives: Vec<Built> = vec![];
    if let (RTyKind::Prod(x, y), RVal::Pair(vx, vy)) = (&ty.kind, &va) {
        if let Some((l, r)) = a.value.as_product() {
            relatives.push(Built { ty: x.clone(), val: (**vx).clone(), value: l.to_value(), tr: Trace::default() });
            relatives.push(Built { ty: y.clone(), val: (**vy).clone(), value: r.to_value(), tr: Trace::default() });
        }
    }
    relatives.push(Built { ty: RTy::prod(ty.clone(), RTy::unit()), val: RVal::pair(va.clone(), RVal::Unit), value: Value::product(a.value.shallow_clone(), Value::unit()), tr: Trace::default() });
    relatives.push(Built { ty: RTy::prod(RTy::unit(), ty.clone()), val: RVal::pair(RVal::Unit, va.clone()), value: Value::product(Value::unit(), a.value.shallow_clone()), tr: Trace::default() });
    cx.label("buffer-sharing relatives of another type compared");
    let mut all: Vec<&Built> = vec![&a, &b, &c];
    all.extend(relatives.iter());
    let model_eq = |x: &Built, y: &Built| *x.ty == *y.ty && x.val == y.val;
    let raw_differs = |x: &Built, y: &Built| !x.value.raw_byte_iter().eq(y.value.raw_byte_iter());
    let same_ab = model_eq(&a, &b);
    cx.label_if(same_ab, "pair: same element");
    cx.label_if(!same_ab, "pair: different elements");
    let hist_differ = a.tr.used != b.tr.used;
    cx.nontrivial = same_ab && hist_differ && raw_differs(&a, &b);
    cx.label_if(cx.nontrivial, "pair: same element, raw buffers differ");
    cx.set_sample(|| {
        json!({
            "type": ty.show_short(),
            "a": va.show_short(&ty), "a_histories": a.tr.used.iter().map(|h| h.name()).collect::<Vec<_>>(),
            "b": vb_.show_short(&ty), "b_histories": b.tr.used.iter().map(|h| h.name()).collect::<Vec<_>>(),
            "a_raw": hex(&a.value.raw_byte_iter().collect::<Vec<u8>>()), "b_raw": hex(&b.value.raw_byte_iter().collect::<Vec<u8>>()),
        })
    });

    // sanity: the histories produced what they should (otherwise the oracle below is moot)
    for x in all.iter() {
        super::c10::check_denotes("built value", &x.value, &x.ty, &x.val).map_err(|e| format!("(value layout, see C10) {}", e))?;
    }

    // The known finding F3 is keyed on the case, not on the failure: a pair is affected iff the
    // two values denote the same element but their raw byte iterators differ (padding bits,
    // bits beyond the width in the last byte, or buffer offsets).
    for (i, x) in all.iter().enumerate() {
        for (j, y) in all.iter().enumerate() {
            let meq = model_eq(x, y);
            let leq = x.value == y.value;
            let affected = meq && raw_differs(x, y);
            if meq != leq {
                let what = format!(
                    "values #{} and #{} of type {}: model says {}, == says {} (a = {}, b = {}; raw bytes {} vs {}; histories {:?} vs {:?})",
                    i, j, x.ty.show_short(), if meq { "equal" } else { "different" }, leq,
                    x.val.show_short(&x.ty), y.val.show_short(&y.ty),
                    hex(&x.value.raw_byte_iter().collect::<Vec<u8>>()), hex(&y.value.raw_byte_iter().collect::<Vec<u8>>()),
                    x.tr.used, y.tr.used
                );
                if affected {
                    cx.known_or_fail("eq-on-raw-bytes-same-element-different-buffers", || what)?;
                    continue;
                } else {
                    return Err(what);
                }
            }
            // Equal => equal hashes
            if meq {
                let (hx, hy) = (std_hash(&x.value), std_hash(&y.value));
                if hx != hy {
                    let what = format!("equal values #{} #{} of type {} hash differently", i, j, x.ty.show_short());
                    if affected {
                        cx.known_or_fail("eq-on-raw-bytes-same-element-different-buffers", || what)?;
                    } else {
                        return Err(what);
                    }
                }
            }
            // cmp: Equal <=> ==  (semantic), antisymmetric
            let o = x.value.cmp(&y.value);
            let o2 = y.value.cmp(&x.value);
            if o != o2.reverse() {
                return Err(format!("cmp not antisymmetric on #{} #{}: {:?} vs {:?}", i, j, o, o2));
            }
            if (o == Ordering::Equal) != meq {
                let what = format!("cmp of #{} #{} is {:?} but the model says {}", i, j, o, if meq { "equal" } else { "different" });
                if affected {
                    cx.known_or_fail("eq-on-raw-bytes-same-element-different-buffers", || what)?;
                } else {
                    return Err(what);
                }
            }
            if x.value.partial_cmp(&y.value) != Some(o) {
                return Err("partial_cmp disagrees with cmp".into());
            }
        }
    }
    // transitivity on the triple (all permutations)
    let vals = [&a.value, &b.value, &c.value];
    for p in [[0, 1, 2], [0, 2, 1], [1, 0, 2], [1, 2, 0], [2, 0, 1], [2, 1, 0]] {
        let (x, y, z) = (vals[p[0]], vals[p[1]], vals[p[2]]);
        if x.cmp(y) != Ordering::Greater && y.cmp(z) != Ordering::Greater && x.cmp(z) == Ordering::Greater {
            // if any two of them denote the same element through different buffers the failure
            // is a consequence of F3
            let any_affected = all.iter().any(|u| all.iter().any(|w| model_eq(u, w) && raw_differs(u, w)));
            let what = "cmp is not transitive on the triple".to_string();
            if any_affected {
                cx.known_or_fail("eq-on-raw-bytes-same-element-different-buffers", || what)?;
            } else {
                return Err(what);
            }
        }
    }
    // Words of every size among the values at hand (including components of `a` and words of
    // other sizes): partial_cmp, cmp and == are one consistent total order
    {
        let mut words: Vec<simplicity::Word> = all.iter().filter_map(|x| x.value.to_word()).collect();
        for extra in [simplicity::Word::u1(0), simplicity::Word::u2(0), simplicity::Word::u8(0), simplicity::Word::u16(1)] {
            words.push(extra);
        }
        for x in &words {
            for y in &words {
                let o = x.cmp(y);
                if x.partial_cmp(y) != Some(o) {
                    return Err(format!("Word::partial_cmp ({:?}) disagrees with Word::cmp ({:?}) on {} vs {}", x.partial_cmp(y), o, x, y));
                }
                if o != y.cmp(x).reverse() {
                    return Err(format!("Word::cmp is not antisymmetric on {} vs {}", x, y));
                }
                if (o == Ordering::Equal) != (x == y) {
                    return Err(format!("Word::cmp is {:?} but == is {} on {} vs {}", o, x == y, x, y));
                }
            }
        }
    }
    // Word wrappers delegate to the value
    if let (Some(wa), Some(wb)) = (a.value.to_word(), b.value.to_word()) {
        cx.label("word pair");
        let meq = model_eq(&a, &b);
        if (wa == wb) != meq || ((wa.cmp(&wb) == Ordering::Equal) != meq) || (meq && std_hash(&wa) != std_hash(&wb)) {
            let what = format!("Word equality/order/hash disagree with the model on {} vs {}", va.show_short(&ty), vb_.show_short(&ty));
            if meq && raw_differs(&a, &b) {
                cx.known_or_fail("eq-on-raw-bytes-same-element-different-buffers", || what)?;
            } else {
                return Err(what);
            }
        }
    }
    Ok(())
}
