//! C18 DAG iteration visits every node once, children first, with true indices.

use crate::engine::*;
use serde_json::json;
use simplicity::dag::{Dag, DagLike, InternalSharing, NoSharing, SharingTracker};
use std::collections::HashMap;

pub const SPEC: Spec = Spec {
    rule: "own DagLike implementation over bare shapes (node i is nullary/unary/binary with children < i, root = last node): exhaustively every shape with <= 6 nodes (7 in thorough) and random shapes up to 300 nodes with diamonds, child-and-grandchild sharing, repeated children and unary chains; trackers: NoSharing (expansion capped at 20000 items), InternalSharing, and a class tracker (identity-hash sharing modelled by the coarsest label-respecting structural equivalence, labels drawn per node). Oracle: recursive specification with a seen-set + an independent validity predicate (consecutive indices, children yielded before and at the reported indices). Non-trivial: some reachable node has in-degree >= 2. Distinct by (shape, labels).",
    design_ref: "§6 C18",
    max_len: 1200,
    quick_cases: 20_000,
    thorough_cases: 400_000,
    fixed: Some(fixed),
    ..Spec::base("C18", "DAG iteration visits every node once, children first, with true indices", case)
};

#[derive(Clone, Copy, Debug, PartialEq, Eq, Hash)]
pub enum Sh {
    N,
    U(usize),
    B(usize, usize),
}

#[derive(Clone, Copy)]
pub struct ShapeRef<'a> {
    nodes: &'a [Sh],
    classes: &'a [usize],
    idx: usize,
}

impl<'a> DagLike for ShapeRef<'a> {
    type Node = Sh;
    fn data(&self) -> &Sh {
        &self.nodes[self.idx]
    }
    fn as_dag_node(&self) -> Dag<Self> {
        let mk = |i| ShapeRef { nodes: self.nodes, classes: self.classes, idx: i };
        match self.nodes[self.idx] {
            Sh::N => Dag::Nullary,
            Sh::U(c) => Dag::Unary(mk(c)),
            Sh::B(l, r) => Dag::Binary(mk(l), mk(r)),
        }
    }
}

/// Sharing by class id (models identity-hash sharing).
#[derive(Default, Clone)]
pub struct ClassSharing {
    map: HashMap<usize, usize>,
}

impl<'a> SharingTracker<ShapeRef<'a>> for ClassSharing {
    fn record(&mut self, d: &ShapeRef<'a>, index: usize) -> Option<usize> {
        let c = d.classes[d.idx];
        match self.map.get(&c) {
            Some(i) => Some(*i),
            None => {
                self.map.insert(c, index);
                None
            }
        }
    }
    fn seen_before(&self, d: &ShapeRef<'a>) -> Option<usize> {
        self.map.get(&d.classes[d.idx]).copied()
    }
}

// SwapChildren<D> needs its own impl for a custom tracker (as the crate does for MaxSharing).
impl<'a> SharingTracker<simplicity::dag::SwapChildren<ShapeRef<'a>>> for ClassSharing {
    fn record(&mut self, d: &simplicity::dag::SwapChildren<ShapeRef<'a>>, index: usize) -> Option<usize> {
        let idx = node_index_of(d.data(), d);
        let c = classes_of(d)[idx];
        match self.map.get(&c) {
            Some(i) => Some(*i),
            None => {
                self.map.insert(c, index);
                None
            }
        }
    }
    fn seen_before(&self, d: &simplicity::dag::SwapChildren<ShapeRef<'a>>) -> Option<usize> {
        let idx = node_index_of(d.data(), d);
        self.map.get(&classes_of(d)[idx]).copied()
    }
}

// SwapChildren hides its inner reference; recover the node index from the data pointer and the
// class table through a thread-local set for the duration of one rtl iteration.
thread_local! {
    static RTL_CTX: std::cell::RefCell<(usize, Vec<usize>)> = const { std::cell::RefCell::new((0, Vec::new())) };
}
fn node_index_of<D>(data: &Sh, _d: &D) -> usize {
    RTL_CTX.with(|c| {
        let base = c.borrow().0;
        (data as *const Sh as usize - base) / std::mem::size_of::<Sh>()
    })
}
fn classes_of<D>(_d: &D) -> Vec<usize> {
    RTL_CTX.with(|c| c.borrow().1.clone())
}

#[derive(Clone, Copy, PartialEq, Eq, Debug)]
enum Mode {
    No,
    Internal,
    Class,
}

#[derive(Clone, Debug, PartialEq, Eq)]
struct Item {
    node: usize,
    left: Option<usize>,
    right: Option<usize>,
}

struct SpecRun<'a> {
    nodes: &'a [Sh],
    classes: &'a [usize],
    mode: Mode,
    swap: bool,
    seen: HashMap<usize, usize>,
    out: Vec<Item>,
    cap: usize,
    overflow: bool,
}

impl<'a> SpecRun<'a> {
    fn key(&self, n: usize) -> Option<usize> {
        match self.mode {
            Mode::No => None,
            Mode::Internal => Some(n),
            Mode::Class => Some(self.classes[n]),
        }
    }
    /// Recursive specification of post-order with a seen-set.
    fn visit(&mut self, n: usize) -> usize {
        if self.overflow {
            return 0;
        }
        if let Some(k) = self.key(n) {
            if let Some(i) = self.seen.get(&k) {
                return *i;
            }
        }
        let (mut li, mut ri) = (None, None);
        match self.nodes[n] {
            Sh::N => {}
            Sh::U(c) => li = Some(self.visit(c)),
            Sh::B(l, r) => {
                if self.swap {
                    ri = Some(self.visit(r));
                    li = Some(self.visit(l));
                } else {
                    li = Some(self.visit(l));
                    ri = Some(self.visit(r));
                }
            }
        }
        if self.out.len() >= self.cap {
            self.overflow = true;
            return 0;
        }
        // (with class sharing an equal node may have been yielded inside the children only if
        // it were its own descendant's equal, which finite structures exclude)
        let i = self.out.len();
        self.out.push(Item { node: n, left: li, right: ri });
        if let Some(k) = self.key(n) {
            self.seen.insert(k, i);
        }
        i
    }
}

fn spec_post(nodes: &[Sh], classes: &[usize], mode: Mode, swap: bool, cap: usize) -> Option<Vec<Item>> {
    let mut s = SpecRun { nodes, classes, mode, swap, seen: HashMap::new(), out: vec![], cap, overflow: false };
    s.visit(nodes.len() - 1);
    if s.overflow {
        None
    } else {
        Some(s.out)
    }
}

fn spec_pre(nodes: &[Sh], classes: &[usize], mode: Mode, cap: usize) -> Option<Vec<usize>> {
    fn go(n: usize, nodes: &[Sh], classes: &[usize], mode: Mode, seen: &mut HashMap<usize, ()>, out: &mut Vec<usize>, cap: usize) -> bool {
        let key = match mode {
            Mode::No => None,
            Mode::Internal => Some(n),
            Mode::Class => Some(classes[n]),
        };
        if let Some(k) = key {
            if seen.contains_key(&k) {
                return true;
            }
            seen.insert(k, ());
        }
        if out.len() >= cap {
            return false;
        }
        out.push(n);
        match nodes[n] {
            Sh::N => true,
            Sh::U(c) => go(c, nodes, classes, mode, seen, out, cap),
            Sh::B(l, r) => go(l, nodes, classes, mode, seen, out, cap) && go(r, nodes, classes, mode, seen, out, cap),
        }
    }
    let mut out = vec![];
    if go(nodes.len() - 1, nodes, classes, mode, &mut HashMap::new(), &mut out, cap) {
        Some(out)
    } else {
        None
    }
}

#[derive(Clone, Debug, PartialEq, Eq)]
struct VItem {
    node: usize,
    parent: Option<usize>,
    index: usize,
    depth: usize,
    n_children_yielded: usize,
    is_complete: bool,
}

fn spec_verbose(nodes: &[Sh], classes: &[usize], mode: Mode, max_depth: Option<usize>, cap: usize) -> Option<Vec<VItem>> {
    struct St<'a> {
        nodes: &'a [Sh],
        classes: &'a [usize],
        mode: Mode,
        max_depth: Option<usize>,
        seen: HashMap<usize, ()>,
        out: Vec<VItem>,
        counter: usize,
        cap: usize,
        ok: bool,
    }
    fn go(s: &mut St, n: usize, depth: usize, parent: Option<usize>) {
        if !s.ok {
            return;
        }
        let key = match s.mode {
            Mode::No => None,
            Mode::Internal => Some(n),
            Mode::Class => Some(s.classes[n]),
        };
        if let Some(k) = key {
            if s.seen.contains_key(&k) {
                return;
            }
            s.seen.insert(k, ());
        }
        if s.out.len() >= s.cap {
            s.ok = false;
            return;
        }
        let index = s.counter;
        s.counter += 1;
        let (arity, l, r) = match s.nodes[n] {
            Sh::N => (0, 0, 0),
            Sh::U(c) => (1, c, 0),
            Sh::B(l, r) => (2, l, r),
        };
        let descend = match s.max_depth {
            None => true,
            Some(m) => depth < m,
        };
        s.out.push(VItem { node: n, parent, index, depth, n_children_yielded: 0, is_complete: arity == 0 });
        if arity >= 1 {
            if descend {
                go(s, l, depth + 1, Some(n));
            }
            s.out.push(VItem { node: n, parent, index, depth, n_children_yielded: 1, is_complete: arity == 1 });
        }
        if arity == 2 {
            if descend {
                go(s, r, depth + 1, Some(n));
            }
            s.out.push(VItem { node: n, parent, index, depth, n_children_yielded: 2, is_complete: true });
        }
    }
    let mut s = St { nodes, classes, mode, max_depth, seen: HashMap::new(), out: vec![], counter: 0, cap, ok: true };
    go(&mut s, nodes.len() - 1, 0, None);
    if s.ok {
        Some(s.out)
    } else {
        None
    }
}

/// Coarsest equivalence: two nodes are in the same class iff same label, same arity and
/// children in the same classes (structural hash-consing).
fn classes_from_labels(nodes: &[Sh], labels: &[u8]) -> Vec<usize> {
    let mut table: HashMap<(u8, u8, usize, usize), usize> = HashMap::new();
    let mut cls = vec![0usize; nodes.len()];
    for i in 0..nodes.len() {
        let key = match nodes[i] {
            Sh::N => (labels[i], 0u8, 0, 0),
            Sh::U(c) => (labels[i], 1, cls[c], 0),
            Sh::B(l, r) => (labels[i], 2, cls[l], cls[r]),
        };
        let next = table.len();
        cls[i] = *table.entry(key).or_insert(next);
    }
    cls
}

fn reachable(nodes: &[Sh]) -> Vec<bool> {
    let mut r = vec![false; nodes.len()];
    let mut st = vec![nodes.len() - 1];
    while let Some(n) = st.pop() {
        if r[n] {
            continue;
        }
        r[n] = true;
        match nodes[n] {
            Sh::N => {}
            Sh::U(c) => st.push(c),
            Sh::B(l, rr) => {
                st.push(l);
                st.push(rr);
            }
        }
    }
    r
}

fn index_of(nodes: &[Sh], d: &Sh) -> usize {
    (d as *const Sh as usize - nodes.as_ptr() as usize) / std::mem::size_of::<Sh>()
}

fn check_post<I>(what: &str, nodes: &[Sh], classes: &[usize], mode: Mode, want: &[Item], got: I) -> CaseResult
where
    I: Iterator<Item = (usize, usize, Option<usize>, Option<usize>)>,
{
    let mut n = 0usize;
    let mut yielded: Vec<usize> = vec![];
    for (node, index, li, ri) in got {
        if n >= want.len() {
            return Err(format!("{}: yields more than the {} expected items", what, want.len()));
        }
        let w = &want[n];
        // independent validity predicate first
        if index != n {
            return Err(format!("{}: item {} reports index {}", what, n, index));
        }
        let (al, ar) = match nodes[node] {
            Sh::N => (None, None),
            Sh::U(c) => (Some(c), None),
            Sh::B(l, r) => (Some(l), Some(r)),
        };
        for (side, actual, idx) in [("left", al, li), ("right", ar, ri)] {
            match (actual, idx) {
                (None, None) => {}
                (Some(child), Some(i)) => {
                    if i >= n {
                        return Err(format!("{}: item {} (node {}) reports {} child index {} which is not earlier", what, n, node, side, i));
                    }
                    let same = match mode {
                        Mode::Class => classes[yielded[i]] == classes[child],
                        _ => yielded[i] == child,
                    };
                    if !same {
                        return Err(format!("{}: item {} (node {}) reports {} child at index {} (node {}), actual child is node {}", what, n, node, side, i, yielded[i], child));
                    }
                }
                (a, i) => return Err(format!("{}: item {} (node {}) {} child {:?} reported as {:?}", what, n, node, side, a, i)),
            }
        }
        if w.node != node || w.left != li || w.right != ri {
            return Err(format!("{}: item {} is (node {}, {:?}, {:?}), specification says (node {}, {:?}, {:?})", what, n, node, li, ri, w.node, w.left, w.right));
        }
        yielded.push(node);
        n += 1;
        if n > 50_000 {
            return Err(format!("{}: iterator does not stop", what));
        }
    }
    if n != want.len() {
        return Err(format!("{}: yielded {} items, expected {}", what, n, want.len()));
    }
    Ok(())
}

fn check_shape(cx: &mut Case, nodes: &[Sh], labels: &[u8]) -> CaseResult {
    let classes = classes_from_labels(nodes, labels);
    let root = ShapeRef { nodes, classes: &classes, idx: nodes.len() - 1 };
    let reach = reachable(nodes);
    let mut indeg = vec![0usize; nodes.len()];
    for (i, n) in nodes.iter().enumerate() {
        if reach[i] {
            match *n {
                Sh::N => {}
                Sh::U(c) => indeg[c] += 1,
                Sh::B(l, r) => {
                    indeg[l] += 1;
                    indeg[r] += 1;
                }
            }
        }
    }
    let shared = indeg.iter().any(|d| *d >= 2);
    cx.nontrivial = shared;
    cx.label_if(shared, "has node with in-degree >= 2");
    cx.label_if(nodes.iter().any(|n| matches!(n, Sh::B(l, r) if l == r)), "repeated child");
    let n_reach = reach.iter().filter(|b| **b).count();
    let mut cls_reach: Vec<usize> = (0..nodes.len()).filter(|i| reach[*i]).map(|i| classes[i]).collect();
    cls_reach.sort();
    cls_reach.dedup();
    cx.label_if(cls_reach.len() < n_reach, "class sharing merges distinct nodes");
    const CAP: usize = 20_000;

    for mode in [Mode::Internal, Mode::Class, Mode::No] {
        let name = match mode {
            Mode::No => "NoSharing",
            Mode::Internal => "InternalSharing",
            Mode::Class => "ClassSharing",
        };
        // post order
        if let Some(want) = spec_post(nodes, &classes, mode, false, CAP) {
            let f = |d: simplicity::dag::PostOrderIterItem<ShapeRef>| (d.node.idx, d.index, d.left_index, d.right_index);
            match mode {
                Mode::No => check_post(&format!("post_order<{}>", name), nodes, &classes, mode, &want, root.post_order_iter::<NoSharing>().map(f))?,
                Mode::Internal => check_post(&format!("post_order<{}>", name), nodes, &classes, mode, &want, root.post_order_iter::<InternalSharing>().map(f))?,
                Mode::Class => {
                    check_post(&format!("post_order<{}>", name), nodes, &classes, mode, &want, root.post_order_iter::<ClassSharing>().map(f))?;
                    check_post("post_order_iter_with_tracker", nodes, &classes, mode, &want, root.post_order_iter_with_tracker(ClassSharing::default()).map(f))?;
                }
            }
            // is_shared_as
            let expect = match mode {
                Mode::Internal => true,
                Mode::Class => cls_reach.len() == n_reach,
                Mode::No => !shared,
            };
            let got = match mode {
                Mode::No => root.is_shared_as::<NoSharing>(),
                Mode::Internal => root.is_shared_as::<InternalSharing>(),
                Mode::Class => root.is_shared_as::<ClassSharing>(),
            };
            if got != expect {
                return Err(format!("is_shared_as::<{}> = {}, expected {} (reachable nodes {}, classes {}, shared pointers {})", name, got, expect, n_reach, cls_reach.len(), shared));
            }
        } else {
            cx.label("NoSharing expansion above cap (skipped)");
        }
        // right-to-left post order = mirror image with true left/right indices
        if let Some(want) = spec_post(nodes, &classes, mode, true, CAP) {
            let f = |d: simplicity::dag::PostOrderIterItem<ShapeRef>| (d.node.idx, d.index, d.left_index, d.right_index);
            match mode {
                Mode::No => check_post(&format!("rtl_post_order<{}>", name), nodes, &classes, mode, &want, root.rtl_post_order_iter::<NoSharing>().map(f))?,
                Mode::Internal => check_post(&format!("rtl_post_order<{}>", name), nodes, &classes, mode, &want, root.rtl_post_order_iter::<InternalSharing>().map(f))?,
                Mode::Class => {
                    RTL_CTX.with(|c| *c.borrow_mut() = (nodes.as_ptr() as usize, classes.clone()));
                    check_post(&format!("rtl_post_order<{}>", name), nodes, &classes, mode, &want, root.rtl_post_order_iter::<ClassSharing>().map(f))?
                }
            }
        }
        // pre order
        if let Some(want) = spec_pre(nodes, &classes, mode, CAP) {
            let got: Vec<usize> = match mode {
                Mode::No => root.pre_order_iter::<NoSharing>().take(CAP + 1).map(|d| d.idx).collect(),
                Mode::Internal => root.pre_order_iter::<InternalSharing>().take(CAP + 1).map(|d| d.idx).collect(),
                Mode::Class => root.pre_order_iter::<ClassSharing>().take(CAP + 1).map(|d| d.idx).collect(),
            };
            if got != want {
                return Err(format!("pre_order<{}> yields nodes {:?}, specification {:?}", name, &got[..got.len().min(40)], &want[..want.len().min(40)]));
            }
            // same set as post-order (as classes)
            if let Some(post) = spec_post(nodes, &classes, mode, false, CAP) {
                if mode != Mode::No {
                    let mut a: Vec<usize> = got.iter().map(|n| if mode == Mode::Class { classes[*n] } else { *n }).collect();
                    let mut b: Vec<usize> = post.iter().map(|i| if mode == Mode::Class { classes[i.node] } else { i.node }).collect();
                    a.sort();
                    b.sort();
                    if a != b {
                        return Err(format!("pre_order<{}> and post_order yield different sets", name));
                    }
                }
            }
        }
        // verbose pre order, unbounded and depth-bounded
        for md in [None, Some(0usize), Some(1), Some(3)] {
            if let Some(want) = spec_verbose(nodes, &classes, mode, md, CAP) {
                let conv = |d: simplicity::dag::PreOrderIterItem<ShapeRef>| VItem {
                    node: d.node.idx,
                    parent: d.parent.map(|p| p.idx),
                    index: d.index,
                    depth: d.depth,
                    n_children_yielded: d.n_children_yielded,
                    is_complete: d.is_complete,
                };
                let got: Vec<VItem> = match mode {
                    Mode::No => root.verbose_pre_order_iter::<NoSharing>(md).take(3 * CAP + 3).map(conv).collect(),
                    Mode::Internal => root.verbose_pre_order_iter::<InternalSharing>(md).take(3 * CAP + 3).map(conv).collect(),
                    Mode::Class => root.verbose_pre_order_iter::<ClassSharing>(md).take(3 * CAP + 3).map(conv).collect(),
                };
                if got != want {
                    let k = got.iter().zip(want.iter()).position(|(a, b)| a != b).unwrap_or(got.len().min(want.len()));
                    return Err(format!("verbose_pre_order<{}>(max_depth {:?}): item {} is {:?}, specification {:?} (lengths {} vs {})", name, md, k, got.get(k), want.get(k), got.len(), want.len()));
                }
                // each first-yielded node is yielded arity+1 times
                let mut counts: HashMap<usize, usize> = HashMap::new();
                for v in &got {
                    *counts.entry(v.index).or_insert(0) += 1;
                }
                for v in got.iter().filter(|v| v.n_children_yielded == 0) {
                    let arity = match nodes[v.node] {
                        Sh::N => 0,
                        Sh::U(_) => 1,
                        Sh::B(..) => 2,
                    };
                    if counts[&v.index] != arity + 1 {
                        return Err(format!("verbose_pre_order<{}>: node {} yielded {} times, arity {}", name, v.node, counts[&v.index], arity));
                    }
                }
            }
        }
    }
    let _ = index_of;
    if nodes.len() <= 48 {
        check_real(cx, nodes, labels)?;
    }
    Ok(())
}

// ---------------------------------------------------------------------------------------------
// The same shape as a DAG of real library nodes, walked with the library's own trackers
// ---------------------------------------------------------------------------------------------

type CNode = simplicity::CommitNode;

fn real_children(n: &CNode) -> (Option<&CNode>, Option<&CNode>) {
    use simplicity::node::Inner;
    match n.inner() {
        Inner::InjL(c) | Inner::InjR(c) | Inner::Take(c) | Inner::Drop(c) => (Some(c.as_ref()), None),
        Inner::Pair(l, r) | Inner::Comp(l, r) | Inner::Case(l, r) => (Some(l.as_ref()), Some(r.as_ref())),
        _ => (None, None),
    }
}

#[derive(Clone, PartialEq, Eq, Hash)]
enum RealKey {
    Ptr(usize),
    Ihr([u8; 32]),
}

struct RealSpec {
    by_ihr: bool,
    seen: HashMap<RealKey, usize>,
    out: Vec<(usize, Option<usize>, Option<usize>)>,
}

impl RealSpec {
    /// Recursive specification of post-order with a seen-set over pointers or identity hashes
    /// (a node without an identity hash is never shared under identity-hash sharing).
    fn visit(&mut self, n: &CNode) -> usize {
        let key = if self.by_ihr { n.ihr().map(|i| RealKey::Ihr(i.to_byte_array())) } else { Some(RealKey::Ptr(n as *const CNode as usize)) };
        if let Some(k) = &key {
            if let Some(i) = self.seen.get(k) {
                return *i;
            }
        }
        // (sub-DAGs without identity hash are expanded like trees: give up beyond 5000 items)
        if self.out.len() > 5000 {
            return 0;
        }
        let (l, r) = real_children(n);
        let li = l.map(|c| self.visit(c));
        let ri = r.map(|c| self.visit(c));
        let i = self.out.len();
        self.out.push((n as *const CNode as usize, li, ri));
        if let Some(k) = key {
            self.seen.insert(k, i);
        }
        i
    }
}

/// Nullary -> unit or iden (by label), unary -> injl, binary -> pair: every shape is well typed
/// (all nodes share one free source type), structurally equal nodes get equal identity hashes,
/// and type finalisation keeps the pointer structure.
fn check_real(cx: &mut Case, nodes: &[Sh], labels: &[u8]) -> CaseResult {
    use simplicity::dag::MaxSharing;
    use simplicity::node::{Commit, ConstructNode, CoreConstructible};
    use std::sync::Arc;
    let commit: Arc<CNode> = simplicity::types::Context::with_context(|ctx| -> Result<Arc<CNode>, String> {
        let mut built: Vec<Arc<ConstructNode>> = Vec::with_capacity(nodes.len());
        for (i, n) in nodes.iter().enumerate() {
            let node = match *n {
                Sh::N => {
                    // (a witness node has no identity hash: it and its ancestors are never
                    //  shared under identity-hash sharing, not even when the pointer is)
                    match labels.get(i).copied().unwrap_or(0) % 3 {
                        0 => Arc::<ConstructNode>::unit(&ctx),
                        1 => Arc::<ConstructNode>::iden(&ctx),
                        _ => {
                            use simplicity::node::WitnessConstructible;
                            Arc::<ConstructNode>::witness(&ctx, None)
                        }
                    }
                }
                Sh::U(c) => Arc::<ConstructNode>::injl(&built[c]),
                Sh::B(l, r) => Arc::<ConstructNode>::pair(&built[l], &built[r]).map_err(|e| harness_error(format!("pair of shape nodes rejected: {}", e)))?,
            };
            built.push(node);
        }
        built.last().unwrap().finalize_types_non_program().map_err(|e| harness_error(format!("shape program not finalised: {}", e)))
    })?;
    let root: &CNode = commit.as_ref();
    let mut by_ptr = RealSpec { by_ihr: false, seen: HashMap::new(), out: vec![] };
    by_ptr.visit(root);
    let mut by_ihr = RealSpec { by_ihr: true, seen: HashMap::new(), out: vec![] };
    by_ihr.visit(root);
    cx.label("real nodes: library trackers checked");
    cx.label_if(by_ihr.out.len() < by_ptr.out.len(), "real nodes: equal identity hashes on distinct node objects");
    let cmp = |what: &str, want: &[(usize, Option<usize>, Option<usize>)], got: Vec<(usize, usize, Option<usize>, Option<usize>)>| -> CaseResult {
        if got.len() != want.len() {
            return Err(format!("{} on real nodes yields {} items, the specification {} (shape {:?}, labels {:?})", what, got.len(), want.len(), nodes, labels));
        }
        for (i, (g, w)) in got.iter().zip(want.iter()).enumerate() {
            if g.0 != i {
                return Err(format!("{} on real nodes: item {} carries index {}", what, i, g.0));
            }
            if g.1 != w.0 {
                return Err(format!("{} on real nodes: item {} is another node than the specification's (shape {:?}, labels {:?})", what, i, nodes, labels));
            }
            if g.2 != w.1 || g.3 != w.2 {
                return Err(format!("{} on real nodes: item {} reports children at {:?}/{:?}, its actual children were yielded at {:?}/{:?} (shape {:?}, labels {:?})", what, i, g.2, g.3, w.1, w.2, nodes, labels));
            }
        }
        Ok(())
    };
    // (a DAG whose witness-bearing part expands to more than 5000 items under identity-hash
    //  sharing is only walked with pointer sharing)
    let expanded_ok = by_ihr.out.len() <= 5000;
    cx.label_if(!expanded_ok, "real nodes: expansion under identity-hash sharing too large (pointer sharing only)");
    if expanded_ok {
    cmp("post_order_iter::<MaxSharing<Commit>> (&Node)", &by_ihr.out, root.post_order_iter::<MaxSharing<Commit>>().map(|d| (d.index, d.node as *const CNode as usize, d.left_index, d.right_index)).collect())?;
    cmp("post_order_iter::<MaxSharing<Commit>> (Arc<Node>)", &by_ihr.out, Arc::clone(&commit).post_order_iter::<MaxSharing<Commit>>().map(|d| (d.index, Arc::as_ptr(&d.node) as usize, d.left_index, d.right_index)).collect())?;
    }
    cmp("post_order_iter::<InternalSharing> (&Node)", &by_ptr.out, root.post_order_iter::<InternalSharing>().map(|d| (d.index, d.node as *const CNode as usize, d.left_index, d.right_index)).collect())?;
    cmp("post_order_iter::<InternalSharing> (Arc<Node>)", &by_ptr.out, Arc::clone(&commit).post_order_iter::<InternalSharing>().map(|d| (d.index, Arc::as_ptr(&d.node) as usize, d.left_index, d.right_index)).collect())?;
    // pre-order under identity-hash sharing: the same set of classes, each once
    if expanded_ok {
        let mut want: Vec<usize> = by_ihr.out.iter().map(|x| x.0).collect();
        let mut got: Vec<usize> = root.pre_order_iter::<MaxSharing<Commit>>().map(|n| n as *const CNode as usize).collect();
        // the representative of a class may differ between the two orders: compare identity hashes
        let ihr_of = |p: usize| unsafe { (*(p as *const CNode)).ihr().map(|i| i.to_byte_array()) };
        let mut w: Vec<Option<[u8; 32]>> = want.drain(..).map(ihr_of).collect();
        let mut g: Vec<Option<[u8; 32]>> = got.drain(..).map(ihr_of).collect();
        w.sort();
        g.sort();
        if w != g {
            return Err(format!("pre_order_iter::<MaxSharing<Commit>> on real nodes yields {} items, post-order specification has {} classes (or other classes) (shape {:?}, labels {:?})", g.len(), w.len(), nodes, labels));
        }
    }
    // the sharing check: accepted exactly when the pointer structure already is the requested sharing
    let already_max = by_ihr.out.iter().map(|x| x.0).collect::<Vec<_>>() == by_ptr.out.iter().map(|x| x.0).collect::<Vec<_>>();
    if expanded_ok && root.is_shared_as::<MaxSharing<Commit>>() != already_max {
        return Err(format!("is_shared_as::<MaxSharing<Commit>> on real nodes returns {} for a DAG whose pointer structure {} identity-hash sharing (shape {:?}, labels {:?})", !already_max, if already_max { "equals" } else { "differs from" }, nodes, labels));
    }
    if !root.is_shared_as::<InternalSharing>() {
        return Err("is_shared_as::<InternalSharing> is false on a DAG of real nodes".into());
    }
    let tree = by_ptr.out.len() == root.post_order_iter::<NoSharing>().take(100_000).count();
    if root.post_order_iter::<NoSharing>().take(100_000).count() < 100_000 && root.is_shared_as::<NoSharing>() != tree {
        return Err(format!("is_shared_as::<NoSharing> on real nodes returns {} although the DAG {} a tree (shape {:?})", !tree, if tree { "is" } else { "is not" }, nodes));
    }
    Ok(())
}

fn fixed(tier: Tier, emit: &mut dyn FnMut(&[u8])) {
    let max_n = tier.pick(6usize, 7usize);
    // enumerate all shapes with exactly n nodes, n = 1..=max_n
    fn rec(nodes: &mut Vec<(u8, u8, u8)>, n: usize, emit: &mut dyn FnMut(&[u8])) {
        let i = nodes.len();
        if i == n {
            for lab in [0u8, 1u8, 2u8] {
                let mut s = vec![0u8, n as u8, lab];
                for (k, l, r) in nodes.iter() {
                    s.extend_from_slice(&[*k, *l, *r]);
                }
                emit(&s);
            }
            return;
        }
        nodes.push((0, 0, 0));
        rec(nodes, n, emit);
        nodes.pop();
        for c in 0..i {
            nodes.push((1, c as u8, 0));
            rec(nodes, n, emit);
            nodes.pop();
        }
        for l in 0..i {
            for r in 0..i {
                nodes.push((2, l as u8, r as u8));
                rec(nodes, n, emit);
                nodes.pop();
            }
        }
    }
    for n in 1..=max_n {
        rec(&mut vec![], n, emit);
    }
}

/// A generated redemption program (all node kinds, disconnect with branch, witnesses, sharing):
/// the walk of the owned program (`Arc<RedeemNode>`) and of the borrowed one (`&RedeemNode`)
/// have separate `DagLike` implementations and must agree item by item, for pointer sharing and
/// identity-hash sharing; the pre-order walks must yield the same set.
fn real_redeem_case(cx: &mut Case) -> CaseResult {
    use crate::gen::build::*;
    use crate::gen::values::ValBuilder;
    use simplicity::dag::MaxSharing;
    use simplicity::node::Redeem;
    use std::sync::Arc;
    cx.label("mode: generated redemption program (owned vs borrowed walk)");
    let g = super::c01::gen_unit_program(cx, false, false);
    let typed = type_check(&g.prog, true).map_err(|e| harness_error(format!("generated IR rejected: {:?}", e)))?;
    let mut vb = ValBuilder::new();
    vb.constructors_only = true;
    let mut s = cx.src.clone();
    let wit = gen_witnesses(&g.prog, &typed, &mut s, &mut vb);
    cx.src = s;
    let redeem = build_redeem(&g.prog, true, &wit.values).map_err(|e| harness_error(format!("pass 2: {:?}", e)))?;
    g.prog.fingerprint(&mut cx.fp);
    cx.nontrivial = g.prog.in_degrees().iter().any(|d| *d >= 2);
    cx.label_if(g.prog.has("disconnect"), "redemption program has a disconnect with branch");
    cx.set_sample(|| json!({"mode": "redeem program", "program": g.prog.render()}));
    type Item = (usize, usize, Option<usize>, Option<usize>);
    fn differ(what: &str, a: &[Item], b: &[Item], prog: &str) -> CaseResult {
        if a != b {
            let i = a.iter().zip(b.iter()).position(|(x, y)| x != y).unwrap_or(a.len().min(b.len()));
            return Err(format!("{}: the walk of Arc<RedeemNode> and of &RedeemNode differ at item {} ({} vs {} items); program {}", what, i, a.len(), b.len(), prog));
        }
        Ok(())
    }
    let owned: Vec<Item> = Arc::clone(&redeem).post_order_iter::<InternalSharing>().map(|d| (d.index, Arc::as_ptr(&d.node) as usize, d.left_index, d.right_index)).collect();
    let borrowed: Vec<Item> = redeem.as_ref().post_order_iter::<InternalSharing>().map(|d| (d.index, d.node as *const simplicity::RedeemNode as usize, d.left_index, d.right_index)).collect();
    differ("post_order_iter::<InternalSharing>", &owned, &borrowed, &g.prog.render())?;
    let owned: Vec<Item> = Arc::clone(&redeem).post_order_iter::<MaxSharing<Redeem>>().map(|d| (d.index, Arc::as_ptr(&d.node) as usize, d.left_index, d.right_index)).collect();
    let borrowed: Vec<Item> = redeem.as_ref().post_order_iter::<MaxSharing<Redeem>>().map(|d| (d.index, d.node as *const simplicity::RedeemNode as usize, d.left_index, d.right_index)).collect();
    differ("post_order_iter::<MaxSharing<Redeem>>", &owned, &borrowed, &g.prog.render())?;
    // consecutive indices, children before parents and at the reported positions
    for (i, it) in borrowed.iter().enumerate() {
        if it.0 != i || it.2.map(|l| l >= i).unwrap_or(false) || it.3.map(|r| r >= i).unwrap_or(false) {
            return Err(format!("post_order_iter::<MaxSharing<Redeem>> item {} has index {} and children at {:?}/{:?}", i, it.0, it.2, it.3));
        }
    }
    let mut pre_owned: Vec<usize> = Arc::clone(&redeem).pre_order_iter::<InternalSharing>().map(|n| Arc::as_ptr(&n) as usize).collect();
    let mut pre_borrowed: Vec<usize> = redeem.as_ref().pre_order_iter::<InternalSharing>().map(|n| n as *const simplicity::RedeemNode as usize).collect();
    let mut post: Vec<usize> = redeem.as_ref().post_order_iter::<InternalSharing>().map(|d| d.node as *const simplicity::RedeemNode as usize).collect();
    pre_owned.sort();
    pre_borrowed.sort();
    post.sort();
    if pre_owned != post || pre_borrowed != post {
        return Err(format!("pre-order and post-order walks of a redemption program yield different node sets ({} / {} / {}); program {}", pre_owned.len(), pre_borrowed.len(), post.len(), g.prog.render()));
    }
    Ok(())
}

pub fn case(cx: &mut Case) -> CaseResult {
    // (byte 0 selects mode 0: the streams of the exhaustive enumeration are unaffected)
    let mode = cx.src.below(5);
    if mode == 4 {
        return real_redeem_case(cx);
    }
    let mut nodes: Vec<Sh> = vec![];
    let mut labels: Vec<u8> = vec![];
    if mode == 0 {
        // exact encoding (used by the exhaustive enumeration)
        let n = (cx.src.u8() as usize).clamp(1, 12);
        let lab_mode = cx.src.u8();
        for i in 0..n {
            let k = cx.src.u8();
            let l = cx.src.u8() as usize;
            let r = cx.src.u8() as usize;
            nodes.push(if i == 0 || k % 3 == 0 {
                Sh::N
            } else if k % 3 == 1 {
                Sh::U(l % i)
            } else {
                Sh::B(l % i, r % i)
            });
            labels.push(match lab_mode { 0 => 0, 1 => (i % 2) as u8, _ => (i % 3) as u8 });
        }
        cx.label("mode: exact shape");
    } else {
        let n = match cx.src.below(3) {
            0 => cx.src.range(1, 12),
            1 => cx.src.range(1, 60),
            _ => cx.src.range(1, 300),
        };
        let n_labels = cx.src.range(1, 3) as u8;
        // locality: children close to the parent make deep DAGs, far children make wide sharing
        let local = cx.src.bool();
        for i in 0..n {
            let pick = |cx: &mut Case| -> usize {
                if local && i > 4 && cx.src.chance(200) {
                    i - 1 - cx.src.below(4)
                } else {
                    cx.src.below(i)
                }
            };
            let node = if i == 0 {
                Sh::N
            } else {
                match cx.src.weighted(&[2, 3, 8, 1, 1]) {
                    0 => Sh::N,
                    1 => Sh::U(pick(cx)),
                    2 => Sh::B(pick(cx), pick(cx)),
                    3 => {
                        let c = pick(cx);
                        Sh::B(c, c)
                    }
                    _ => {
                        // child and grandchild
                        let c = pick(cx);
                        match nodes[c] {
                            Sh::U(g) | Sh::B(g, _) => {
                                if cx.src.bool() {
                                    Sh::B(c, g)
                                } else {
                                    Sh::B(g, c)
                                }
                            }
                            Sh::N => Sh::U(c),
                        }
                    }
                }
            };
            nodes.push(node);
            labels.push(cx.src.below(n_labels as usize) as u8);
        }
        cx.label("mode: random shape");
        cx.label_if(n > 60, "more than 60 nodes");
    }
    for (n, l) in nodes.iter().zip(labels.iter()) {
        match n {
            Sh::N => cx.fp.write(&[0, *l]),
            Sh::U(c) => {
                cx.fp.write(&[1, *l]);
                cx.fp.write_u64(*c as u64);
            }
            Sh::B(a, b) => {
                cx.fp.write(&[2, *l]);
                cx.fp.write_u64(*a as u64);
                cx.fp.write_u64(*b as u64);
            }
        }
    }
    cx.set_sample(|| json!({"nodes": format!("{:?}", &nodes[..nodes.len().min(40)]), "labels": &labels[..labels.len().min(40)], "n": nodes.len()}));
    check_shape(cx, &nodes, &labels)
}
