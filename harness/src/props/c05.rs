//! C05 Bit Machine execution equals the denotational semantics.

use super::exec_common::*;
use crate::engine::*;
use crate::gen::build::*;
use crate::gen::prog::*;
use crate::gen::types::gen_ty;
use crate::gen::values::*;
use crate::model::eval::EvalError;
use crate::model::layout::*;
use serde_json::json;
use std::sync::Arc;

pub const SPEC: Spec = Spec {
    rule: "a program IR generated type-directed for an arrow A -> B drawn from G-ty (case-shaped sources favoured; all combinators incl. witness, word, assertl/assertr with hidden roots, fail, disconnect with branch, and the 240+ functionally modelled Core jets in comp pipelines), or a single modelled jet on a drawn input; materialised in a fresh context, witnesses generated for the actual inferred types through drawn production histories; 1-3 inputs of the actual source type (half via from_padded_bits with garbage padding); each run repeated under three metamorphic wrappers (comp (pair junk iden) (drop P), pair junk P, take P) that move P to unaligned offsets and reused frames. Oracle: model::eval on value trees (verdict, failure kind and hidden root, output value). Non-trivial: the run executed >= 1 case or comp/disconnect and source or target width >= 1. Distinct by (program, witnesses, input).",
    design_ref: "§6 C05",
    max_len: 900,
    quick_cases: 30_000,
    thorough_cases: 600_000,
    ..Spec::base("C05", "Bit Machine execution equals the denotational semantics", case)
};

thread_local! {
    static JETS: Vec<JetRef> = modelled_core_jets();
}

pub fn gen_program(cx: &mut Case, cfg_mod: impl FnOnce(&mut GenCfg)) -> (Prog, Arc<RTy>, Arc<RTy>) {
    let jets = JETS.with(|j| j.clone());
    let single_jet = cx.src.chance(50);
    let mut cfg = GenCfg::basic(Family::Core);
    cfg.jet_pool = Some(jets.clone());
    cfg.max_nodes = match cx.src.below(3) {
        0 => 8,
        1 => 25,
        _ => 70,
    };
    cfg.share_p = [0u32, 30, 80, 150][cx.src.below(4)];
    cfg.max_mid_width = [8usize, 40, 130][cx.src.below(3)];
    cfg_mod(&mut cfg);
    if single_jet && cfg.jets {
        let j = jets[cx.src.below(jets.len())];
        let (s, t) = (j.source(), j.target());
        cx.label("program: single jet");
        let mut src = cx.src.clone();
        let mut g = ProgGen::new(&mut src, cfg);
        let e = g.jet_call(j, &s, &t, 0);
        let p = g.finish(e);
        cx.src = src;
        return (p, s, t);
    }
    if cx.src.chance(40) {
        cx.label("program: projections over a byte-oriented layout");
        return gen_layout_program(cx);
    }
    if cfg.disconnect && cx.src.chance(14) {
        cx.label("program: disconnect echoing the root it is handed");
        return gen_disconnect_echo(cx);
    }
    let wmax = [6usize, 40, 200][cx.src.below(3)];
    let (a, b) = gen_arrow(&mut cx.src, wmax);
    let mut src = cx.src.clone();
    let mut g = ProgGen::new(&mut src, cfg);
    let e = g.expr(&a, &b, 0);
    let p = g.finish(e);
    cx.src = src;
    cx.label("program: generated");
    (p, a, b)
}

fn konst_ir(v: &RVal, nodes: &mut Vec<Ir>) -> usize {
    let ir = match v {
        RVal::Unit => Ir::Unit,
        RVal::L(x) => Ir::InjL(konst_ir(x, nodes)),
        RVal::R(x) => Ir::InjR(konst_ir(x, nodes)),
        RVal::Pair(x, y) => {
            let a = konst_ir(x, nodes);
            let b = konst_ir(y, nodes);
            Ir::Pair(a, b)
        }
    };
    nodes.push(ir);
    nodes.len() - 1
}

/// Directed population aimed at the commitment root that `disconnect` writes for its left child:
/// `comp E (disconnect (pair (take iden) (drop X)) T)` over a source of 1..7 bits (or a drawn
/// small type), where E = `comp (pair iden ONES) (take iden)` first fills and releases a frame
/// of all-one cells, so that the frame in which the root is written starts at a bit offset that
/// is not a multiple of 8 and re-uses memory that is not zero.  The left child echoes the root
/// into the output, where it is compared with the from-scratch root of T.
fn gen_disconnect_echo(cx: &mut Case) -> (Prog, Arc<RTy>, Arc<RTy>) {
    let s = &mut cx.src;
    let a = match s.below(9) {
        0 => RTy::two(),
        1 => RTy::word(1),
        2 => RTy::prod(RTy::two(), RTy::word(1)),
        3 => RTy::word(2),
        4 => RTy::prod(RTy::two(), RTy::word(2)),
        5 => RTy::prod(RTy::word(1), RTy::word(2)),
        6 => RTy::prod(RTy::prod(RTy::two(), RTy::word(1)), RTy::word(2)),
        7 => RTy::unit(),
        _ => gen_ty(s, 20, 3),
    };
    let mut nodes: Vec<Ir> = vec![];
    fn push(nodes: &mut Vec<Ir>, ir: Ir) -> usize {
        nodes.push(ir);
        nodes.len() - 1
    }
    // E : a -> a
    let n = 6 + s.below(4);
    let ones = RVal::from_word_bits(&vec![true; 1 << n]);
    let i0 = push(&mut nodes, Ir::Iden);
    let k = konst_ir(&ones, &mut nodes);
    let p = push(&mut nodes, Ir::Pair(i0, k));
    let i1 = push(&mut nodes, Ir::Iden);
    let t = push(&mut nodes, Ir::Take(i1));
    let e = push(&mut nodes, Ir::Comp(p, t));
    // S : 2^256 * a -> 2^256 * c
    let i2 = push(&mut nodes, Ir::Iden);
    let echo = push(&mut nodes, Ir::Take(i2));
    let x = match s.below(3) {
        0 => push(&mut nodes, Ir::Iden),
        1 => push(&mut nodes, Ir::Unit),
        _ => {
            let i = push(&mut nodes, Ir::Iden);
            push(&mut nodes, Ir::InjL(i))
        }
    };
    let dx = push(&mut nodes, Ir::Drop(x));
    let sn = push(&mut nodes, Ir::Pair(echo, dx));
    // T : c -> d
    let tn = match s.below(4) {
        0 => push(&mut nodes, Ir::Iden),
        1 => push(&mut nodes, Ir::Unit),
        2 => {
            let i = push(&mut nodes, Ir::Iden);
            let u = push(&mut nodes, Ir::Unit);
            push(&mut nodes, Ir::Pair(i, u))
        }
        _ => {
            let i = push(&mut nodes, Ir::Iden);
            push(&mut nodes, Ir::InjR(i))
        }
    };
    let d = push(&mut nodes, Ir::Disconnect(sn, Some(tn)));
    let body = if s.bool() { push(&mut nodes, Ir::Comp(e, d)) } else { d };
    // the source type is pinned by a constant in front (an unconstrained source would be unit)
    let aval = gen_val(s, &a);
    let ka = konst_ir(&aval, &mut nodes);
    let root = push(&mut nodes, Ir::Comp(ka, body));
    (Prog { nodes, root, family: Family::Core }, RTy::unit(), RTy::unit())
}

/// Directed population aimed at alignment-dependent behaviour of the copy/move/skip paths: a
/// record R of 2..7 components whose widths are bytes, bytes plus or minus a few bits, and
/// single bits; the program copies a selection of components (or their halves) into an output
/// record, so that copies of >= 8 bits that are not a multiple of 8 start and end at all
/// residues mod 8, directly next to other live frames.  Forms: R is the input; R is produced by a
/// constant in a comp (the output frame then lies directly in front of the comp's frame); two
/// projection stages in sequence.  With probability 1/2 a filler of 1..7 bits is put in front
/// of R so that a chosen copy reads from a byte boundary in the comp form.
fn gen_layout_program(cx: &mut Case) -> (Prog, Arc<RTy>, Arc<RTy>) {
    let s = &mut cx.src;
    let two = RTy::two;
    let w = RTy::word;
    let bits_ty = |n: usize| -> Arc<RTy> {
        match n {
            1 => two(),
            2 => w(1),
            3 => RTy::prod(two(), w(1)),
            4 => w(2),
            5 => RTy::prod(two(), w(2)),
            6 => RTy::prod(w(1), w(2)),
            _ => RTy::prod(RTy::prod(two(), w(1)), w(2)),
        }
    };
    let pick = |s: &mut Src| -> Arc<RTy> {
        match s.below(18) {
            0 => w(3),
            1 => w(4),
            2 => w(5),
            3 => RTy::sum(RTy::unit(), w(3)),
            4 => RTy::prod(two(), w(3)),
            5 => RTy::prod(w(3), two()),
            6 => w(2),
            7 => two(),
            8 => w(1),
            9 => RTy::sum(RTy::unit(), w(4)),
            10 => RTy::prod(w(3), w(2)),
            11 => RTy::sum(w(3), w(4)),
            12 => RTy::prod(w(4), w(3)),
            13 => RTy::unit(),
            14 => w(6),
            15 => RTy::sum(w(3), RTy::unit()),
            16 => {
                let n = 1 + s.below(7);
                bits_ty(n)
            }
            _ => gen_ty(s, 40, 4),
        }
    };
    let k = 2 + s.below(5);
    let mut comps: Vec<Arc<RTy>> = (0..k).map(|_| pick(s)).collect();
    // selection of components for the output record (repetition allowed)
    let m = 1 + s.below(4);
    let mut sel: Vec<usize> = (0..m).map(|_| s.below(comps.len())).collect();
    let form = s.below(3);
    if s.bool() {
        // steer: in the comp form the read frame starts right behind the output frame
        let out_w: usize = sel.iter().map(|i| comps[*i].width).sum();
        let t = sel[s.below(sel.len())];
        let off: usize = comps[..t].iter().map(|c| c.width).sum();
        let need = (8 - (out_w + off) % 8) % 8;
        if need > 0 {
            comps.insert(0, bits_ty(need));
            for x in sel.iter_mut() {
                *x += 1;
            }
            // the filler itself is sometimes read after the big copies
            if s.bool() {
                sel.push(0);
            }
        }
    }
    let k = comps.len();
    let left_nested = s.bool();
    let r_ty = if left_nested {
        comps[1..].iter().fold(comps[0].clone(), |acc, c| RTy::prod(acc, c.clone()))
    } else {
        let mut it = comps.iter().rev();
        let last = it.next().unwrap().clone();
        it.fold(last, |acc, c| RTy::prod(c.clone(), acc))
    };
    let mut nodes: Vec<Ir> = vec![];
    fn push(nodes: &mut Vec<Ir>, ir: Ir) -> usize {
        nodes.push(ir);
        nodes.len() - 1
    }
    // projection of component i out of R
    let proj = |nodes: &mut Vec<Ir>, i: usize| -> usize {
        let mut e = push(nodes, Ir::Iden);
        if k == 1 {
            return e;
        }
        if left_nested {
            if i > 0 {
                e = push(nodes, Ir::Drop(e));
            }
            let takes = if i == 0 { k - 1 } else { k - 1 - i };
            for _ in 0..takes {
                e = push(nodes, Ir::Take(e));
            }
        } else {
            if i < k - 1 {
                e = push(nodes, Ir::Take(e));
            }
            let drops = if i == k - 1 { k - 1 } else { i };
            for _ in 0..drops {
                e = push(nodes, Ir::Drop(e));
            }
        }
        e
    };
    let record = |nodes: &mut Vec<Ir>, sel: &[usize]| -> usize {
        let mut items: Vec<usize> = sel.iter().map(|i| proj(nodes, *i)).collect();
        let mut acc = items.pop().unwrap();
        while let Some(p) = items.pop() {
            acc = push(nodes, Ir::Pair(p, acc));
        }
        acc
    };
    let out_ty = |sel: &[usize]| -> Arc<RTy> {
        let mut it = sel.iter().rev();
        let last = comps[*it.next().unwrap()].clone();
        it.fold(last, |acc, i| RTy::prod(comps[*i].clone(), acc))
    };
    let body = record(&mut nodes, &sel);
    let b_ty = out_ty(&sel);
    match form {
        0 => (Prog { nodes, root: body, family: Family::Core }, r_ty, b_ty),
        1 => {
            // comp (const r) body : 1 -> B
            let r = gen_val(s, &r_ty);
            let c = konst_ir(&r, &mut nodes);
            let root = push(&mut nodes, Ir::Comp(c, body));
            (Prog { nodes, root, family: Family::Core }, RTy::unit(), b_ty)
        }
        _ => {
            // comp (pair body iden) (drop body') : R -> B  (a second stage reading R behind a first output)
            let i = push(&mut nodes, Ir::Iden);
            let p = push(&mut nodes, Ir::Pair(body, i));
            let body2 = record(&mut nodes, &sel);
            let d = push(&mut nodes, Ir::Drop(body2));
            let root = push(&mut nodes, Ir::Comp(p, d));
            (Prog { nodes, root, family: Family::Core }, r_ty, b_ty)
        }
    }
}

/// Append a wrapper around the root of `prog` (intended arrow a -> b).  Returns the new program
/// together with functions mapping input and expected output.
fn wrap(prog: &Prog, which: usize, src_ty: &Arc<RTy>, junk_ty: &Arc<RTy>, junk: &RVal) -> Prog {
    let mut nodes = prog.nodes.clone();
    let root = prog.root;
    let mut push = |ir: Ir| {
        nodes.push(ir);
        nodes.len() - 1
    };
    // constant producing `junk` from any input, built from unit/injl/injr/pair (no words, so
    // that it is independent of the word machinery)
    fn konst(v: &RVal, push: &mut dyn FnMut(Ir) -> usize) -> usize {
        match v {
            RVal::Unit => push(Ir::Unit),
            RVal::L(x) => {
                let c = konst(x, push);
                push(Ir::InjL(c))
            }
            RVal::R(x) => {
                let c = konst(x, push);
                push(Ir::InjR(c))
            }
            RVal::Pair(x, y) => {
                let a = konst(x, push);
                let b = konst(y, push);
                push(Ir::Pair(a, b))
            }
        }
    }
    let _ = (src_ty, junk_ty);
    let new_root = match which {
        0 => {
            // comp (pair junk iden) (drop P)
            let k = konst(junk, &mut push);
            let i = push(Ir::Iden);
            let p = push(Ir::Pair(k, i));
            let d = push(Ir::Drop(root));
            push(Ir::Comp(p, d))
        }
        1 => {
            // pair junk P
            let k = konst(junk, &mut push);
            push(Ir::Pair(k, root))
        }
        _ => {
            // take P  (input becomes (in, junk))
            push(Ir::Take(root))
        }
    };
    Prog { nodes, root: new_root, family: prog.family }
}

pub fn case(cx: &mut Case) -> CaseResult {
    let (prog, _ia, _ib) = gen_program(cx, |_| {});
    let typed = match type_check(&prog, false) {
        Ok(t) => t,
        Err(e) => return Err(harness_error(format!("generated IR rejected by the library: {:?}; program {}", e, prog.render()))),
    };
    let (src_ty, tgt_ty) = typed.arrows[&prog.root].clone();
    let mut vb = ValBuilder::new();
    let mut s = cx.src.clone();
    let wit = gen_witnesses(&prog, &typed, &mut s, &mut vb);
    cx.src = s;
    let redeem = match build_redeem(&prog, false, &wit.values) {
        Ok(r) => r,
        Err(e) => return Err(harness_error(format!("pass 2 failed: {:?}; program {}", e, prog.render()))),
    };
    let cmrs = prog.model_cmrs();
    for k in ["case", "assertl", "assertr", "comp", "disconnect", "witness", "word", "jet", "fail", "pair", "take", "drop", "injl", "injr", "iden", "unit"] {
        if prog.has(k) {
            cx.label(match k {
                "case" => "has case",
                "assertl" | "assertr" => "has assertion",
                "comp" => "has comp",
                "disconnect" => "has disconnect",
                "witness" => "has witness",
                "word" => "has word",
                "jet" => "has jet",
                "fail" => "has fail",
                _ => "has core combinators",
            });
        }
    }
    cx.label_if(src_ty.has_padding() || tgt_ty.has_padding(), "io type has padding");
    let n_inputs = 1 + cx.src.below(3);
    prog.fingerprint(&mut cx.fp);
    for i in 0..n_inputs {
        let input = gen_val(&mut cx.src, &src_ty);
        cx.fp.write(&crate::model::bits::pack(&compact_bits(&src_ty, &input)));
        let mut tr = Trace::default();
        let mut s = cx.src.clone();
        let in_value = vb.build(&mut s, &src_ty, &input, 0, &mut tr);
        cx.src = s;
        let model = run_model(&prog, &cmrs, &wit.model, &input);
        let obs = run_core(&redeem, if src_ty.width == 0 && false { None } else { Some(&in_value) });
        let executed_structure = model.trace.cases_executed + model.trace.comps_executed + model.trace.disconnects_executed >= 1;
        if executed_structure && (src_ty.width >= 1 || tgt_ty.width >= 1) {
            cx.nontrivial = true;
        }
        cx.label_if(model.trace.disconnects_executed > 0, "executed disconnect");
        cx.label_if(model.trace.cases_executed > 0, "executed case/assert");
        cx.label_if(!model.trace.jets_executed.is_empty(), "executed jet");
        cx.label_if(model.trace.witnesses_executed > 0, "executed witness");
        if i == 0 {
            cx.set_sample(|| {
                json!({
                    "program": prog.render(), "source": src_ty.show_short(), "target": tgt_ty.show_short(),
                    "input": input.show_short(&src_ty),
                    "witnesses": wit.model.iter().map(|(k, v)| format!("{}: {}", k, v.show_short(&wit.types[k]))).collect::<Vec<_>>(),
                    "semantics": match &model.result { Ok(v) => format!("Ok({})", v.show_short(&tgt_ty)), Err(e) => format!("{:?}", e) },
                })
            });
        }
        match compare(&obs.outcome, &model.result, &tgt_ty) {
            Ok(l) => cx.label(l),
            Err(m) => {
                return Err(format!("{}\n  program: {}\n  arrow: {} -> {}\n  input: {}", m, prog.render(), src_ty.show_short(), tgt_ty.show_short(), input.show_short(&src_ty)));
            }
        }
        if matches!(model.result, Err(EvalError::UnmodelledJet(_))) {
            continue;
        }
        // metamorphic wrappers: same verdict, same value, at other offsets / in reused frames
        let junk_ty = gen_ty(&mut cx.src, 13, 8);
        let junk = gen_val(&mut cx.src, &junk_ty);
        for which in 0..3 {
            let wp = wrap(&prog, which, &src_ty, &junk_ty, &junk);
            let wtyped = match type_check(&wp, false) {
                Ok(t) => t,
                Err(e) => return Err(harness_error(format!("wrapper {} rejected: {:?}", which, e))),
            };
            let (ws, wt) = wtyped.arrows[&wp.root].clone();
            // witness types cannot change under the wrappers; reuse the values
            let wredeem = build_redeem(&wp, false, &wit.values).map_err(|e| harness_error(format!("wrapper {} pass 2: {:?}", which, e)))?;
            let (winput, wwant): (RVal, Result<RVal, EvalError>) = match which {
                0 => (input.clone(), model.result.clone()),
                1 => (input.clone(), model.result.clone().map(|v| RVal::pair(junk.clone(), v))),
                _ => {
                    // take P : src * K -> tgt with K inferred as unit
                    (RVal::pair(input.clone(), RVal::Unit), model.result.clone())
                }
            };
            if !well_typed(&ws, &winput) {
                return Err(harness_error(format!("wrapper {} input ill-typed for {}", which, ws.show_short())));
            }
            let mut tr = Trace::default();
            let mut s = cx.src.clone();
            let wv = vb.build(&mut s, &ws, &winput, 1, &mut tr);
            cx.src = s;
            let wobs = run_core(&wredeem, Some(&wv));
            if let Err(m) = compare(&wobs.outcome, &wwant, &wt) {
                return Err(format!("under wrapper {} ({}): {}\n  program: {}\n  input: {}", which, ["comp (pair junk iden) (drop P)", "pair junk P", "take P"][which], m, prog.render(), input.show_short(&src_ty)));
            }
        }
        cx.label("wrappers agree");
    }
    Ok(())
}
