//! C20 Results are independent of threads and scheduling.

use super::c01::gen_unit_program;
use super::exec_common::modelled_core_jets;
use crate::engine::*;
use crate::gen::build::*;
use crate::gen::env::dummy_env;
use crate::gen::prog::*;
use crate::gen::values::*;
use serde_json::json;
use simplicity::human_encoding::Forest;
use simplicity::jet::{Core, CoreEnv, Elements};
use simplicity::{types, BitIter, BitMachine, CommitNode, RedeemNode, Value};
use std::sync::{Arc, Barrier};

pub const SPEC: Spec = Spec {
    rule: "a batch of 16-64 jobs drawn from the stream: (A) from a byte seed, generate a program, infer types in a fresh context, attach generated witnesses, encode, decode, compute roots and bounds, execute with C jets, prune, re-encode; (B) on a redemption program shared by Arc between threads: execute on an own machine, prune, encode; (C) on a shared commitment program: render to text, parse, re-infer types in an own context; (D) on a shared Value / type: hash, compare, prune, re-decode. Every job returns a digest of everything it computed. The batch is run once sequentially and once on 2-16 threads (assignment of jobs to threads, per-thread order and a common start barrier drawn from the stream; each thread owns its inference contexts, machines and environments). Oracle: per-job digests of the concurrent run equal those of the sequential run; no thread panics; hangs are confirmed in isolation. Non-trivial: >= 8 threads and >= 1 Arc shared by >= 2 threads. Distinct by (jobs, assignment).",
    design_ref: "§6 C20",
    max_len: 900,
    quick_cases: 240,
    thorough_cases: 12_000,
    max_workers: 4,
    hang_is_violation: true,
    scheduling_dependent: true,
    watchdog_s: 180,
    ..Spec::base("C20", "Results are independent of threads and scheduling", case)
};

#[derive(Clone)]
enum Job {
    Pipeline { seed: Vec<u8>, elements: bool },
    SharedRedeem { prog: Arc<RedeemNode>, elements: bool },
    SharedCommit { prog: Arc<CommitNode>, elements: bool },
    SharedValue { v: Value },
    /// n fresh type variables in one own context; the digest is the pattern of their names
    /// (first occurrence index), which is 0,1,2,.. exactly when names are unique in the context
    Names { n: usize },
    /// build an own Elements environment (C allocations, sorting of fee outputs, hashing) from a
    /// generated description and read it back through unit-source introspection jets
    Env { seed: Vec<u8> },
}

fn digest_redeem(h: &mut Fnv, r: &RedeemNode) {
    h.write(r.cmr().as_ref());
    h.write(r.amr().as_ref());
    h.write(r.ihr().as_ref());
    h.write(format!("{:?}", r.bounds()).as_bytes());
    let (p, w) = r.to_vec_with_witness();
    h.write(&p);
    h.write(&w);
}

fn exec_digest(h: &mut Fnv, r: &RedeemNode, elements: bool) {
    match BitMachine::for_program(r) {
        Err(e) => h.write(format!("refused {}", e).as_bytes()),
        Ok(mut mac) => {
            let res = if elements { mac.exec(r, &dummy_env()) } else { mac.exec(r, &CoreEnv::new()) };
            match res {
                Ok(v) => h.write(format!("ok {}", v).as_bytes()),
                Err(e) => h.write(format!("err {}", e).as_bytes()),
            }
        }
    }
    let pruned = if elements { r.prune(&dummy_env()) } else { r.prune(&CoreEnv::new()) };
    match pruned {
        Ok(p) => digest_redeem(h, &p),
        Err(e) => h.write(format!("prune err {}", e).as_bytes()),
    }
}

thread_local! {
    static CORE_POOL: Vec<JetRef> = modelled_core_jets();
}

fn run_job(job: &Job) -> u64 {
    let mut h = Fnv::new();
    match job {
        Job::Pipeline { seed, elements } => {
            let known = Known::default();
            let mut cx = Case::new(seed, Tier::Quick, "C20", &known);
            let g = gen_unit_program(&mut cx, false, true);
            let mut prog = g.prog;
            if *elements {
                // Elements namesakes so that the program can run in the minimal environment
                use simplicity::jet::Jet;
                let _ = CORE_POOL.with(|p| p.len());
                for n in prog.nodes.iter_mut() {
                    if let Ir::Jet(j) = n {
                        *n = match Elements::parse(&j.name()) {
                            Ok(e) => Ir::Jet(JetRef::Elements(e)),
                            Err(_) => Ir::Unit,
                        };
                    }
                }
                prog.family = Family::Elements;
            }
            match type_check(&prog, true) {
                Err(e) => h.write(format!("{:?}", e).as_bytes()),
                Ok(typed) => {
                    h.write(typed.commit.cmr().as_ref());
                    h.write(&typed.commit.to_vec_without_witness());
                    let mut vb = ValBuilder::new();
                    let mut s = cx.src.clone();
                    let wit = gen_witnesses(&prog, &typed, &mut s, &mut vb);
                    match build_redeem(&prog, true, &wit.values) {
                        Err(e) => h.write(format!("{:?}", e).as_bytes()),
                        Ok(r) => {
                            digest_redeem(&mut h, &r);
                            let (p, w) = r.to_vec_with_witness();
                            let d = if *elements {
                                RedeemNode::decode::<_, _, Elements>(BitIter::from(&p[..]), BitIter::from(&w[..]))
                            } else {
                                RedeemNode::decode::<_, _, Core>(BitIter::from(&p[..]), BitIter::from(&w[..]))
                            };
                            match d {
                                Ok(d) => digest_redeem(&mut h, &d),
                                Err(e) => h.write(format!("decode err {}", e).as_bytes()),
                            }
                            if !prog.has("fail") {
                                exec_digest(&mut h, &r, *elements);
                            }
                        }
                    }
                }
            }
        }
        Job::SharedRedeem { prog, elements } => {
            digest_redeem(&mut h, prog);
            exec_digest(&mut h, prog, *elements);
            match prog.unfinalize() {
                Ok(c) => h.write(c.cmr().as_ref()),
                Err(e) => h.write(e.to_string().as_bytes()),
            }
        }
        Job::SharedCommit { prog, elements } => {
            let text = Forest::from_program(prog.clone()).string_serialize();
            h.write(text.as_bytes());
            let parsed = if *elements { Forest::parse::<Elements>(&text) } else { Forest::parse::<Core>(&text) };
            match parsed {
                Ok(f) => {
                    let mut names: Vec<String> = f.roots().keys().map(|k| k.to_string()).collect();
                    names.sort();
                    for n in names {
                        h.write(n.as_bytes());
                        h.write(f.roots()[n.as_str()].cmr().as_ref());
                    }
                }
                Err(e) => h.write(e.to_string().as_bytes()),
            }
            let r = types::Context::with_context(|ctx| prog.unfinalize_types(&ctx).and_then(|c| c.finalize_types()).map(|c| c.to_vec_without_witness()));
            match r {
                Ok(b) => h.write(&b),
                Err(e) => h.write(e.to_string().as_bytes()),
            }
        }
        Job::Env { seed } => {
            let mut src = Src::new(seed);
            let spec = crate::gen::txenv::gen_env(&mut src);
            h.write_u64(spec.digest());
            let env = spec.build();
            for j in [Elements::Version, Elements::LockTime, Elements::ScriptCMR, Elements::TapEnvHash, Elements::TxHash, Elements::OutputsHash, Elements::InputsHash, Elements::NumInputs, Elements::NumOutputs, Elements::TxIsFinal, Elements::GenesisBlockHash, Elements::InternalKey, Elements::CurrentIndex, Elements::SigAllHash, Elements::OutputAmountsHash, Elements::IssuancesHash] {
                let prog = Prog { nodes: vec![Ir::Jet(JetRef::Elements(j))], root: 0, family: Family::Elements };
                match build_redeem(&prog, false, &std::collections::HashMap::new()) {
                    Err(e) => h.write(format!("{:?}", e).as_bytes()),
                    Ok(r) => match BitMachine::for_program(&r) {
                        Err(e) => h.write(format!("refused {}", e).as_bytes()),
                        Ok(mut mac) => match mac.exec(&r, &env) {
                            Ok(v) => h.write(format!("ok {}", v).as_bytes()),
                            Err(e) => h.write(format!("err {}", e).as_bytes()),
                        },
                    },
                }
            }
        }
        Job::Names { n } => {
            types::Context::with_context(|ctx| {
                use simplicity::node::CoreConstructible;
                let mut seen: std::collections::HashMap<String, usize> = std::collections::HashMap::new();
                for _ in 0..*n {
                    let node = Arc::<simplicity::ConstructNode>::iden(&ctx);
                    let name = format!("{}", node.arrow().source);
                    let next = seen.len();
                    let id = *seen.entry(name).or_insert(next);
                    h.write_u64(id as u64);
                }
            });
        }
        Job::SharedValue { v } => {
            use std::hash::{Hash, Hasher};
            #[allow(deprecated)]
            let mut sh = std::hash::SipHasher::new_with_keys(1, 2);
            v.hash(&mut sh);
            h.write_u64(sh.finish());
            let bits: Vec<bool> = v.iter_compact().collect();
            let bytes = crate::model::bits::pack(&bits);
            let again = Value::from_compact_bits(&mut BitIter::from(&bytes[..]), v.ty()).expect("re-decode");
            h.write_u64((again == *v) as u64);
            h.write(format!("{}", v).as_bytes());
            let u = v.prune(&simplicity::types::Final::unit());
            h.write_u64(u.is_some() as u64);
            h.write(v.ty().tmr().as_ref());
        }
    }
    h.finish()
}

/// Expand a 4-byte stream value into a longer pseudo-random seed (a pure function of the
/// stream, so cases stay replayable); zero expands to all zeros.
fn expand(seed: u32, n: usize) -> Vec<u8> {
    if seed == 0 {
        return vec![0; n];
    }
    let mut x = seed as u64 | 1 << 40;
    (0..n)
        .map(|_| {
            x ^= x << 13;
            x ^= x >> 7;
            x ^= x << 17;
            (x >> 24) as u8
        })
        .collect()
}

struct Batch {
    n_threads: usize,
    jobs: Arc<Vec<Job>>,
    assignment: Vec<usize>,
    reverse: Vec<bool>,
    shared_redeem: usize,
    shared_commit: usize,
    /// run the concurrent part in a fresh process, before anything else has touched the
    /// library there (first-use initialisation is then exercised under contention)
    fresh_process: bool,
}

/// The batch is a pure function of the stream (the child process of `fresh_process` cases
/// rebuilds it from the same bytes).
fn build_batch(cx: &mut Case) -> Batch {
    let fresh_process = cx.src.chance(48);
    let n_jobs = cx.src.range(16, 64);
    let n_threads = [2usize, 4, 8, 12, 16][cx.src.below(5)];
    // shared objects prepared on the main thread
    let mut shared_redeem: Vec<(Arc<RedeemNode>, bool)> = vec![];
    let mut shared_commit: Vec<(Arc<CommitNode>, bool)> = vec![];
    let mut shared_values: Vec<Value> = vec![];
    for k in 0..3 {
        let elements = k == 1;
        let sub_seed = expand(cx.src.u32(), 700);
        let known = Known::default();
        let mut sub = Case::new(&sub_seed, cx.tier, "C20", &known);
        let g = gen_unit_program(&mut sub, false, true);
        let mut prog = g.prog;
        if elements {
            use simplicity::jet::Jet;
            for n in prog.nodes.iter_mut() {
                if let Ir::Jet(JetRef::Core(j)) = n {
                    *n = match Elements::parse(&j.to_string()) {
                        Ok(e) => Ir::Jet(JetRef::Elements(e)),
                        Err(_) => Ir::Unit,
                    };
                }
            }
            prog.family = Family::Elements;
        }
        if let Ok(typed) = type_check(&prog, true) {
            shared_commit.push((typed.commit.clone(), elements));
            let mut vb = ValBuilder::new();
            let mut s = sub.src.clone();
            let wit = gen_witnesses(&prog, &typed, &mut s, &mut vb);
            // (in key order: the batch must be the same in the child process of a fresh-process
            //  case, and HashMap iteration order differs between processes)
            let mut keys: Vec<&Id> = wit.values.keys().collect();
            keys.sort();
            for k in keys {
                if shared_values.len() < 4 {
                    shared_values.push(wit.values[k].shallow_clone());
                }
            }
            if let Ok(r) = build_redeem(&prog, true, &wit.values) {
                shared_redeem.push((r, elements));
            }
        }
    }
    if shared_values.is_empty() {
        shared_values.push(Value::u64(0x0123456789abcdef));
    }
    let mut jobs: Vec<Job> = vec![];
    for _ in 0..n_jobs {
        let job = match cx.src.weighted(&[4, 3, 2, 2, 1, 3]) {
            4 => Job::Names { n: cx.src.range(200, 3000) },
            5 => {
                let len = cx.src.range(40, 700);
                Job::Env { seed: expand(cx.src.u32(), len) }
            }
            0 => {
                let len = cx.src.range(8, 160);
                Job::Pipeline { seed: expand(cx.src.u32(), len), elements: cx.src.chance(80) }
            }
            1 if !shared_redeem.is_empty() => {
                let (p, e) = shared_redeem[cx.src.below(shared_redeem.len())].clone();
                Job::SharedRedeem { prog: p, elements: e }
            }
            2 if !shared_commit.is_empty() => {
                let (p, e) = shared_commit[cx.src.below(shared_commit.len())].clone();
                Job::SharedCommit { prog: p, elements: e }
            }
            _ => Job::SharedValue { v: shared_values[cx.src.below(shared_values.len())].shallow_clone() },
        };
        jobs.push(job);
    }
    let assignment: Vec<usize> = (0..n_jobs).map(|_| cx.src.below(n_threads)).collect();
    let reverse: Vec<bool> = (0..n_threads).map(|_| cx.src.bool()).collect();
    cx.fp.write_u64(n_threads as u64);
    for (j, a) in jobs.iter().zip(assignment.iter()) {
        cx.fp.write_u64(*a as u64);
        match j {
            Job::Pipeline { seed, elements } => {
                cx.fp.write(seed);
                cx.fp.write_u64(*elements as u64);
            }
            Job::SharedRedeem { prog, .. } => cx.fp.write(prog.ihr().as_ref()),
            Job::SharedCommit { prog, .. } => cx.fp.write(prog.cmr().as_ref()),
            Job::SharedValue { v } => cx.fp.write(v.ty().tmr().as_ref()),
            Job::Names { n } => cx.fp.write_u64(*n as u64),
            Job::Env { seed } => cx.fp.write(seed),
        }
    }
    Batch { n_threads, jobs: Arc::new(jobs), assignment, reverse, shared_redeem: shared_redeem.len(), shared_commit: shared_commit.len(), fresh_process }
}

/// `comp (comp (injr unit) jet_verify) unit`: the smallest program that calls a C jet.
fn probe_program() -> Result<Arc<RedeemNode>, String> {
    let nodes = vec![Ir::Unit, Ir::InjR(0), Ir::Jet(JetRef::Core(Core::Verify)), Ir::Comp(1, 2), Ir::Unit, Ir::Comp(3, 4)];
    let prog = Prog { nodes, root: 5, family: Family::Core };
    build_redeem(&prog, true, &std::collections::HashMap::new()).map_err(|e| harness_error(format!("probe program: {:?}", e)))
}

/// What every thread does first, all at the same moment: take fresh variable names in an own
/// context and call a C jet.  In a process that has not used the library yet this is where
/// first-use initialisation (name counter, thread-local type tables, the C layout check of the
/// jet call) meets contention.  The digest does not depend on the names themselves, only on
/// the pattern of their first occurrences (0,1,2,.. exactly when they are unique).
fn probe_types(h: &mut Fnv) {
    // the library's own tables of precomputed types, small sizes first
    for n in [1usize, 0, 3, 2, 5, 4, 7, 6] {
        match simplicity::types::Final::buffer8_two_n_plus_one(n) {
            Ok(t) => {
                h.write(t.tmr().as_ref());
                h.write_u64(t.bit_width() as u64);
            }
            Err(_) => h.write(b"too large"),
        }
        if let Ok(t) = simplicity::types::Final::two_two_n(n) {
            h.write(t.tmr().as_ref());
        }
    }
    let c = simplicity::types::Final::ctx8();
    h.write(c.tmr().as_ref());
    h.write_u64(c.bit_width() as u64);
    // types of jets that use the library's precomputed word / buffer / context types
    use simplicity::jet::Jet;
    for j in [Core::Sha256Ctx8Init, Core::Sha256Ctx8Finalize, Core::Sha256Ctx8Add1, Core::Sha256Ctx8Add2, Core::Sha256Ctx8Add4, Core::Sha256Ctx8Add8, Core::Sha256Ctx8Add16, Core::Sha256Ctx8Add32, Core::Sha256Ctx8Add64, Core::Sha256Ctx8Add128, Core::Sha256Ctx8Add256, Core::Sha256Ctx8Add512, Core::Sha256Ctx8AddBuffer511, Core::Add64, Core::Sha256Block] {
        for t in [j.source_ty().to_final(), j.target_ty().to_final()] {
            h.write(t.tmr().as_ref());
            h.write_u64(t.bit_width() as u64);
        }
    }
}

/// Build and drop eight own environments with 1000 fee outputs each (C allocations of equal sizes
/// in every thread, the fee sort, the transaction hashes) and read each back through jets.
fn probe_env(h: &mut Fnv, tag: u32) {
    thread_local! {
        static PROGS: Vec<Arc<RedeemNode>> = {
            let mut v = vec![];
            for j in [Elements::LockTime, Elements::ScriptCMR, Elements::OutputsHash, Elements::TxHash, Elements::NumOutputs] {
                let p = Prog { nodes: vec![Ir::Jet(JetRef::Elements(j))], root: 0, family: Family::Elements };
                v.push(build_redeem(&p, false, &std::collections::HashMap::new()).expect("one-jet program"));
            }
            for a in 0..24usize {
                // comp (const asset id) jet_total_fee
                let id = crate::gen::env::fee_asset(a * 8);
                let bits: Vec<bool> = (0..256).map(|i| ((id[i / 8] >> (7 - (i % 8))) & 1) == 1).collect();
                let p = Prog { nodes: vec![Ir::Word(8, bits), Ir::Jet(JetRef::Elements(Elements::TotalFee)), Ir::Comp(0, 1)], root: 2, family: Family::Elements };
                v.push(build_redeem(&p, false, &std::collections::HashMap::new()).expect("total_fee program"));
            }
            v
        };
    }
    for it in 0..8u32 {
        let env = crate::gen::env::fee_env(tag * 16 + it, 1000);
        PROGS.with(|ps| {
            for r in ps {
                match BitMachine::for_program(r) {
                    Err(e) => h.write(format!("refused {}", e).as_bytes()),
                    Ok(mut mac) => match mac.exec(r, &env) {
                        Ok(v) => h.write(format!("ok {}", v).as_bytes()),
                        Err(e) => h.write(format!("err {}", e).as_bytes()),
                    },
                }
            }
        });
    }
}

fn probe_digest(probe: &RedeemNode, types_first: bool, tag: u32) -> u64 {
    let mut h = Fnv::new();
    if types_first {
        probe_types(&mut h);
    }
    // the jet call (first unless the types are): its first use in a process matters, and the
    // threads are closest together right after the rendezvous
    match BitMachine::for_program(probe) {
        Err(e) => h.write(format!("refused {}", e).as_bytes()),
        Ok(mut mac) => match mac.exec(probe, &CoreEnv::new()) {
            Ok(v) => h.write(format!("ok {}", v).as_bytes()),
            Err(e) => h.write(format!("err {}", e).as_bytes()),
        },
    }
    if !types_first {
        probe_types(&mut h);
    }
    probe_env(&mut h, tag);
    types::Context::with_context(|ctx| {
        use simplicity::node::CoreConstructible;
        let mut seen: std::collections::HashMap<String, usize> = std::collections::HashMap::new();
        for _ in 0..5000 {
            let node = Arc::<simplicity::ConstructNode>::iden(&ctx);
            let name = format!("{}", node.arrow().source);
            let next = seen.len();
            h.write_u64(*seen.entry(name).or_insert(next) as u64);
        }
    });
    h.finish()
}

fn run_concurrent(b: &Batch) -> Result<Vec<u64>, String> {
    let (n_threads, n_jobs) = (b.n_threads, b.jobs.len());
    let (jobs, assignment, reverse) = (b.jobs.clone(), b.assignment.clone(), b.reverse.clone());
    let barrier = Arc::new(Barrier::new(n_threads));
    let probe = probe_program()?;
    let types_first = b.reverse.get(1).copied().unwrap_or(false);
    // a spin rendezvous behind the barrier: a condition-variable barrier wakes its threads one
    // after the other, tens of microseconds apart
    let arrived = Arc::new(std::sync::atomic::AtomicUsize::new(0));
    let mut handles = vec![];
    for t in 0..n_threads {
        let jobs = jobs.clone();
        let barrier = barrier.clone();
        let probe = probe.clone();
        let arrived = arrived.clone();
        let mut mine: Vec<usize> = (0..n_jobs).filter(|j| assignment[*j] == t).collect();
        if reverse[t] {
            mine.reverse();
        }
        handles.push(
            std::thread::Builder::new()
                .stack_size(64 << 20)
                .spawn(move || {
                    barrier.wait();
                    arrived.fetch_add(1, std::sync::atomic::Ordering::SeqCst);
                    let mut spins = 0u64;
                    while arrived.load(std::sync::atomic::Ordering::SeqCst) < n_threads && spins < 50_000_000 {
                        std::hint::spin_loop();
                        spins += 1;
                    }
                    // a panic is reported with its message and location (a panic in harness code
                    // is a harness error, not a finding about the library)
                    std::panic::catch_unwind(std::panic::AssertUnwindSafe(|| {
                        let p = probe_digest(&probe, types_first, t as u32);
                        (p, mine.into_iter().map(|j| (j, run_job(&jobs[j]))).collect::<Vec<(usize, u64)>>())
                    }))
                    .map_err(|_| crate::engine::run::last_panic().unwrap_or_default())
                })
                .map_err(|e| harness_error(format!("cannot spawn thread: {}", e)))?,
        );
    }
    let mut concurrent = vec![0u64; n_jobs];
    let mut probes = vec![];
    for (t, h) in handles.into_iter().enumerate() {
        match h.join() {
            Ok(Err((msg, loc))) => {
                if loc.contains("/verif/") || loc.starts_with("src/") {
                    return Err(harness_error(format!("harness panic in thread {}: {} at {}", t, msg, loc)));
                }
                return Err(format!("thread {} of {} panicked while running its jobs concurrently (the same jobs ran sequentially without panic): {} at {}", t, n_threads, msg, loc));
            }
            Ok(Ok((p, results))) => {
                probes.push(p);
                for (j, d) in results {
                    concurrent[j] = d;
                }
            }
            Err(_) => return Err(format!("thread {} of {} panicked while running its jobs concurrently (the same jobs ran sequentially without panic)", t, n_threads)),
        }
    }
    // the per-thread probe digests follow the job digests; the caller compares them with the
    // same probe run alone in ITS process (the child of a fresh-process case reports them to the
    // parent, whose library state no concurrent first use has touched)
    concurrent.extend(probes);
    Ok(concurrent)
}

/// Entry point of the child process of `fresh_process` cases (`vcheck-bin c20child <hex stream>`):
/// rebuild the batch, run only the concurrent part, print the digests.
/// 16 threads, each with its own probe program, released together: the very first thing that
/// happens to the library in a fresh process.
fn fresh_probe(types_first: bool) -> Vec<u64> {
    let n = 16usize;
    let arrived = Arc::new(std::sync::atomic::AtomicUsize::new(0));
    let handles: Vec<_> = (0..n)
        .map(|t| {
            let arrived = arrived.clone();
            std::thread::Builder::new()
                .stack_size(64 << 20)
                .spawn(move || {
                    let probe = probe_program().ok();
                    arrived.fetch_add(1, std::sync::atomic::Ordering::SeqCst);
                    let mut spins = 0u64;
                    while arrived.load(std::sync::atomic::Ordering::SeqCst) < n && spins < 200_000_000 {
                        std::hint::spin_loop();
                        spins += 1;
                    }
                    match probe {
                        Some(p) => probe_digest(&p, types_first, t as u32),
                        None => 0,
                    }
                })
                .expect("spawn")
        })
        .collect();
    handles.into_iter().map(|h| h.join().unwrap_or(1)).collect()
}

fn pre_probe_order(stream: &[u8]) -> bool {
    stream.first().map(|b| b & 1 == 1).unwrap_or(false)
}

pub fn child_main(stream: &[u8]) -> i32 {
    let pre = fresh_probe(pre_probe_order(stream));
    println!("C20CHILD-PRE {}", pre.iter().map(|x| format!("{:016x}", x)).collect::<Vec<_>>().join(","));
    let known = Known::default();
    let mut cx = Case::new(stream, Tier::Quick, "C20", &known);
    let b = build_batch(&mut cx);
    match run_concurrent(&b) {
        Ok(d) => {
            println!("C20CHILD-OK {}", d.iter().map(|x| format!("{:016x}", x)).collect::<Vec<_>>().join(","));
            0
        }
        Err(m) => {
            println!("C20CHILD-FAIL {}", m);
            0
        }
    }
}

fn run_concurrent_in_fresh_process(stream: &[u8]) -> Result<Result<Vec<u64>, String>, String> {
    let exe = std::env::current_exe().map_err(|e| harness_error(format!("current_exe: {}", e)))?;
    let out = std::process::Command::new(exe)
        .arg("c20child")
        .arg(hex(stream))
        .env("MALLOC_MMAP_THRESHOLD_", "33554432")
        .output()
        .map_err(|e| harness_error(format!("cannot start the child process: {}", e)))?;
    let text = String::from_utf8_lossy(&out.stdout);
    for line in text.lines() {
        if let Some(rest) = line.strip_prefix("C20CHILD-PRE ") {
            // the probe that 16 threads ran before anything else in the child
            let probe_prog = probe_program()?;
            for (t, x) in rest.split(',').filter(|x| !x.is_empty()).enumerate() {
                let got = u64::from_str_radix(x, 16).map_err(|e| harness_error(format!("child output: {}", e)))?;
                let alone = probe_digest(&probe_prog, pre_probe_order(stream), t as u32);
                if got != alone {
                    return Ok(Err(format!("thread {} of 16 in a fresh process: requesting precomputed jet types, calling jet_verify, building and reading own environments and taking fresh variable names, all threads at once as the first use of the library, gives another result than the same steps run alone", t)));
                }
            }
            continue;
        }
        if let Some(rest) = line.strip_prefix("C20CHILD-OK ") {
            let mut v = vec![];
            for x in rest.split(',').filter(|x| !x.is_empty()) {
                v.push(u64::from_str_radix(x, 16).map_err(|e| harness_error(format!("child output: {}", e)))?);
            }
            return Ok(Ok(v));
        }
        if let Some(rest) = line.strip_prefix("C20CHILD-FAIL ") {
            return Ok(Err(rest.to_string()));
        }
    }
    // the child died (abort, stack overflow, ...) while running the jobs concurrently
    Ok(Err(format!("the child process running the batch concurrently ended with {:?} without a result; stderr: {}", out.status, String::from_utf8_lossy(&out.stderr).lines().rev().take(3).collect::<Vec<_>>().join(" | "))))
}

pub fn case(cx: &mut Case) -> CaseResult {
    let stream: Vec<u8> = cx.src.clone().rest().to_vec();
    let b = build_batch(cx);
    let (n_threads, n_jobs) = (b.n_threads, b.jobs.len());
    let (jobs, assignment) = (b.jobs.clone(), b.assignment.clone());
    let (shared_redeem, shared_commit) = (b.shared_redeem, b.shared_commit);
    // The concurrent run of a fresh-process case happens in a child that has not used the
    // library before; otherwise the order of the two runs in this process is drawn.
    let concurrent_first = !b.fresh_process && b.reverse.first().copied().unwrap_or(false);
    let mut concurrent: Option<Vec<u64>> = None;
    if b.fresh_process {
        cx.label("concurrent run in a fresh process");
        concurrent = Some(run_concurrent_in_fresh_process(&stream)?.map_err(|m| format!("{} (fresh process)", m))?);
    } else if concurrent_first {
        cx.label("concurrent run before the sequential run");
        concurrent = Some(run_concurrent(&b)?);
    }
    let sequential: Vec<u64> = jobs.iter().map(run_job).collect();
    let concurrent = match concurrent {
        Some(c) => c,
        None => run_concurrent(&b)?,
    };
    if concurrent.len() != n_jobs + n_threads {
        return Err(harness_error(format!("concurrent run returned {} digests for {} jobs and {} threads", concurrent.len(), n_jobs, n_threads)));
    }
    let probes: Vec<u64> = concurrent[n_jobs..].to_vec();
    let concurrent: Vec<u64> = concurrent[..n_jobs].to_vec();
    let probe_prog = probe_program()?;
    for (t, p) in probes.iter().enumerate() {
        let alone = probe_digest(&probe_prog, b.reverse.get(1).copied().unwrap_or(false), t as u32);
        if *p != alone {
            return Err(format!("thread {} of {}: requesting precomputed jet types, calling jet_verify, building and reading six own environments with 300 fee outputs and taking 5000 fresh variable names in an own context right after the common start gives another result than the same steps run alone (wrong type, failed jet call, or names not unique within the context)", t, n_threads));
        }
    }
    let threads_sharing = {
        // number of threads that touch some shared object
        let mut set = std::collections::HashSet::new();
        for (j, a) in jobs.iter().zip(assignment.iter()) {
            if !matches!(j, Job::Pipeline { .. } | Job::Names { .. } | Job::Env { .. }) {
                set.insert(*a);
            }
        }
        set.len()
    };
    cx.nontrivial = n_threads >= 8 && threads_sharing >= 2;
    cx.label(match n_threads {
        2 => "2 threads",
        4 => "4 threads",
        8 => "8 threads",
        12 => "12 threads",
        _ => "16 threads",
    });
    cx.label_if(threads_sharing >= 2, "Arc shared by >= 2 threads");
    cx.set_sample(|| json!({"jobs": n_jobs, "threads": n_threads, "shared_redeem_programs": shared_redeem, "shared_commit_programs": shared_commit, "kinds": jobs.iter().map(|j| match j { Job::Pipeline{..} => "pipeline", Job::SharedRedeem{..} => "shared redeem", Job::SharedCommit{..} => "shared commit", Job::SharedValue{..} => "shared value", Job::Names{..} => "variable names", Job::Env{..} => "own environment" }).collect::<Vec<_>>()}));
    for j in 0..n_jobs {
        if sequential[j] != concurrent[j] {
            return Err(format!("job {} gives a different result when run concurrently ({} threads) than sequentially", j, n_threads));
        }
    }
    Ok(())
}
