//! Differential partner: the vendored libsimplicity C pipeline (Elements build).
//!
//! Struct layouts are the ones the crate's `test-utils` module declares (their sizes/alignments
//! are asserted against the C side by the crate's own tests); `evalTCOExpression` is declared
//! HERE with the parameter list of `simplicity/eval.h` (nine parameters, including `minCost`),
//! because the crate's own test binding omits `minCost` (finding F1).

use simplicity::ffi::ffi::{c_size_t, c_uchar, ubounded, UBOUNDED_MAX, UWORD};
use simplicity::ffi::tests::ffi::bitstream::{simplicity_closeBitstream, CBitstream};
use simplicity::ffi::tests::ffi::dag::{
    simplicity_computeAnnotatedMerkleRoot, simplicity_fillWitnessData, simplicity_verifyNoDuplicateIdentityHashes, CAnalyses, CCombinatorCounters, CDagNode,
};
use simplicity::ffi::tests::ffi::deserialize::simplicity_decodeMallocDag;
use simplicity::ffi::tests::ffi::elements::{simplicity_elements_decodeJet, simplicity_elements_mallocBoundVars};
use simplicity::ffi::tests::ffi::eval::simplicity_analyseBounds;
use simplicity::ffi::tests::ffi::ty::CType;
use simplicity::ffi::tests::ffi::type_inference::simplicity_mallocTypeInference;
pub use simplicity::ffi::tests::ffi::SimplicityErr;
use simplicity::ffi::CElementsTxEnv;
use std::ptr;

pub const CHECK_NONE: c_uchar = 0;
pub const CHECK_ALL: c_uchar = 0xFF;
pub const CELLS_MAX: ubounded = 0x500000;
pub const BUDGET_MAX: ubounded = 4000050;

extern "C" {
    /// simplicity_err evalTCOExpression(flags_type anti_dos_checks, UWORD* output, const UWORD* input,
    ///     const dag_node* dag, type* type_dag, size_t len, ubounded minCost, const ubounded* budget, const txEnv* env)
    #[link_name = "rustsimplicity_0_7_evalTCOExpression"]
    fn eval_tco_expression(
        anti_dos_checks: c_uchar,
        output: *mut UWORD,
        input: *const UWORD,
        dag: *const CDagNode,
        type_dag: *mut CType,
        len: c_size_t,
        min_cost: ubounded,
        budget: *const ubounded,
        env: *const CElementsTxEnv,
    ) -> SimplicityErr;
}

struct FreeOnDrop(*mut u8);
impl Drop for FreeOnDrop {
    fn drop(&mut self) {
        unsafe { simplicity::ffi::alloc::rust_0_7_free(self.0) }
    }
}

fn root_bytes(m: &simplicity::ffi::ffi::sha256::CSha256Midstate) -> [u8; 32] {
    let mut a = [0u8; 32];
    for i in 0..8 {
        a[4 * i..4 * i + 4].copy_from_slice(&m.s[i].to_be_bytes());
    }
    a
}

#[derive(Copy, Clone, Debug, PartialEq, Eq)]
pub enum Stage {
    Decode,
    CloseProgram,
    TypeInference,
    FillWitness,
    CloseWitness,
    IhrUniqueness,
    NotProgram,
}

#[derive(Clone, Debug)]
pub struct COutput {
    /// first stage that rejected the input, if any
    pub rejected: Option<(Stage, SimplicityErr)>,
    pub len: usize,
    pub cmr: [u8; 32],
    pub amr: [u8; 32],
    pub ihr: [u8; 32],
    /// analyseBounds(maxCells = CELLS_MAX, minCost 0, maxCost UBOUNDED_MAX): Ok(cost bound in milliweight)
    pub bounds: Result<ubounded, SimplicityErr>,
    /// analyseBounds without a cell limit
    pub cost_unbounded: Result<ubounded, SimplicityErr>,
    /// result of evalTCOExpression, if requested and the program was accepted
    pub eval: Option<SimplicityErr>,
    /// per DAG node (C numbering, hidden nodes included): commitment root, annotated root, hidden?
    pub node_cmr: Vec<[u8; 32]>,
    pub node_amr: Vec<[u8; 32]>,
    pub node_hidden: Vec<bool>,
}

pub struct EvalRequest<'a> {
    pub flags: c_uchar,
    pub env: Option<&'a CElementsTxEnv>,
    pub min_cost: ubounded,
    pub budget: Option<ubounded>,
}

/// Run the C pipeline: decode, close, infer types, fill witness, close, AMR, IHR uniqueness,
/// bounds, 1->1 check, optionally evaluation.
pub fn run(program: &[u8], witness: &[u8], eval: Option<EvalRequest>) -> COutput {
    let mut out = COutput { rejected: None, len: 0, cmr: [0; 32], amr: [0; 32], ihr: [0; 32], bounds: Err(SimplicityErr::NoError), cost_unbounded: Err(SimplicityErr::NoError), eval: None, node_cmr: vec![], node_amr: vec![], node_hidden: vec![] };
    let mut prog_stream = CBitstream::from(program);
    let mut wit_stream = CBitstream::from(witness);
    let mut census = CCombinatorCounters::default();
    unsafe {
        let mut dag = ptr::null_mut();
        let r = simplicity_decodeMallocDag(&mut dag, simplicity_elements_decodeJet, &mut census, &mut prog_stream);
        let len = match SimplicityErr::from_i32(r) {
            Ok(n) => n as usize,
            Err(e) => {
                out.rejected = Some((Stage::Decode, e));
                return out;
            }
        };
        let _d1 = FreeOnDrop(dag as *mut u8);
        out.len = len;
        if let Err(e) = SimplicityErr::from_i32(simplicity_closeBitstream(&mut prog_stream)) {
            out.rejected = Some((Stage::CloseProgram, e));
            return out;
        }
        out.cmr = root_bytes(&(*dag.add(len - 1)).cmr);
        let mut type_dag = ptr::null_mut();
        if let Err(e) = simplicity_mallocTypeInference(&mut type_dag, simplicity_elements_mallocBoundVars, dag, len, &census).into_result() {
            out.rejected = Some((Stage::TypeInference, e));
            return out;
        }
        let _d2 = FreeOnDrop(type_dag as *mut u8);
        if let Err(e) = simplicity_fillWitnessData(dag, type_dag, len as c_size_t, &mut wit_stream).into_result() {
            out.rejected = Some((Stage::FillWitness, e));
            return out;
        }
        if let Err(e) = SimplicityErr::from_i32(simplicity_closeBitstream(&mut wit_stream)) {
            out.rejected = Some((Stage::CloseWitness, e));
            return out;
        }
        let mut analyses = vec![CAnalyses::default(); len];
        simplicity_computeAnnotatedMerkleRoot(analyses.as_mut_ptr(), dag, type_dag, len);
        out.amr = root_bytes(&analyses[len - 1].annotated_merkle_root);
        for i in 0..len {
            let n = &*dag.add(i);
            out.node_cmr.push(root_bytes(&n.cmr));
            out.node_amr.push(root_bytes(&analyses[i].annotated_merkle_root));
            out.node_hidden.push(n.tag == simplicity::ffi::tests::ffi::dag::CTag::HIDDEN);
        }
        let mut ihr = Default::default();
        if let Err(e) = simplicity_verifyNoDuplicateIdentityHashes(&mut ihr, dag, type_dag, len).into_result() {
            out.rejected = Some((Stage::IhrUniqueness, e));
            return out;
        }
        out.ihr = root_bytes(&ihr);
        let (mut cb, mut wb, mut fb, mut cost): (ubounded, ubounded, ubounded, ubounded) = (0, 0, 0, 0);
        out.cost_unbounded = simplicity_analyseBounds(&mut cb, &mut wb, &mut fb, &mut cost, UBOUNDED_MAX, 0, UBOUNDED_MAX, dag, type_dag, len).into_result().map(|_| cost);
        out.bounds = simplicity_analyseBounds(&mut cb, &mut wb, &mut fb, &mut cost, CELLS_MAX, 0, UBOUNDED_MAX, dag, type_dag, len).into_result().map(|_| cost);
        let root = &*dag.add(len - 1);
        if root.aux_types.types[0] != 0 || root.aux_types.types[1] != 0 {
            out.rejected = Some((Stage::NotProgram, SimplicityErr::TypeInferenceNotProgram));
            return out;
        }
        if let Some(req) = eval {
            let budget_storage = req.budget;
            let budget_ptr = budget_storage.as_ref().map(|b| b as *const ubounded).unwrap_or(ptr::null());
            let env_ptr = req.env.map(|e| e as *const CElementsTxEnv).unwrap_or(ptr::null());
            out.eval = Some(eval_tco_expression(req.flags, ptr::null_mut(), ptr::null(), dag, type_dag, len, req.min_cost, budget_ptr, env_ptr));
        }
    }
    out
}
