#!/usr/bin/env python3
"""Confirm a seeded change produced by a sub-agent and run the checks against it.

usage: tools_seed.py <PROPERTY_ID> <k> [<check id> ...]
  reads   /tmp/seed/<PROPERTY_ID>/seeded/<k>/{patch.diff,demo.rs,meta.txt}   (scratch worktree of /repo)
  step 1  in the scratch worktree: clean tree + demo passes; patched tree compiles, the whole existing
          suite passes, demo fails  (independent confirmation)
  step 2  applies the patch to /repo, runs `./vcheck <check> quick` for the property's own check (and any
          extra check ids given), reverts /repo straight afterwards
  writes  /verif/seeded/<PROPERTY_ID>-<k>/{patch.diff,demo.rs,meta.json}
"""
import json, os, shutil, subprocess, sys, time

def sh(cmd, cwd=None, timeout=3600):
    p = subprocess.run(cmd, shell=True, cwd=cwd, stdout=subprocess.PIPE, stderr=subprocess.STDOUT, text=True, timeout=timeout)
    return p.returncode, p.stdout

def recheck():
    """tools_seed.py recheck <seed dir name, e.g. C05-1> <check id> ...  : step 2 only, from the saved patch"""
    name, checks = sys.argv[2], sys.argv[3:]
    out = f"/verif/seeded/{name}"
    meta = json.load(open(f"{out}/meta.json"))
    rc, o = sh("git -C /repo status --short | grep -v '^??' | head -3")
    if o.strip():
        print("refusing: /repo has uncommitted changes", o); sys.exit(2)
    rc, o = sh(f"git -C /repo apply {out}/patch.diff")
    if rc != 0:
        print("patch does not apply to the current /repo:", o); sys.exit(2)
    try:
        for c in checks:
            t0 = time.time()
            rc, o = sh(f"cd /verif && ./vcheck {c} quick 2>&1 | grep -E 'VIOLATION|failure:|INCONCLUSIVE|quick:' | cut -c1-400", timeout=7200)
            o = "\n".join(sorted(o.splitlines(), key=lambda l: 0 if "VIOLATION" in l else 1)[:40])
            meta["detection"][c] = {"quick_detects": "VIOLATION" in o, "wall_s": round(time.time() - t0, 1), "output": o.strip().splitlines()[:8]}
    finally:
        sh("git -C /repo checkout -- .")
        sh("rm -rf /verif/replays")
    json.dump(meta, open(f"{out}/meta.json", "w"), indent=1)
    print(json.dumps({"seed": name, "detection": {c: d["quick_detects"] for c, d in meta["detection"].items()}}))

def main():
    if sys.argv[1] == "recheck":
        return recheck()
    pid, k = sys.argv[1], sys.argv[2]
    checks = [pid] + sys.argv[3:]
    wt = f"/tmp/seed/{pid}"
    src = f"{wt}/seeded/{k}"
    # later rounds of seeding for the same property: SEED_OFFSET=3 stores seeded/<k> as <PID>-<k+3>
    out = f"/verif/seeded/{pid}-{int(k) + int(os.environ.get('SEED_OFFSET', '0'))}"
    os.makedirs(out, exist_ok=True)
    for f in ("patch.diff", "demo.rs"):
        shutil.copy(f"{src}/{f}", f"{out}/{f}")
    agent_notes = open(f"{src}/meta.txt").read() if os.path.exists(f"{src}/meta.txt") else ""
    meta = {"property": pid, "seed": int(k), "agent_notes": agent_notes, "confirmation": {}, "detection": {}}
    feat = "--features human_encoding,test-utils"
    # step 1: independent confirmation in the scratch worktree
    sh("git checkout -- . && rm -f tests/seed_demo.rs", cwd=wt)
    shutil.copy(f"{src}/demo.rs", f"{wt}/tests/seed_demo.rs") if os.path.isdir(f"{wt}/tests") else (os.makedirs(f"{wt}/tests"), shutil.copy(f"{src}/demo.rs", f"{wt}/tests/seed_demo.rs"))
    rc, o = sh(f"cargo test --offline {feat} --test seed_demo 2>&1 | tail -15", cwd=wt)
    clean_pass = "test result: ok" in o
    meta["confirmation"]["clean_tree_demo_passes"] = clean_pass
    rc, o = sh("git apply seeded/%s/patch.diff" % k, cwd=wt)
    meta["confirmation"]["patch_applies"] = rc == 0
    rc, o = sh("cargo test --workspace --offline --no-fail-fast 2>&1 | grep -E '^test result|FAILED|^error' | sort | uniq -c", cwd=wt)
    # the demo file is an extra test binary of the root package; ignore its own result here
    suite_ok = ("FAILED" not in o.replace("seed_demo", "")) and ("error" not in o)
    rc2, o2 = sh(f"rm -f tests/seed_demo.rs; cargo test --workspace --offline --no-fail-fast 2>&1 | grep -E '^test result|FAILED|^error' | sort | uniq -c", cwd=wt)
    suite_ok = ("FAILED" not in o2) and ("error" not in o2) and ("test result: ok" in o2)
    meta["confirmation"]["patched_tree_existing_suite_passes"] = suite_ok
    meta["confirmation"]["suite_summary"] = o2.strip()
    shutil.copy(f"{src}/demo.rs", f"{wt}/tests/seed_demo.rs")
    rc, o = sh(f"cargo test --offline {feat} --test seed_demo 2>&1 | tail -15", cwd=wt)
    # (a demo may also end by a signal, e.g. SIGSEGV/SIGABRT in C code: cargo then prints "error: test failed")
    demo_fails = ("test result: FAILED" in o) or (("panicked" in o or "error: test failed" in o or "signal:" in o) and "test result: ok" not in o)
    meta["confirmation"]["patched_tree_demo_fails"] = demo_fails
    sh("git checkout -- . && rm -f tests/seed_demo.rs", cwd=wt)
    confirmed = clean_pass and suite_ok and demo_fails and meta["confirmation"]["patch_applies"]
    meta["confirmed"] = confirmed
    # step 2: detection by the checks
    if confirmed:
        rc, o = sh(f"git -C /repo status --short | grep -v '^??' | head -3")
        if o.strip():
            print("refusing: /repo has uncommitted changes", o); sys.exit(2)
        rc, o = sh(f"git -C /repo apply {out}/patch.diff")
        try:
            for c in checks:
                t0 = time.time()
                rc, o = sh(f"cd /verif && ./vcheck {c} quick 2>&1 | grep -E 'VIOLATION|failure:|INCONCLUSIVE|quick:' | cut -c1-400", timeout=7200)
                o = "\n".join(sorted(o.splitlines(), key=lambda l: 0 if "VIOLATION" in l else 1)[:40])
                viol = "VIOLATION" in o
                meta["detection"][c] = {"quick_detects": viol, "wall_s": round(time.time() - t0, 1), "output": o.strip().splitlines()[:8]}
        finally:
            sh("git -C /repo checkout -- .")
    json.dump(meta, open(f"{out}/meta.json", "w"), indent=1)
    print(json.dumps({"seed": f"{pid}-{k}", "confirmed": confirmed, "confirmation": {k2: v for k2, v in meta["confirmation"].items() if k2 != "suite_summary"}, "detection": {c: d["quick_detects"] for c, d in meta["detection"].items()}}))

main()
