#!/usr/bin/env python3
"""Writes small libFuzzer seed corpora under /verif/corpus/<target>/ from generated samples.

usage: tools_corpus.py            (needs a built harness: ./vcheck --build)

The files are committed; the fuzz campaigns read them as a second (read-only) corpus directory.
Formats (the bytes after the target's fixed prefix, see harness/src/props/*.rs):
  c02_decode        [split][program bytes][witness bytes]   split < 128: no witness
  c03_differential  [split][program bytes][witness bytes]   split < 160: no witness
  c13_bits          arbitrary bytes (the whole stream drives the case)
  c17_parse         UTF-8 source text
"""
import json, os, subprocess, hashlib

BIN = "/verif/harness/target/release/vcheck-bin"

def samples(pid, n, seed):
    env = dict(os.environ, VERIF_SEED=str(seed))
    out = subprocess.run([BIN, "samples", pid, str(n)], env=env, stdout=subprocess.PIPE, stderr=subprocess.DEVNULL, text=True).stdout
    res = []
    for line in out.splitlines():
        try:
            res.append(json.loads(line))
        except Exception:
            pass
    return res

def write(target, data):
    d = f"/verif/corpus/{target}"
    os.makedirs(d, exist_ok=True)
    open(f"{d}/{hashlib.sha1(data).hexdigest()[:16]}", "wb").write(data)

def with_split(prog, wit, threshold, cut_of):
    if not wit:
        return bytes([0]) + prog
    rest = prog + wit
    for split in range(threshold, 256):
        if cut_of(split, len(rest)) == len(prog):
            return bytes([split]) + rest
    return None

def main():
    n_files = 0
    # valid (program, witness) encodings from the C01 and C03 generators
    pairs = []
    for seed in (1, 2, 3):
        for s in samples("C01", 30, seed):
            if s.get("mode") == "redeem":
                pairs.append((bytes.fromhex(s["program_bytes"]), bytes.fromhex(s["witness_bytes"])))
            elif "bytes" in s:
                pairs.append((bytes.fromhex(s["bytes"]), b""))
        for s in samples("C03", 30, seed):
            if s.get("mode") == "valid":
                pairs.append((bytes.fromhex(s["bytes"]), bytes.fromhex(s["witness"])))
    pairs = [p for p in pairs if len(p[0]) + len(p[1]) <= 600]
    for prog, wit in pairs[:80]:
        f = with_split(prog, wit, 128, lambda s, l: (s * (l + 1)) >> 8)
        if f:
            write("c02_decode", f); n_files += 1
        f = with_split(prog, wit, 160, lambda s, l: (s * l) >> 8)
        if f:
            write("c03_differential", f); n_files += 1
    # source texts from the C17 generator (mode 2 texts and mode 1 renderings)
    for seed in (1, 2):
        for s in samples("C17", 40, seed):
            t = s.get("text") or s.get("rendered")
            if t and len(t) <= 1500 and "bytes in all]" not in t:
                write("c17_parse", t.encode()); n_files += 1
    for t in ["main := unit", "main := comp (pair (injl unit) unit) (assertl unit #abcd1234abcd1234abcd1234abcd1234abcd1234abcd1234abcd1234abcd1234)",
              "wit1 := witness : 1 -> 2^8\nmain := comp wit1 unit", "main := comp (disconnect iden ?h) unit", "a := const 0xff\nmain := comp a (comp jet_verify unit) -- never\n",
              "main := fail 0x00112233445566778899aabbccddeeff00112233445566778899aabbccddeeff00112233445566778899aabbccddeeff00112233445566778899aabbccddeeff"]:
        write("c17_parse", t.encode()); n_files += 1
    # bit streams: a few natural-number encodings and random-looking bytes
    for b in [b"\x00", b"\xff" * 8, bytes(range(32)), b"\x80\x00\x00\x01", b"\xe0\x09\x40\x00"]:
        write("c13_bits", b); n_files += 1
    print("wrote", n_files, "corpus files")

main()
