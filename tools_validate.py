#!/usr/bin/env python3
"""Validate MANIFEST.json and evidence files against the schemas in /root/.vp (needs python3-vt)."""
import json, sys, glob, jsonschema
ev = json.load(open('/root/.vp/EVIDENCE.schema.json'))
ok = True
for p in sorted(glob.glob('/verif/evidence/*.json')):
    try:
        e = json.load(open(p)); jsonschema.validate(e, ev)
        print(p, 'ok', e['tier'], e['coverage'].get('evaluations'), e['coverage'].get('distinct_nontrivial'), 'violations', e.get('violations'))
    except Exception as x:
        ok = False; print(p, 'INVALID', str(x)[:300])
try:
    m = json.load(open('/verif/MANIFEST.json')); jsonschema.validate(m, json.load(open('/root/.vp/MANIFEST.schema.json')))
    print('MANIFEST ok:', len(m['checks']), 'checks,', len(m.get('not_applicable', [])), 'not applicable')
except Exception as x:
    ok = False; print('MANIFEST INVALID', str(x)[:300])
sys.exit(0 if ok else 1)
