#!/usr/bin/env python3
"""Prints the markdown table of DESIGN.md section 8 from /verif/seeded/*/meta.json."""
import json, glob, re

rows = []
for f in sorted(glob.glob('/verif/seeded/*/meta.json')):
    m = json.load(open(f))
    name = f.split('/')[-2]
    notes = m.get('agent_notes', '')
    first = ''
    for line in notes.splitlines():
        line = line.strip()
        if line:
            first = line
            break
    first = re.sub(r'\s+', ' ', first)[:110].replace('|', '/')
    det = m.get('detection', {})
    own = name.split('-')[0]
    caught = [c for c, d in det.items() if d.get('quick_detects')]
    missed = [c for c, d in det.items() if not d.get('quick_detects')]
    rows.append((name, 'yes' if m.get('confirmed') else 'NO', first, ', '.join(caught) or '-', ', '.join(missed) or '-', 'yes' if own in caught else 'no'))
print('| seed | confirmed | change (first line of the author\'s note) | caught by (quick) | also run, silent | own check |')
print('|---|---|---|---|---|---|')
for r in rows:
    print('| ' + ' | '.join(r) + ' |')
