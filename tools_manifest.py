#!/usr/bin/env python3
"""Regenerates /verif/MANIFEST.json from the table below (single source for the check list)."""
import json, subprocess

CHECKS = {
 "C04": ("property-based differential testing of type inference against a textbook unifier over generated, mutated and directed combinator DAGs, each built in several random topological orders",
         "Exploration with a reference model (model::unify: first-order unification over rational trees with merge-before-descent and a final acyclicity check): acceptance <=> finite solution, every node's arrow equals the principal arrow with variables := unit, all construction orders agree in verdict and arrows, every error displays within 8 MiB and 2^23 iterator steps.",
         "Trusted: model::unify and the typing rules written in its header; jets as typed leaves take their types from the crate's tables. Construction stops at the first constructor error (the context is partially updated afterwards). Known finding F6 (unbounded error display) is keyed on DAGs containing a sub-DAG whose isolated principal type has >= 2^16 tree nodes.",
         "DESIGN.md §6 C04"),
 "C14": ("exhaustive enumeration over all 368+471+428 jets and all 502 extern declarations; round-trip, prefix-code, name-parse and differential (C decoder, C type inference, C analyseBounds on one-jet programs) oracles; textual comparison of Rust extern blocks with C prototypes and of the repr(C) structs passed by pointer with the C structs, field by field",
         "Exhaustive over the finite sets the property quantifies over: code round trip and prefix-freeness per family, name parsing, type-name consistency, Core vs Elements namesake (types, code behind the family bit), Elements jets against the C tables (cmr, source/target type roots and widths, cost), and arity/parameter-type compatibility of every foreign function declaration with the C prototype (incl. WRAP_ expansions).",
         "Trusted: the small declaration parser and type-compatibility table in model/c14_decls.rs (conservative: unparsed or unmapped items are counted, never reported); libsimplicity as reference. Return types are compared but only counted (the property speaks of arity and parameter types). Bitcoin jets: codes, names, type names only, as the property states.",
         "DESIGN.md §6 C14"),
 "C16": ("property-based testing: generated policy trees x availability subsets x lock-time environments x permutations; boolean reference model with leaf truth observed through one-leaf programs",
         "Exploration with a reference model: cmr() == commit().cmr() == satisfied/pruned cmr; satisfy is Ok exactly when the and/or/threshold model is true under leaf truths observed by running each one-leaf program in the environment; the satisfied program and its pruned form run; sorted() is idempotent, only reorders, and is invariant under permutations of commutative children at every depth.",
         "Trusted: the boolean model, libsecp256k1 for signatures, the Elements environment builder. Leaf truths come from executing the library's own one-leaf programs (so lock-time answers are true of the environment by construction).",
         "DESIGN.md §6 C16"),
 "C02": ("property-based testing: raw byte strings, byte-level mutations of valid encodings and single-rule canonicity violations (incl. hand-assembled nodes of one identity hash with different inner types) assembled with an independent bit-level writer; round-trip (re-encode = input) oracle with fuel and allocation meters",
         "Exploration: every input is decoded by RedeemNode::decode, CommitNode::decode and ConstructNode::decode under a DAG-step fuel limit (2^28), an allocation bound (96 MiB + 4096*len) and with overflow checks on; anything accepted must re-encode to exactly the input; a directed valid program whose witness has a zero-width type with 2^k tree nodes (k = 20..64) must be accepted within the same bounds; a jet node carrying an unassigned code of the family's prefix tree (computed from the encoder's tables, extended by 0..2 bits) must be rejected; each directed negative (unused node, non-canonical order, unshared duplicate, repeated hidden node, trailing byte, non-zero padding, short witness) must be rejected while its canonical twin is accepted.",
         "Trusted: model::wire (reader/writer of the bit format, cross-checked against the encoder on every valid program), the fuel hook, the counting allocator. Jet bit codes come from the crate's encode tables. The libFuzzer campaign of the thorough tier extends the raw-bytes part.",
         "DESIGN.md §6 C02"),
 "C03": ("property-based differential testing against the vendored C implementation: valid, pruned, mutated, hand-assembled non-canonical and raw (program, witness) byte pairs, and serialisations of generated non-program expressions; roots compared at the root and (cmr, amr) at every node",
         "Exploration with a differential partner: acceptance by RedeemNode::decode::<Elements> must coincide with acceptance by the C pipeline (decode, type inference, witness, IHR uniqueness, 1->1) except C FailCode and C resource refusals; cmr, amr, ihr and the cost bound must be identical whenever both accept. Part of the valid/mutated population has one witness of a completely pinned type (every width 1..1400 for the SHA-256 padding of the witness hash, padded sums, equal-width arms).",
         "Trusted: libsimplicity as the reference, the FFI struct layouts declared by simplicity-sys (asserted against C by its own tests). Inputs whose declared node count cannot fit the input are not given to C (it allocates from the length prefix).",
         "DESIGN.md §6 C03"),
 "C09": ("property-based testing: generated programs x witness assignments x disconnect variants x hidden sets x conversion paths x single structural edits, against from-scratch tagged hashing",
         "Exploration with a reference model (model::cmr): every node of every node form has the reference root; roots are invariant under witness data, disconnect branches, type inference, all conversions and the Hiding wrapper; every single edit of committed structure changes the root.",
         "Trusted: model::cmr (tags and block layout re-derived; only the SHA-256 compression function is taken from bitcoin_hashes), jet roots from the crate's tables (checked against C by C14). Policy::cmr is checked under C16.",
         "DESIGN.md §6 C09"),
 "C01": ("property-based testing: generated well-typed program IRs (Core and Elements jets) x generated witnesses, plus directed sizes beyond the generator's range (words of 2^10..2^13 bits, 10 000..18 000 encoded nodes); encode/decode round-trip oracle over MaxSharing post-order walks",
         "Exploration with a round-trip oracle: commit-time (CommitNode::decode) and redemption-time (RedeemNode::decode) round trips of generated programs with all combinator kinds, sharing swept 0..0.6, hidden roots and fail entropies re-used within a program, plus single-witness programs whose witness type is pinned completely (exact widths 1..1400, padded sums, equal-width arms); element-wise equality of combinator, payload, child indices, cmr, arrows, ihr/amr, witness bits; re-encoding reproduces both byte streams.",
         "Trusted: the IR-first generator (the inference context holds only the program's own nodes, as the quantifier requires; commit-time programs never share witness/disconnect-bearing sub-expressions). Programs produced by prune are outside this property's quantifier and are checked by C08.",
         "DESIGN.md §6 C01"),
 "C08": ("property-based testing: generated satisfying programs x witnesses; metamorphic/differential oracle (same cmr, still runs, Rust re-decode, libsimplicity CHECK_ALL via own 9-parameter binding, idempotence)",
         "Exploration: every generated Elements program that runs is pruned; (half of them after a round trip through their own serialisation, i.e. maximally shared) the result must keep the cmr, run, decode back to itself in Rust, be accepted by the C decoder/type checker and by evalTCOExpression(CHECK_ALL), and be a fixed point of prune.",
         "Trusted: libsimplicity as reference for the anti-DoS rule; own extern declaration of evalTCOExpression with the C header's parameter list; minimal Elements environment (jets are the Elements namesakes of modelled Core jets). Known finding F15 is excluded by a predicate on the pruned program (case/assertion identity-root collision), known finding F18 by a predicate on the unpruned run (distinct case objects of one identity hash taking different branches).",
         "DESIGN.md §6 C08"),
 "C12": ("property-based testing: generated programs x wrong-typed witness candidates x API routes; validity predicate on the result",
         "Exploration of a validity predicate: for right-typed, wider, narrower, same-width-other-shape, unit and missing candidates on every witness node, finalize_unpruned, finalize_pruned, the witness-map route (Forest::from_program) and a forest route with several roots (holes named after other roots, one name shared by several disconnect nodes at different types; right-typed witnesses only) must return Err or a program whose witnesses all have their node's target type, whose serialisation decodes back (with well-typed decoded witnesses) and which runs without panic.",
         "Trusted: the generator and the two-pass typing. Known findings F4/F4b (unchecked attachment, panics downstream) are keyed on cases that contain a wrong-typed candidate; with only right-typed candidates any failure is a violation.",
         "DESIGN.md §6 C12"),
 "C05": ("property-based testing: type-directed program generation x generated inputs/witnesses, differential against a width-free big-step evaluator; metamorphic wrappers",
         "Exploration with a reference model (model::eval over value trees, model::jets for 240+ Core jets, model::cmr for the root passed by disconnect): verdict, failure kind (with hidden root) and output value of every run must equal the semantics; each run is repeated under three wrappers that move the program to unaligned offsets and reused frames. Two directed populations: projections over byte-oriented records (copies of >= 8 bits that are not a multiple of 8 at all residues next to live frames) and disconnect nodes whose left child echoes the root it is handed, at non-byte offsets in non-zero memory.",
         "Trusted: model::eval/model::jets/model::cmr/model::layout, the IR-first generator (each reachable IR node is materialised exactly once in a fresh context). Jet names and type names are read from the crate's tables (checked against C by C14). Only Core jets with a functional model are generated; others are covered differentially by C06.",
         "DESIGN.md §6 C05"),
 "C07": ("property-based testing with an instrumentation hook: generated programs and deep comp nests executed on generated inputs; invariant over the machine's high-water marks; directed type-bomb refusal cases",
         "Exploration of an invariant: after every execution (incl. failing ones) max live cells <= width(src)+width(tgt)+extra_cells and max live frames <= extra_frames+2 (hook verif_high_water), no index panic / debug assertion (debug assertions are compiled in); programs with a 2^46..2^70-bit middle type must be refused by BitMachine::for_program, and so must programs with a wide target whose total bound (io + extra cells) exceeds the cell limit that the library itself reports in its refusal error, even when every single quantity is below it. Comp nests include elements that go through disconnect with a wide intermediate type. Bounds are observed to be tight on ~25% of cases, so an off-by-one in a formula is visible.",
         "Trusted: the verif-hooks instrumentation (3 added statements in new_write_frame), the generators. The far refusal threshold (2^45 cells) is far above MAX_CELLS, and the near one is read from LimitError::MaxCellsExceeded{max}, so that a legitimate change of the limit cannot raise an alarm; nothing is demanded of programs below the limit. The frame limit is not aimed at.",
         "DESIGN.md §6 C07"),
 "C10": ("property-based testing over generated types x values x production histories, against a width-free tree model of the two bit layouts",
         "Exploration with a reference model (model::layout): every generated (type, value) is materialised through a drawn API history and compared bit-by-bit with the definition of the padded and compact layouts; decoders are checked for exact consumption, accessors/constructors for inversion on every sub-value, prune for the modelled projection (smaller, equal, incompatible targets; two-step = one-step).",
         "Trusted: model::layout (written from the layout definition, unit-tested), G-ty/G-val generators. For targets that are incompatible only off the taken path the oracle accepts None or a well-formed value of exactly the target type (DESIGN §6 C10 soundness note). Widths are capped at 4096 (quick) / 65536 (thorough) bits for cost only.",
         "DESIGN.md §6 C10"),
 "C11": ("property-based testing over triples of values built through independent production histories, against structural equality of model trees",
         "Exploration with a reference model: == must coincide with equality of (model type, model tree) for values produced by different histories (garbage padding, sub-value at a bit offset, prune, machine output); equal => equal Hash; cmp total, antisymmetric, transitive on triples, Equal <=> ==; same for Word.",
         "Trusted: model::layout, the production histories of gen::values (each built value is first checked to denote the intended element, as in C10). Hash is observed through SipHasher with fixed keys.",
         "DESIGN.md §6 C11"),
 "C18": ("exhaustive enumeration of all DAG shapes up to 6 (thorough: 7) nodes + property-based testing of random shapes up to 300 nodes, against a recursive specification and a validity predicate",
         "Exploration, exhaustive for small shapes: an own DagLike implementation over bare shapes is iterated with NoSharing, InternalSharing and a class tracker modelling identity-hash sharing; post-order, right-to-left post-order, pre-order, verbose pre-order (with and without depth limit) and is_shared_as are compared with a recursive seen-set specification and an independent validity predicate (consecutive indices, children earlier, reported child indices hold the actual children).",
         "Trusted: the recursive specifications in harness/src/props/c18.rs. Every shape of <= 48 nodes is also built as a DAG of real CommitNodes (unit/iden, injl, pair) and walked with the library's own MaxSharing<Commit> and InternalSharing trackers on &Node and Arc<Node> (post-order items, pre-order set, is_shared_as for the three policies) against a recursive specification over pointers / identity hashes. A fifth mode walks generated redemption programs (disconnect with branch) as Arc<RedeemNode> and as &RedeemNode and requires the two walks to agree.",
         "DESIGN.md §6 C18"),
 "C06": ("property-based differential testing of the Rust Bit Machine against libsimplicity's evaluator: generated Elements programs and per-jet templates (all 471 jets) x generated witnesses x generated transaction environments; verdict comparison",
         "Exploration with a differential partner: the verdict of BitMachine::exec (success / assertion / jet failure) must equal the verdict of evalTCOExpression(CHECK_NONE) on the program's serialisation in the same marshalled environment. Per-jet templates compare the jet's output inside the program with the value the Rust machine observed (combinator-only equality feeding assertr or the verify jet), so the verdict depends on every output bit as the C evaluator computes it; one-bit mutations of the expected value must fail with the predicted kind on both sides. The jet's argument sits alone in a fresh frame or, in half of the templates, behind / in front of a non-zero neighbour inside a larger frame; a delegation template checks the root that disconnect hands to its left child; further templates run one jet twice on one frame, execute one shared case node twice (right, then left) before the frame is read again, and start from memory that an earlier frame filled with ones.",
         "Trusted: libsimplicity as the reference; own extern declaration of evalTCOExpression with the C header's 9 parameters; the environment is marshalled once by ElementsEnv::new and shared (as the property states; its content is C15's subject). Programs with fail nodes are outside (C does not decode them); for_program refusals, LimitExceeded and C ExecMemory/ExecBudget/Malloc are counted as outside the limits. A program C refuses to decode or type is C03's subject and is counted, not compared.",
         "DESIGN.md §6 C06"),
 "C15": ("property-based testing: generated Elements transaction environments x 67 introspection jets x in-range and out-of-range indices, against field values recomputed from the Rust-side description",
         "Exploration with a reference model: each one-jet program is run on the Bit Machine in an environment built by ElementsEnv::new from a generated description (issuances, peg-ins, confidential fields, annexes, OP_RETURN data, control blocks, lock times and sequences at their boundaries); the compact output must equal the value computed in harness/src/props/c15.rs from the description per the jet specifications; out-of-range indices yield the absent form; check_lock_* succeed exactly when the argument does not exceed the lock value.",
         "Trusted: the per-jet reference functions in c15.rs (written from elementsJets.c/env.c descriptions, SHA-256 from bitcoin_hashes), gen::txenv. Not asserted (counted): annex status of a one-item witness stack starting with 0x50. F16 (peg-in derived from the witness instead of the flag) is repaired in /repo.",
         "DESIGN.md §6 C15"),
 "C17": ("property-based testing and string fuzzing: generated committed programs, generated well-formed source texts in an independent printer's style, token soup, deep nestings, edited texts and raw strings; render/parse round-trip oracle; termination watchdog",
         "Exploration with a round-trip oracle: program -> from_program -> string_serialize -> parse and text -> parse -> string_serialize -> parse must reproduce the cmr, every node's combinator/payload/children/types/ihr in the MaxSharing walk and the bit encoding; Forest::parse returns Ok or an error list without panic, stack overflow or hang (watchdog; a confirmed hang is a violation for this property) on every generated string. Eight minimal reproducers of the seven repaired defects are enumerated on every run.",
         "Trusted: the independent text printer gen::text (a text it prints may be rejected, e.g. for an ascription that no longer fits; only accepted texts are held to the round trip), the walk comparison shared with C01. Texts > 40 kB and renderings > 120 kB are skipped for cost (the lexer is quadratic). Allocation growth of parse and panics of the ErrorSet display with source attached are labelled observations, outside the statement.",
         "DESIGN.md §6 C17"),
 "C20": ("property-based testing over generated job batches and thread assignments: sequential run vs concurrent run on 2-16 OS threads with a start barrier; per-job digest equality",
         "Exploration with a determinism oracle: every job (type inference in a fresh context, witness attachment, encode/decode, roots, bounds, execution with C jets, prune, text render/parse, Value hashing/comparison on Arcs shared between threads) returns a digest of everything it computed; digests of the concurrent run must equal those of the sequential run and no thread may panic. A further job kind records the first-occurrence pattern of the names of n fresh type variables of one context (unique names <=> 0,1,2,..). Every thread starts, behind a spin rendezvous, with a probe (the library's precomputed type tables, a C jet call, eight own environments with 1000 fee outputs built, read through jets and dropped, 5000 fresh variable names) whose digest must equal that of the probe run alone; a job kind builds an environment from a generated description and reads it back. In 19% of the batches the concurrent run happens in a fresh child process that has not used the library before (the probe runs there on 16 threads before anything else), in another 19% before the sequential run. A failing batch is re-run alone up to six times and reported even if it does not fail again (the outcome depends on scheduling). The harness does not own the scheduler: interleavings are whatever 16 cores produce under a barrier start, so this can only find races that manifest readily.",
         "Trusted: the digest functions; thread assignment is drawn from the stream but OS scheduling is not reproducible: a replay file reproduces the batch and assignment, not the interleaving. Weak level by nature of the technique (stated in DESIGN.md §6 C20).",
         "DESIGN.md §6 C20"),
 # id: (technique, level text, level note, design ref)
 "C13": ("property-based testing (proptest-driven choice streams) + exhaustive enumeration of naturals, against a from-scratch reference coder and a Vec<bool> stream model",
         "Exploration with a reference model. Naturals are enumerated exhaustively for 1..2^17 and +-2000 around every power of two to 2^33 at 12 result types and several bounds; arbitrary byte strings are decoded against a reference decoder (uniqueness of encoding); writer/reader op sequences, windows and collect_bits are compared with a bit-vector model. Finds wrong bits, counters, truncation and close() errors on everything generated; proves nothing beyond that.",
         "Trusted: the reference coder in harness/src/model/bits.rs (unit-tested against the examples of the format description), proptest, the engine. Values >= 2^31 are only required to be rejected-or-exact (the property says rejected rather than truncated).",
         "DESIGN.md §6 C13"),
 "C19": ("exhaustive enumeration over deficit windows x stack shapes + property-based testing, against a from-scratch compact-size length model",
         "Exploration with a reference model; exhaustive over every deficit in 0..600 and 65000..66200 (x3 remainders) for 14 stack shapes that straddle the 252/253 and 65535/65536 boundaries in item count and item size, random elsewhere up to the consensus maximum. Checks validity <=> weight <= len+50, padding None <=> valid, annex sufficiency, minimality (one byte shorter is insufficient) and monotone round-up conversions.",
         "Trusted: compact-size arithmetic in harness/src/props/c19.rs; bitcoin::Weight. Minimality is not required when the item count is 252 or 65535, as the property states.",
         "DESIGN.md §6 C19"),
}

NOT_YET = {"C06": "check not built yet in this tree; planned in DESIGN.md §6 C06 as a property-based differential of Rust and C evaluator verdicts (nothing is claimed for it)"}

ALL = ["C%02d" % i for i in range(1, 21)]
props = {}
for line in open('/verif/properties.jsonl'):
    p = json.loads(line); props[p['id']] = p

def hooks_commits():
    try:
        out = subprocess.check_output(['git', '-C', '/repo', 'log', '--format=%H %s'], text=True)
        return [l.split()[0] for l in out.splitlines() if 'verif-hooks' in l]
    except Exception:
        return []

checks = []
for pid in ALL:
    if pid in CHECKS:
        tech, text, note, ref = CHECKS[pid]
        checks.append({
            "property_id": pid,
            "quick_cmd": "./vcheck %s quick" % pid,
            "thorough_cmd": "./vcheck %s thorough" % pid,
            "evidence_file": "/verif/evidence/%s.json" % pid,
            "replay_cmd_template": "./vcheck %s --replay {path}" % pid,
            "engine": "vharness",
            "level_claimed": {"category": "exploration", "text": text, "design_ref": ref},
            "level_note": note,
            "technique": tech,
        })
na = [{"property_id": pid, "reason": NOT_YET.get(pid, "check not built yet in this tree; planned in DESIGN.md §6 with property-based testing / fuzzing (nothing is claimed for it)")}
      for pid in ALL if pid not in CHECKS]
manifest = {
    "version": 1,
    "setup_cmd": "./vcheck --build",
    "hooks": {
        "guard": "cargo feature `verif-hooks` of simplicity-lang",
        "enable": "the harness depends on simplicity-lang (path /repo) with features test-utils, human_encoding, verif-hooks; every ./vcheck invocation rebuilds from /repo's working tree",
        "baseline_off_cmd": "cd /repo && cargo test --workspace --no-fail-fast --offline",
        "source_commits": hooks_commits(),
        "add_only": True,
    },
    "engines": [{
        "name": "vharness",
        "path": "/verif/harness",
        "serves_properties": sorted(CHECKS),
        "kind_free_text": "Rust crate: choice-stream generators driven by proptest (fixed seeds from VERIF_SEED, shrinking to a replay file), supervisor/worker process isolation with journaling, DAG-step fuel and allocation meters, reference models; cargo-fuzz targets reuse the same decoders",
    }],
    "checks": checks,
    "notes": "Exit 0 = held on everything explored (KNOWN-FINDING lines for listed findings), 1 = VIOLATION lines, 2 = inconclusive (build failure, harness inconsistency, unconfirmed crash/hang). Known findings: /verif/known_findings.json. VCHECK_SCALE=<f> scales the random case budget.",
    "not_applicable": na,
}
json.dump(manifest, open('/verif/MANIFEST.json', 'w'), indent=1)
print("wrote MANIFEST.json:", len(checks), "checks,", len(na), "not applicable")
