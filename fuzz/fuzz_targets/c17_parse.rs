#![no_main]
//! C17: the whole stream drives the property (programs, texts, arbitrary strings)
use libfuzzer_sys::fuzz_target;

#[global_allocator]
static ALLOC: vharness::engine::meter::Meter = vharness::engine::meter::Meter;

fuzz_target!(|data: &[u8]| {
    vharness::engine::fuzz::run_case(&vharness::props::c17::SPEC, &[], data);
});
