#![no_main]
//! C17: the input is a source text (mode 4 of the check: parse; if accepted with the single root
//! main: render, parse again, compare), Core jets
use libfuzzer_sys::fuzz_target;

#[global_allocator]
static ALLOC: vharness::engine::meter::Meter = vharness::engine::meter::Meter;

fuzz_target!(|data: &[u8]| {
    vharness::engine::fuzz::run_case(&vharness::props::c17::SPEC, &[255, 0, 0], data);
});
