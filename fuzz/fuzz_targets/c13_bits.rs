#![no_main]
//! C13: the whole stream drives the property (naturals, bytes-as-natural, op sequences, windows)
use libfuzzer_sys::fuzz_target;

#[global_allocator]
static ALLOC: vharness::engine::meter::Meter = vharness::engine::meter::Meter;

fuzz_target!(|data: &[u8]| {
    vharness::engine::fuzz::run_case(&vharness::props::c13::SPEC, &[], data);
});
