#![no_main]
//! C03: raw bytes, Rust vs C acceptance and roots (prefix selects the raw mode)
use libfuzzer_sys::fuzz_target;

#[global_allocator]
static ALLOC: vharness::engine::meter::Meter = vharness::engine::meter::Meter;

fuzz_target!(|data: &[u8]| {
    vharness::engine::fuzz::run_case(&vharness::props::c03::SPEC, &[255u8], data);
});
