#![no_main]
//! C05/C01/C08: structured target - the stream is decoded into a program, witnesses and inputs
use libfuzzer_sys::fuzz_target;

#[global_allocator]
static ALLOC: vharness::engine::meter::Meter = vharness::engine::meter::Meter;

fuzz_target!(|data: &[u8]| {
    vharness::engine::fuzz::run_case(&vharness::props::c05::SPEC, &[], data);
});
