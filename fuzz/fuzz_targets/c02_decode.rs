#![no_main]
//! C02: raw (program, witness) bytes to all decoders of both families; the stream prefix selects the raw mode of the property's case function
use libfuzzer_sys::fuzz_target;

#[global_allocator]
static ALLOC: vharness::engine::meter::Meter = vharness::engine::meter::Meter;

fuzz_target!(|data: &[u8]| {
    vharness::engine::fuzz::run_case(&vharness::props::c02::SPEC, &[0u8], data);
});
